package checks

import (
	"context"
	"encoding/hex"
	"encoding/json"
	"fmt"
	"math/big"
	"os"
	"sort"
	"strings"
	"time"

	sdkmath "cosmossdk.io/math"
	"cosmossdk.io/store"
	pruningtypes "cosmossdk.io/store/pruning/types"
	abci "github.com/cometbft/cometbft/abci/types"
	"github.com/cosmos/cosmos-sdk/baseapp"
	"github.com/cosmos/cosmos-sdk/telemetry"
	sdk "github.com/cosmos/cosmos-sdk/types"
	authtypes "github.com/cosmos/cosmos-sdk/x/auth/types"
	vestingtypes "github.com/cosmos/cosmos-sdk/x/auth/vesting/types"
	"github.com/ethereum/go-ethereum/common"
	ethtypes "github.com/ethereum/go-ethereum/core/types"

	cpctypes "github.com/EscanBE/evermint/v12/x/cpc/types"
	evmtypes "github.com/EscanBE/evermint/v12/x/evm/types"

	"verif/harness/asm"
	"verif/harness/ev"
	"verif/harness/vrt"
	"verif/harness/world"
)

// C01 — block execution is a deterministic function of prior state and block.
//
// Engine: envx. The check runs in the binary built with the consensus-profile overlay (cmd/instr): every `range` over a
// Go map, every wall-clock read and every `go` statement of the consensus packages of /repo's current tree goes through
// package vrt, whose hooks this check owns. An *environment policy* assigns to every instrumented site (and to the
// node-local configuration, the process history and the query interleaving) one of a few answers; the default policy
// answers "sorted order / block time / fresh defaults". For every history of the block alphabet the explorer runs the
// default policy, learns which sites were hit, and then enumerates every policy with at most B non-default answers
// (depth-first; sites first hit under a deviated policy are expanded too). Oracle: all executions of one history yield
// the same vector (AppHash, tx results, events, validator updates per block).

func init() { Registry["C01"] = runC01 }

var (
	c01AddrDouble  = common.HexToAddress("0x00000000000000000000000000000000000c0101") // calls two self-destructing contracts
	c01AddrSuiA    = common.HexToAddress("0x00000000000000000000000000000000000c0102")
	c01AddrSuiB    = common.HexToAddress("0x00000000000000000000000000000000000c0103")
	c01AddrTouch2  = common.HexToAddress("0x00000000000000000000000000000000000c0104") // zero-value CALL to two empty plain addresses
	c01AddrProbe   = common.HexToAddress("0x00000000000000000000000000000000000c0105") // BALANCE of the four addresses passed as call data words
	c01Empty1      = common.HexToAddress("0x00000000000000000000000000000000000e0001")
	c01Empty2      = common.HexToAddress("0x00000000000000000000000000000000000e0002")
	c01Vest2010    = world.NewAcct("c01-vest-2010")
	c01Vest2050    = world.NewAcct("c01-vest-2050")
	c01VestCont    = world.NewAcct("c01-vest-cont-2050")
	c01T2000       = time.Date(2000, 1, 1, 0, 0, 0, 0, time.UTC)
	c01T2100       = time.Date(2100, 1, 1, 0, 0, 0, 0, time.UTC)
	c01CurBlockTim time.Time
)

// c01NodeCfgDims: two-valued node-local configuration dimensions (default / the other value).
var c01NodeCfgDims = []string{"cfg:telemetry", "cfg:max-tx-gas-wanted", "cfg:iavl-disable-fastnode", "cfg:inter-block-cache", "cfg:pruning", "cfg:index-events", "cfg:query-gas-limit", "cfg:iavl-cache-size"}

type c01Kind string

// c01Alphabet is ordered simplest first.
var c01Alphabet = []c01Kind{"transfer", "log1", "sstore", "sclear", "create-ok", "log-revert", "cosmos-send", "bad-nonce", "garbage",
	"suicide-multidenom", "touch-two-empty", "double-suicide", "touch-vest-2010", "touch-vest-2050", "touch-vest-cont", "erc20-transfer", "staking-transfer",
	"cpc-deploy-utwo", "erc20-utwo-transfer", "probe-cpcs"}

type c01Case struct {
	Blocks [][]c01Kind `json:"blocks"`
}

func (c c01Case) String() string {
	var bs []string
	for _, b := range c.Blocks {
		var ks []string
		for _, k := range b {
			ks = append(ks, string(k))
		}
		bs = append(bs, "["+strings.Join(ks, ",")+"]")
	}
	return strings.Join(bs, " ")
}

// c01Policy maps a dimension key ("map:<site>", "clock:<site>", "cfg:min-gas-prices", "cfg:tracer", "between") to a non-default answer.
type c01Policy map[string]int

func (p c01Policy) String() string {
	var ks []string
	for k, v := range p {
		ks = append(ks, fmt.Sprintf("%s=%d", k, v))
	}
	sort.Strings(ks)
	if len(ks) == 0 {
		return "default"
	}
	return strings.Join(ks, " ")
}

func c01Config(p c01Policy) world.Config {
	coin := func(d string, n int64) sdk.Coin { return sdk.NewCoin(d, sdkmath.NewInt(n)) }
	vest := func(a *world.Acct, end time.Time, continuous bool) world.ExtraAccount {
		base := authtypes.NewBaseAccountWithAddress(a.Acc())
		ov := sdk.NewCoins(coin(world.Denom, 1000))
		var acc authtypes.GenesisAccount
		if continuous {
			acc, _ = vestingtypes.NewContinuousVestingAccount(base, ov, end.Add(-24*time.Hour).Unix(), end.Unix())
		} else {
			acc, _ = vestingtypes.NewDelayedVestingAccount(base, ov, end.Unix())
		}
		return world.ExtraAccount{Account: acc}
	}
	cs := StdContracts()
	cs = append(cs,
		world.Contract{Addr: c01AddrSuiA, Code: asm.New().SelfDestruct(AddrSink).Bytes(), Coins: sdk.NewCoins(coin(world.Denom, 300), coin("utwo", 7))},
		world.Contract{Addr: c01AddrSuiB, Code: asm.New().SelfDestruct(AddrSink).Bytes(), Coins: sdk.NewCoins(coin(world.Denom, 400), coin("utwo", 9), coin("uthree", 2))},
		world.Contract{Addr: c01AddrDouble, Code: asm.New().
			Call(asm.CALL, c01AddrSuiA, 0, 0, 0, 0, 0, 0).Op(asm.POP).
			Call(asm.CALL, c01AddrSuiB, 0, 0, 0, 0, 0, 0).Op(asm.POP).Stop().Bytes()},
		world.Contract{Addr: c01AddrProbe, Code: asm.New().
			PushU(0).Op(asm.CALLDATALOAD, asm.BALANCE, asm.POP).PushU(32).Op(asm.CALLDATALOAD, asm.BALANCE, asm.POP).
			PushU(64).Op(asm.CALLDATALOAD, asm.BALANCE, asm.POP).PushU(96).Op(asm.CALLDATALOAD, asm.BALANCE, asm.POP).Stop().Bytes()},
		world.Contract{Addr: c01AddrTouch2, Code: asm.New().
			Call(asm.CALL, c01Empty1, 0, 0, 0, 0, 0, 0).Op(asm.POP).
			Call(asm.CALL, c01Empty2, 0, 0, 0, 0, 0, 0).Op(asm.POP).Stop().Bytes()},
	)
	cfg := world.Config{NumWallets: 4, NumValidators: 3, DeployErc20: true, DeployStaking: true, Contracts: cs,
		CpcWhitelist: []string{world.NewAcct("wal1").Bech(), world.NewAcct("wal2").Bech(), world.NewAcct("wal3").Bech()},
		Extra: []world.ExtraAccount{
			vest(c01Vest2010, time.Date(2010, 1, 1, 0, 0, 0, 0, time.UTC), false),
			vest(c01Vest2050, time.Date(2050, 1, 1, 0, 0, 0, 0, time.UTC), false),
			vest(c01VestCont, time.Date(2050, 1, 1, 0, 0, 0, 0, time.UTC), true),
		}}
	switch p["cfg:min-gas-prices"] {
	case 1:
		cfg.NodeMinGasPrices = "1000000000000" + world.Denom
	}
	switch p["cfg:tracer"] {
	case 1:
		cfg.EvmTracer = "json"
	case 2:
		cfg.EvmTracer = "struct"
	case 3:
		cfg.EvmTracer = "access_list"
	case 4:
		cfg.EvmTracer = "markdown"
	}
	// further node-local settings of app.toml, as server/start hands them to the app (c01NodeCfgDims lists them)
	if p["cfg:max-tx-gas-wanted"] == 1 {
		cfg.ExtraAppOpts = map[string]interface{}{"evm.max-tx-gas-wanted": uint64(50_000)}
	}
	if p["cfg:iavl-disable-fastnode"] == 1 {
		cfg.ExtraBaseOpts = append(cfg.ExtraBaseOpts, baseapp.SetIAVLDisableFastNode(true))
	}
	if p["cfg:inter-block-cache"] == 1 {
		cfg.ExtraBaseOpts = append(cfg.ExtraBaseOpts, baseapp.SetInterBlockCache(store.NewCommitKVStoreCacheManager()))
	}
	if p["cfg:pruning"] == 1 {
		cfg.ExtraBaseOpts = append(cfg.ExtraBaseOpts, baseapp.SetPruning(pruningtypes.NewPruningOptionsFromString(pruningtypes.PruningOptionEverything)))
	}
	if p["cfg:index-events"] == 1 {
		cfg.ExtraBaseOpts = append(cfg.ExtraBaseOpts, baseapp.SetIndexEvents([]string{"message.sender", "ethereum_tx.ethereumTxHash"}))
	}
	if p["cfg:query-gas-limit"] == 1 {
		cfg.ExtraBaseOpts = append(cfg.ExtraBaseOpts, baseapp.SetQueryGasLimit(10_000))
	}
	if p["cfg:iavl-cache-size"] == 1 {
		cfg.ExtraBaseOpts = append(cfg.ExtraBaseOpts, baseapp.SetIAVLCacheSize(1))
	}
	return cfg
}

func c01BuildTx(w *world.World, k c01Kind, sender int, nonce uint64, base *big.Int) []byte {
	a := w.Wallets[sender]
	eth := func(to common.Address, data []byte, gas uint64) []byte {
		return w.EthTx(a, &ethtypes.LegacyTx{Nonce: nonce, GasPrice: base, Gas: gas, To: &to, Value: big.NewInt(0), Data: data})
	}
	switch k {
	case "transfer":
		return BuildTx(w, TxSpec{Kind: KTransfer, Sender: sender, Nonce: nonce}, base)
	case "log1":
		return BuildTx(w, TxSpec{Kind: KLog1, Sender: sender, Nonce: nonce}, base)
	case "sstore":
		return BuildTx(w, TxSpec{Kind: KSstore, Sender: sender, Nonce: nonce}, base)
	case "sclear":
		return BuildTx(w, TxSpec{Kind: KSclear, Sender: sender, Nonce: nonce}, base)
	case "create-ok":
		return BuildTx(w, TxSpec{Kind: KCreateOK, Sender: sender, Nonce: nonce}, base)
	case "log-revert":
		return BuildTx(w, TxSpec{Kind: KLogRevert, Sender: sender, Nonce: nonce}, base)
	case "cosmos-send":
		return BuildTx(w, TxSpec{Kind: KCosmosSend, Sender: sender, Nonce: nonce}, base)
	case "bad-nonce":
		return BuildTx(w, TxSpec{Kind: KBadNonce, Sender: sender, Nonce: nonce}, base)
	case "suicide-multidenom":
		return BuildTx(w, TxSpec{Kind: KSuicide2, Sender: sender, Nonce: nonce}, base)
	case "garbage":
		return []byte{0x0a, 0x03, 0xff, 0x00, 0x01}
	case "double-suicide":
		return eth(c01AddrDouble, nil, 300000)
	case "touch-two-empty":
		return eth(c01AddrTouch2, nil, 300000)
	case "touch-vest-2010":
		return eth(c01Vest2010.Eth(), nil, 21000)
	case "touch-vest-2050":
		return eth(c01Vest2050.Eth(), nil, 21000)
	case "touch-vest-cont":
		return eth(c01VestCont.Eth(), nil, 21000)
	case "erc20-transfer":
		tok := common.BytesToAddress(w.App.CPCKeeper.GetErc20CustomPrecompiledContractAddressByMinDenom(w.Ctx(), world.Denom).Bytes())
		return eth(tok, Enc("transfer(address,uint256)", AddrWord(AddrSink), Word(big.NewInt(1))), 300000)
	case "cpc-deploy-utwo": // registers a new custom precompile (Cosmos tx by a whitelisted deployer): the registry changes mid-history
		msg := &cpctypes.MsgDeployErc20ContractRequest{Authority: a.Bech(), Name: "Two", Symbol: "TWO", Decimals: 6, MinDenom: "utwo"}
		gas := uint64(400000)
		return w.CosmosTx(a, uint64(len(w.Validators)+sender), nonce, gas, new(big.Int).Mul(new(big.Int).SetUint64(gas), base), msg)
	case "erc20-utwo-transfer": // call the utwo precompile at the address it gets when deployed first (an empty account before that)
		tok := c01UtwoToken(w)
		return eth(tok, Enc("transfer(address,uint256)", AddrWord(AddrSink), Word(big.NewInt(1))), 300000)
	case "probe-cpcs": // a contract reads the balance of every custom precompiled contract: each one is warm or cold depending on the access list the tx was given
		return eth(c01AddrProbe, c01ProbeData(w), 200000)
	case "staking-transfer":
		amt := new(big.Int).Exp(big.NewInt(10), big.NewInt(15), nil)
		return eth(cpctypes.CpcStakingFixedAddress, Enc("transfer(address,uint256)", AddrWord(a.Eth()), Word(amt)), 1500000)
	}
	panic("unknown c01 kind " + string(k))
}

// c01ProbeData: the addresses of the staking precompile, the native-coin ERC-20 precompile, the (future) utwo precompile and one plain address.
func c01ProbeData(w *world.World) []byte {
	native := common.BytesToAddress(w.App.CPCKeeper.GetErc20CustomPrecompiledContractAddressByMinDenom(w.Ctx(), world.Denom).Bytes())
	var data []byte
	for _, a := range []common.Address{cpctypes.CpcStakingFixedAddress, native, c01UtwoToken(w), c01Empty1} {
		data = append(data, AddrWord(a)...)
	}
	return data
}

// c01UtwoToken: the address the first dynamically deployed precompile of this world gets (or has).
func c01UtwoToken(w *world.World) common.Address {
	ctx := w.Ctx()
	if a := w.App.CPCKeeper.GetErc20CustomPrecompiledContractAddressByMinDenom(ctx, "utwo"); a != nil {
		return common.BytesToAddress(a.Bytes())
	}
	return w.App.CPCKeeper.GetNextDynamicCustomPrecompiledContractAddress(ctx)
}

// c01Hits records which choice sites an execution reached (site key -> number of answers available).
type c01Hits map[string]int

// c01Exec runs one history under one policy and returns the observation vector (one string per block).
func c01Exec(c c01Case, p c01Policy) (vec []string, hits c01Hits, outcome string) {
	vec, hits, outcome, _ = c01ExecConc(c, p, nil)
	return
}

// c01ExecConc is c01Exec with an optional request served "concurrently" (see c01_conc.go); points[b] is the number of
// statement-level points block b passed through during FinalizeBlock (their sites, in order).
func c01ExecConc(c c01Case, p c01Policy, conc *c01Conc) (vec []string, hits c01Hits, outcome string, points [][]string) {
	hits = c01Hits{}
	vrt.MapOrder = func(site string, n int) []int {
		if n < 2 {
			return nil
		}
		key := "map:" + site
		avail := 2
		if n >= 3 {
			avail = 3
		}
		if hits[key] < avail {
			hits[key] = avail
		}
		switch p[key] {
		case 1: // reversed
			perm := make([]int, n)
			for i := range perm {
				perm[i] = n - 1 - i
			}
			return perm
		case 2: // rotated by one
			perm := make([]int, n)
			for i := range perm {
				perm[i] = (i + 1) % n
			}
			return perm
		}
		return nil
	}
	vrt.Clock = func(site string) time.Time {
		key := "clock:" + site
		hits[key] = 3
		switch p[key] {
		case 1:
			return c01T2000
		case 2:
			return c01T2100
		}
		return c01CurBlockTim
	}
	vrt.OnSpawn = func(site string) { hits["spawn:"+site] = 1 }
	defer func() { vrt.MapOrder, vrt.Clock, vrt.OnSpawn = nil, nil, nil }()

	hits["cfg:min-gas-prices"] = 2
	for _, d := range c01NodeCfgDims {
		hits[d] = 2
	}
	if p["cfg:telemetry"] == 1 {
		// telemetry.enabled of app.toml: a process-wide switch (telemetry.New sets it, as server/start does)
		if _, err := telemetry.New(telemetry.Config{Enabled: true, ServiceName: "c01", EnableHostname: false}); err != nil {
			panic(err)
		}
		defer func() { _, _ = telemetry.New(telemetry.Config{Enabled: false}) }()
	}
	hits["cfg:tracer"] = 5 // every value server/config accepts: "", json, struct, access_list, markdown
	hits["between"] = 4
	if p["cfg:tracer"] != 0 {
		// the tracer of the node configuration writes every step to os.Stderr (json) or os.Stdout (markdown)
		if null, err := os.OpenFile(os.DevNull, os.O_WRONLY, 0); err == nil {
			savedErr, savedOut := os.Stderr, os.Stdout
			os.Stderr, os.Stdout = null, null
			defer func() { os.Stderr, os.Stdout = savedErr, savedOut; null.Close() }()
		}
	}
	w := world.New(c01Config(p))
	c01CurBlockTim = w.BlockTime(1)
	w.Block(nil)
	nonce := map[int]uint64{}
	var oc []string
	inBlock, inReq, blockIdx, pts := false, false, 0, 0
	var sites []string
	vrt.OnPoint = func(site string) {
		if !inBlock || inReq {
			return
		}
		pts++
		sites = append(sites, site)
		if conc != nil && conc.Block == blockIdx && conc.At == pts {
			inReq = true
			c01Request(w, conc.Req)
			inReq = false
		}
	}
	defer func() { vrt.OnPoint = nil }()
	for bi, blk := range c.Blocks {
		base := w.App.FeeMarketKeeper.GetBaseFee(w.Ctx()).BigInt()
		var txs [][]byte
		for pos, k := range blk {
			sender := pos % len(w.Wallets)
			txs = append(txs, c01BuildTx(w, k, sender, nonce[sender], base))
		}
		c01CurBlockTim = w.BlockTime(w.Height + 1)
		opt := world.BlockOpt{}
		opt.Between = func() {
			inBlock = false
			if b := p["between"]; b != 0 {
				c01Between(w, b, base)
			}
		}
		blockIdx, pts, inBlock, sites = bi, 0, true, nil
		br := w.Block(txs, opt)
		inBlock = false
		points = append(points, sites)
		if br.Panic != "" || br.Err != nil {
			vec = append(vec, fmt.Sprintf("PANIC=%q ERR=%v", br.Panic, br.Err))
			oc = append(oc, "block-failed")
			break
		}
		var sb strings.Builder
		fmt.Fprintf(&sb, "apphash=%s commit=%s\n", hex.EncodeToString(br.AppHash), hex.EncodeToString(br.CommitID.Hash))
		for i, r := range br.Res.TxResults {
			fmt.Fprintf(&sb, "tx%d code=%d cs=%s data=%s gw=%d gu=%d ev=%s\n", i, r.Code, r.Codespace, hex.EncodeToString(r.Data), r.GasWanted, r.GasUsed, world.EventsString(r.Events))
			if r.Code == 0 {
				oc = append(oc, "ok")
			} else {
				oc = append(oc, fmt.Sprintf("code%d", r.Code))
			}
			// sequence bookkeeping: a tx that reached execution consumed the nonce
			sender := i % len(w.Wallets)
			if rc, err := world.ParseReceipt(i, r); err == nil && (rc.HasEthTx || (r.Code == 0)) {
				nonce[sender]++
			}
		}
		fmt.Fprintf(&sb, "block-events=%s\nvalupdates=%v\n", world.EventsString(br.Res.Events), br.Res.ValidatorUpdates)
		vec = append(vec, sb.String())
	}
	return vec, hits, strings.Join(oc, ","), points
}

// c01Between issues one query-path request between FinalizeBlock and Commit.
func c01Between(w *world.World, which int, base *big.Int) {
	defer func() { _ = recover() }()
	switch which {
	case 1: // CheckTx (new) of a valid transfer by a wallet that is not used as sender by the alphabet
		tx := BuildTx(w, TxSpec{Kind: KTransfer, Sender: 3, Nonce: w.Nonce(w.Ctx(), w.Wallets[3].Eth())}, base)
		_, _ = w.App.CheckTx(&abci.RequestCheckTx{Tx: tx, Type: abci.CheckTxType_New})
	case 2: // Simulate of a state-changing tx
		tx := BuildTx(w, TxSpec{Kind: KSstore, Sender: 3, Nonce: w.Nonce(w.Ctx(), w.Wallets[3].Eth())}, base)
		_, _, _ = w.App.Simulate(tx)
	case 3: // eth_call executing a self-destruct
		args, _ := json.Marshal(map[string]interface{}{"from": w.Wallets[3].Eth().Hex(), "to": AddrSuicide.Hex(), "gas": "0x30d40"})
		req := &evmtypes.EthCallRequest{Args: args, GasCap: 1_000_000}
		bz, _ := req.Marshal()
		_, _ = w.App.Query(context.Background(), &abci.RequestQuery{Path: "/ethermint.evm.v1.Query/EthCall", Data: bz})
	}
}

func c01Histories(thorough bool) []c01Case {
	var out []c01Case
	for _, k := range c01Alphabet {
		out = append(out, c01Case{Blocks: [][]c01Kind{{k}}})
	}
	// two txs in one block / in consecutive blocks: order-sensitive kinds paired with everything
	special := []c01Kind{"double-suicide", "touch-two-empty", "touch-vest-2010", "touch-vest-2050", "staking-transfer", "suicide-multidenom"}
	// registry change followed by a call of the new precompile, in one block and across blocks
	out = append(out, c01Case{Blocks: [][]c01Kind{{"cpc-deploy-utwo", "erc20-utwo-transfer"}}}, c01Case{Blocks: [][]c01Kind{{"cpc-deploy-utwo"}, {"erc20-utwo-transfer"}}},
		c01Case{Blocks: [][]c01Kind{{"erc20-utwo-transfer"}, {"cpc-deploy-utwo"}, {"erc20-utwo-transfer"}}})
	pairWith := c01Alphabet
	if !thorough {
		pairWith = []c01Kind{"transfer", "sstore", "double-suicide", "touch-vest-2010", "staking-transfer", "bad-nonce"}
	}
	for _, a := range special {
		for _, b := range pairWith {
			out = append(out, c01Case{Blocks: [][]c01Kind{{a, b}}})
			if thorough {
				out = append(out, c01Case{Blocks: [][]c01Kind{{b, a}}})
			}
			out = append(out, c01Case{Blocks: [][]c01Kind{{a}, {b}}})
		}
	}
	if thorough {
		for _, a := range c01Alphabet {
			for _, b := range c01Alphabet {
				out = append(out, c01Case{Blocks: [][]c01Kind{{a, b, "transfer"}}})
			}
		}
	}
	// dedupe
	seen := map[string]bool{}
	var uniq []c01Case
	for _, c := range out {
		if !seen[c.String()] {
			seen[c.String()] = true
			uniq = append(uniq, c)
		}
	}
	return uniq
}

type c01Replay struct {
	Case   c01Case   `json:"case"`
	Policy c01Policy `json:"policy"`
	Repeat int       `json:"repeat,omitempty"` // > 0: the finding is about repeated executions of the same policy in one process
	Conc   *c01Conc  `json:"conc,omitempty"`   // concurrent-request pass: the request and where it is served
}

func c01Diff(a, b []string) string {
	for i := 0; i < len(a) && i < len(b); i++ {
		if a[i] != b[i] {
			la, lb := strings.Split(a[i], "\n"), strings.Split(b[i], "\n")
			for j := 0; j < len(la) && j < len(lb); j++ {
				if la[j] != lb[j] {
					x, y := la[j], lb[j]
					// show the first differing region
					k := 0
					for k < len(x) && k < len(y) && x[k] == y[k] {
						k++
					}
					lo := k - 60
					if lo < 0 {
						lo = 0
					}
					cut := func(s string) string {
						hi := k + 120
						if hi > len(s) {
							hi = len(s)
						}
						return s[lo:hi]
					}
					return fmt.Sprintf("block %d line %d differs: default …%s… vs …%s…", i, j, cut(x), cut(y))
				}
			}
			return fmt.Sprintf("block %d differs", i)
		}
	}
	return fmt.Sprintf("number of executed blocks differs: %d vs %d", len(a), len(b))
}

// c01Signature classifies a difference by the single deviated dimension (defect-aware: only single-deviation differences
// whose vectors differ in the way the defect predicts get a signature).
func c01Signature(p c01Policy, ref, got []string) string {
	if len(p) != 1 {
		return ""
	}
	for k := range p {
		sameHash := len(ref) == len(got)
		if sameHash {
			for i := range ref {
				if strings.SplitN(ref[i], "\n", 2)[0] != strings.SplitN(got[i], "\n", 2)[0] {
					sameHash = false
				}
			}
		}
		switch {
		case strings.HasPrefix(k, "clock:validation.go"):
			return "C01/destroy-guard-reads-wall-clock"
		case strings.HasPrefix(k, "map:state_db.go") && sameHash:
			return "C01/commit-event-order-follows-map-iteration"
		case k == "cfg:tracer" && p[k] == 3 && !strings.Contains(strings.Join(ref, "|"), "code=111222") && strings.Contains(strings.Join(got, "|"), "code=111222"):
			// the access_list tracer of the node configuration panicked (recovered by baseapp as code 111222) where the default node did not
			return "C01/access-list-tracer-panics-on-contract-creation"
		}
	}
	return ""
}

func c01Check(run *ev.Run, c c01Case, bound int, first bool) (execs int) {
	ref, hits0, oc := c01Exec(c, c01Policy{})
	execs++
	run.Outcome(oc)
	if first {
		// binding self-check: the default policy must replay identically
		again, _, _ := c01Exec(c, c01Policy{})
		execs++
		if strings.Join(again, "|") != strings.Join(ref, "|") {
			// every owned source of nondeterminism is pinned to its default here, the world is built from fixed keys and times:
			// two executions of one history in one process that differ depend on process state, scheduling or an unowned clock
			third, _, _ := c01Exec(c, c01Policy{})
			execs++
			run.Fail(ev.Finding{Clause: "independent-of-process-lifetime", Detail: fmt.Sprintf("history %s executed three times in one process under the default environment: run 1 vs run 2: %s; run 2 vs run 3 equal: %v",
				c, c01Diff(ref, again), strings.Join(again, "|") == strings.Join(third, "|")), Replay: c01Replay{Case: c, Policy: c01Policy{}, Repeat: 3}})
			return execs
		}
	}
	nMap := 0
	for k := range hits0 {
		if strings.HasPrefix(k, "map:") || strings.HasPrefix(k, "clock:") {
			nMap++
		}
	}
	if nMap == 0 {
		fmt.Fprintln(os.Stderr, "HARNESS: no instrumented site was hit — C01 must run in the binary built with the consensus overlay (vcheck-i)")
		os.Exit(2)
	}
	var rec func(p c01Policy, lastKey string, hits c01Hits, cost int)
	rec = func(p c01Policy, lastKey string, hits c01Hits, cost int) {
		if cost >= bound {
			return
		}
		var keys []string
		for k := range hits {
			if k > lastKey && !strings.HasPrefix(k, "spawn:") {
				if _, set := p[k]; !set {
					keys = append(keys, k)
				}
			}
		}
		sort.Strings(keys)
		for _, k := range keys {
			for v := 1; v < hits[k]; v++ {
				q := c01Policy{}
				for a, b := range p {
					q[a] = b
				}
				q[k] = v
				got, h2, _ := c01Exec(c, q)
				execs++
				run.Count("sitehit:"+k, 1)
				if strings.Join(got, "|") != strings.Join(ref, "|") {
					run.Distinct("diff:" + c.String() + "|" + q.String())
					run.Fail(ev.Finding{Clause: "same-history-same-result", Signature: c01Signature(q, ref, got),
						Detail: fmt.Sprintf("history %s under environment {%s}: %s", c, q, c01Diff(ref, got)), Replay: c01Replay{Case: c, Policy: q}})
				}
				rec(q, k, h2, cost+1)
			}
		}
	}
	rec(c01Policy{}, "", hits0, 0)
	for k := range hits0 {
		run.Distinct("site:" + k)
		if strings.HasPrefix(k, "spawn:") {
			run.Note("goroutine started by consensus code at %s during history %s (schedule not owned)", k, c)
			run.Coverage["exhaustive"] = false
		}
	}
	return execs
}

func runC01(replay string) int {
	run := ev.NewRun("C01", "model_checking")
	if replay != "" {
		return replayCase(run, replay, func(raw json.RawMessage) []ev.Finding {
			var r c01Replay
			if err := json.Unmarshal(raw, &r); err != nil {
				return []ev.Finding{{Clause: "replay-file", Detail: err.Error()}}
			}
			if r.Conc != nil {
				ref, _, _, _ := c01ExecConc(r.Case, r.Policy, nil)
				got, _, _, _ := c01ExecConc(r.Case, r.Policy, r.Conc)
				if strings.Join(got, "|") != strings.Join(ref, "|") {
					return []ev.Finding{{Clause: "independent-of-concurrently-served-requests", Detail: c01Diff(ref, got)}}
				}
				return nil
			}
			ref, _, _ := c01Exec(r.Case, c01Policy{})
			if r.Repeat > 0 {
				for i := 1; i < r.Repeat; i++ {
					again, _, _ := c01Exec(r.Case, r.Policy)
					if strings.Join(again, "|") != strings.Join(ref, "|") {
						return []ev.Finding{{Clause: "independent-of-process-lifetime", Detail: c01Diff(ref, again)}}
					}
				}
				return nil
			}
			got, _, _ := c01Exec(r.Case, r.Policy)
			if strings.Join(got, "|") != strings.Join(ref, "|") {
				return []ev.Finding{{Clause: "same-history-same-result", Signature: c01Signature(r.Policy, ref, got), Detail: c01Diff(ref, got)}}
			}
			return nil
		})
	}
	bound := 1
	if run.Thorough() {
		bound = 2
	}
	hist := c01Histories(run.Thorough())
	units := c01ConcUnits(run.Thorough())
	// each pass has its own time budget (a budget only stops expansion: exhaustive=false, never a verdict)
	budget, concBudget := ev.NewDeadline(secs(240)), ev.NewDeadline(secs(120))
	if run.Thorough() {
		budget, concBudget = ev.NewDeadline(secs(1800)), ev.NewDeadline(secs(700))
	}
	run.Sharded(Shards(), func(shard, n int) {
		// process-lifetime dimension: the first history of every shard runs in a fresh process and is re-run at the end (warm)
		var firstCase *c01Case
		var firstVec []string
		done, skipped := 0, 0
		concSkipped := 0
		// concurrent-request pass (c01_conc.go)
		for _, u := range units {
			if concBudget.Hit() {
				concSkipped++
				continue
			}
			// thorough: every dynamic hit of every point for the histories in which the access list is observable under the default order
			everyHit := run.Thorough() && u.Order == 0 && strings.Contains(u.Case.String(), "probe-cpcs")
			execs, placements := c01ConcCheck(run, u, everyHit, shard, n)
			run.Count("transitions", int64(execs))
			run.Count("conc_placements", int64(placements))
			if shard == 0 {
				run.Count("conc_units", 1)
				run.Outcome(fmt.Sprintf("conc:%s", c01ReqNames[u.Req]))
			}
		}
		for i := range hist {
			if i%n != shard {
				continue
			}
			if budget.Hit() {
				skipped++
				continue
			}
			c := hist[i] // shard s starts (in a fresh process) with history s
			if firstCase == nil {
				cc := c
				firstCase = &cc
				firstVec, _, _ = c01Exec(c, c01Policy{})
			}
			execs := c01Check(run, c, bound, true)
			run.Count("transitions", int64(execs))
			run.Count("histories", 1)
			done++
			if done <= 1 {
				run.Sample(map[string]interface{}{"history": c.String(), "environment_executions": execs})
			}
		}
		if firstCase != nil {
			warm, _, _ := c01Exec(*firstCase, c01Policy{})
			run.Count("fresh_vs_warm_process_comparisons", 1)
			if strings.Join(warm, "|") != strings.Join(firstVec, "|") {
				run.Fail(ev.Finding{Clause: "independent-of-process-lifetime", Detail: fmt.Sprintf("history %s: first execution of the process and execution after %d other histories differ: %s", firstCase, done, c01Diff(firstVec, warm)),
					Replay: c01Replay{Case: *firstCase, Policy: c01Policy{}}})
			}
		}
		if skipped > 0 || concSkipped > 0 {
			run.Coverage["exhaustive"] = false
			run.Note("time budget: shard %d skipped %d histories and %d concurrent-request units", shard, skipped, concSkipped)
		}
	})
	h := run.Counter("histories")
	run.Coverage["states"] = int(h)
	run.Coverage["transitions"] = int(run.Counter("transitions"))
	run.Coverage["traces_validated_against_impl"] = int(run.Counter("transitions"))
	run.Coverage["environment_deviation_bound_completed"] = bound
	if _, ok := run.Coverage["exhaustive"]; !ok {
		run.Coverage["exhaustive"] = true
	}
	run.Coverage["rule"] = fmt.Sprintf("histories: %d (1 tx of each of %d kinds; order-sensitive kinds paired in one block and across two blocks); for every history every environment policy with <= %d non-default answers "+
		"over the choice sites hit (map-range order per site: sorted/reversed/rotated; wall clock per site: block time/2000/2100; node min-gas-prices; EVM tracer; request between FinalizeBlock and Commit: none/CheckTx/Simulate/eth_call) is executed on a fresh app; "+
		"concurrent-request pass: %d units (history x order of the fork's precompile map x request of {eth_call latest, eth_call latest-1, estimateGas, eth_call self-destruct latest-1, CheckTx}), in each the request is served completely at every statement-level point FinalizeBlock passes in x/evm/keeper, x/evm/vm, x/cpc/keeper (%d placements, one preemption of the block thread) and the block results must equal the undisturbed run; "+
		"a state is a history, a transition one complete execution of it; distinct = instrumented sites reached + differing (history, policy) pairs", len(hist), len(c01Alphabet), bound, len(units), run.Counter("conc_placements"))
	run.Assumptions = []string{"nondeterminism inside cosmos-sdk, IAVL, CometBFT, the go-ethereum fork and the Go runtime is not owned (trusted)",
		"an environment answer is fixed per site for a whole execution (not per dynamic hit)", "map ranges are explored for 3 orders (sorted, reversed, rotated), not all permutations",
		"concurrent requests: the request runs to completion at one point of block execution (preemption bound 1; torn overlaps of request and block are not explored), points exist only in the instrumented files, requests are limited to the five listed"}
	return run.Finish()
}
