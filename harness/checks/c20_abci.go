package checks

// C20 parts (a)-(d): no user input crashes a node or halts block production (ABCI side).
//
//	(a) bytes -> every ABCI phase          c20RunA      (this file)
//	(b) precompile call data and queries   c20_pc.go, c20_query.go
//	(c) configurations / reachable states  c20_cfg.go
//	(d) isolation of a failing transaction c20_iso.go
//
// The explored space is cut into units (c20Unit): a contiguous index range of one deterministic input family, or one
// configuration. A unit always runs on its own fresh world(s), so a unit value is a self-contained replay case; `Only`
// narrows a unit to the indices a finding was minimised to.

import (
	"encoding/json"
	"fmt"
	"os"
	"sort"
	"strings"
	"sync"

	errorsmod "cosmossdk.io/errors"
	abci "github.com/cometbft/cometbft/abci/types"
	cmtproto "github.com/cometbft/cometbft/proto/tendermint/types"

	evmtypes "github.com/EscanBE/evermint/v12/x/evm/types"

	"verif/harness/ev"
	"verif/harness/world"
)

// The driver (c20.go) reaches this file through two hooks.
func init() {
	c20ABCIHook = c20ABCI
	c20ABCIReplayHook = c20ABCIReplay
}

// c20Unit is one unit of exploration and, at the same time, the replay value of every finding it produces.
type c20Unit struct {
	Part   string `json:"part"` // a | a-seeds | b-tx | b-call | b-query | q-trace | c-cfg | c-kind | c-fee | c-gov | d | f-grid | f-live
	Tier   string `json:"tier"` // the families of the thorough tier are larger; indices are tier-relative
	Family string `json:"family,omitempty"`
	From   int    `json:"from,omitempty"` // index range [From, To) of the family
	To     int    `json:"to,omitempty"`
	Batch  int    `json:"batch,omitempty"` // inputs per block
	Only   []int  `json:"only,omitempty"`  // restrict to these indices (minimised findings)
	// part (c)
	MaxGas   int64    `json:"max_gas,omitempty"`
	MaxBytes int64    `json:"max_bytes,omitempty"`
	Shape    string   `json:"shape,omitempty"`
	Kinds    []TxKind `json:"kinds,omitempty"`
	BaseFee  string   `json:"base_fee,omitempty"`
	Blocks   int      `json:"blocks,omitempty"`
}

func (u c20Unit) thorough() bool { return u.Tier == "thorough" }

func (u c20Unit) indices() []int {
	if len(u.Only) > 0 {
		return append([]int{}, u.Only...)
	}
	var out []int
	for i := u.From; i < u.To; i++ {
		out = append(out, i)
	}
	return out
}

func (u c20Unit) String() string {
	bz, _ := json.Marshal(u)
	return string(bz)
}

// c20Rec receives what a unit observes. With run == nil (replay, minimisation) only findings are kept.
type c20Rec struct {
	run      *ev.Run
	findings []ev.Finding
	outcomes map[string]int
	noMin    bool // do not minimise findings (set while minimising)
}

func (r *c20Rec) count(name string, n int64) {
	if r.run != nil {
		r.run.Count(name, n)
	}
}

func (r *c20Rec) outcome(class string) {
	if r.outcomes == nil {
		r.outcomes = map[string]int{}
	}
	r.outcomes[class]++
	if r.run != nil {
		r.run.Outcome(class)
	}
}

func (r *c20Rec) distinct(key string) {
	if r.run != nil {
		r.run.Distinct(key)
	}
}

func (r *c20Rec) sample(v interface{}) {
	if r.run != nil {
		r.run.Sample(v)
	}
}

// recovered counts a panic that baseapp recovered (an error response, not a crash) and keeps the first line of a few of them.
func (r *c20Rec) recovered(where, log string) {
	r.count("panics_recovered_by_baseapp", 1)
	if i := strings.Index(log, "\n"); i >= 0 {
		log = log[:i]
	}
	if len(log) > 200 {
		log = log[:200]
	}
	if os.Getenv("VERIF_C20_VERBOSE") != "" {
		fmt.Println("recovered panic:", where, ":", log)
	}
	// a few examples per worker process are kept as notes; all are counted
	if r.run != nil && !c20NotedRecovered[log] && len(c20NotedRecovered) < 1 {
		c20NotedRecovered[log] = true
		r.run.Note("panic recovered by baseapp (error response, not a crash): %s: %s", where, log)
	}
}

var c20NotedRecovered = map[string]bool{}

func (r *c20Rec) fail(clause, sig, detail string, replay c20Unit) {
	f := ev.Finding{Clause: clause, Signature: sig, Detail: detail, Replay: replay}
	r.findings = append(r.findings, f)
	if r.run != nil {
		r.run.Fail(f)
	}
}

// ---------------------------------------------------------------------------
// guarded ABCI calls
// ---------------------------------------------------------------------------

// c20Guard runs f and returns the text of a panic that escaped it ("" = none). A panic that reaches this frame has left the
// ABCI method of the application: in a node nothing else would stop it.
func c20Guard(f func()) (p string) {
	defer func() {
		if r := recover(); r != nil {
			p = fmt.Sprint(r)
			if p == "" {
				p = "panic with empty value"
			}
		}
	}()
	f()
	return ""
}

func c20Code(codespace string, code uint32) string {
	if code == 0 {
		return "ok"
	}
	return fmt.Sprintf("%s:%d", codespace, code)
}

// c20IsRecoveredPanic tells whether a result is baseapp's rendering of a panic it recovered inside runTx / Query.
func c20IsRecoveredPanic(codespace string, code uint32) bool {
	return codespace == errorsmod.UndefinedCodespace && code == 111222
}

func c20Votes(w *world.World) []abci.VoteInfo {
	var votes []abci.VoteInfo
	for _, v := range w.Validators {
		votes = append(votes, abci.VoteInfo{Validator: abci.Validator{Address: v.Cons(), Power: 1}, BlockIdFlag: cmtproto.BlockIDFlagCommit})
	}
	return votes
}

// c20CheckTx returns the result class of CheckTx and an escaping panic.
func c20CheckTx(w *world.World, tx []byte, typ abci.CheckTxType) (class string, panicked string) {
	panicked = c20Guard(func() {
		res, err := w.App.CheckTx(&abci.RequestCheckTx{Tx: tx, Type: typ})
		switch {
		case err != nil:
			class = "abci-error"
		case res == nil:
			class = "nil-response"
		default:
			class = c20Code(res.Codespace, res.Code)
		}
	})
	return
}

func c20Simulate(w *world.World, tx []byte) (class string, panicked string) {
	panicked = c20Guard(func() {
		_, _, err := w.App.Simulate(tx)
		if err == nil {
			class = "ok"
			return
		}
		cs, code, _ := errorsmod.ABCIInfo(err, false)
		class = c20Code(cs, code)
	})
	return
}

// c20Prepare runs PrepareProposal for the next height. ok is false when the response violates the ABCI contract
// (error, nil response, transactions that were not offered, more bytes than allowed).
func c20Prepare(w *world.World, txs [][]byte, maxBytes int64) (kept int, problem string, panicked string) {
	h := w.Height + 1
	var votes []abci.ExtendedVoteInfo
	for _, v := range w.Validators {
		votes = append(votes, abci.ExtendedVoteInfo{Validator: abci.Validator{Address: v.Cons(), Power: 1}, BlockIdFlag: cmtproto.BlockIDFlagCommit})
	}
	panicked = c20Guard(func() {
		res, err := w.App.PrepareProposal(&abci.RequestPrepareProposal{MaxTxBytes: maxBytes, Txs: txs, Height: h, Time: w.BlockTime(h),
			ProposerAddress: w.Validators[0].Cons(), LocalLastCommit: abci.ExtendedCommitInfo{Votes: votes}})
		if err != nil {
			problem = "error: " + err.Error()
			return
		}
		if res == nil {
			problem = "nil response"
			return
		}
		kept = len(res.Txs)
		// the returned transactions must be a subsequence of the offered ones (the app has no mempool of its own)
		j := 0
		for _, t := range res.Txs {
			for j < len(txs) && string(txs[j]) != string(t) {
				j++
			}
			if j == len(txs) {
				problem = "response contains a transaction that was not offered (or reorders them)"
				return
			}
			j++
		}
	})
	return
}

func c20Process(w *world.World, txs [][]byte) (status string, problem string, panicked string) {
	h := w.Height + 1
	panicked = c20Guard(func() {
		res, err := w.App.ProcessProposal(&abci.RequestProcessProposal{Txs: txs, Height: h, Time: w.BlockTime(h), Hash: []byte(fmt.Sprintf("c20-proposal-%d", h)),
			ProposerAddress: w.Validators[0].Cons(), ProposedLastCommit: abci.CommitInfo{Votes: c20Votes(w)}})
		if err != nil {
			problem = "error: " + err.Error()
			return
		}
		if res == nil {
			problem = "nil response"
			return
		}
		switch res.Status {
		case abci.ResponseProcessProposal_ACCEPT:
			status = "accept"
		case abci.ResponseProcessProposal_REJECT:
			status = "reject"
		default:
			problem = "status " + res.Status.String()
		}
	})
	return
}

// c20Query runs one gRPC query through BaseApp.Query.
func c20Query(w *world.World, path string, data []byte) (class string, res *abci.ResponseQuery, panicked string) {
	panicked = c20Guard(func() {
		var err error
		res, err = w.App.Query(nil, &abci.RequestQuery{Path: path, Data: data})
		switch {
		case err != nil:
			class = "abci-error"
		case res == nil:
			class = "nil-response"
		default:
			class = c20Code(res.Codespace, res.Code)
		}
	})
	return
}

func c20HasEthTxEvent(r *abci.ExecTxResult) bool {
	for _, e := range r.Events {
		if e.Type == evmtypes.EventTypeEthereumTx {
			return true
		}
	}
	return false
}

// c20BlockProblem renders the oracle "FinalizeBlock and Commit never panic and never return an error, one result per tx".
func c20BlockProblem(br *world.BlockResult, ntx int) string {
	switch {
	case br.Panic != "":
		return "panic escapes FinalizeBlock/Commit: " + br.Panic
	case br.Err != nil:
		return "FinalizeBlock/Commit returns error: " + br.Err.Error()
	case br.Res == nil:
		return "nil FinalizeBlock response"
	case len(br.Res.TxResults) != ntx:
		return fmt.Sprintf("%d tx results for %d txs", len(br.Res.TxResults), ntx)
	}
	return ""
}

// c20Signature: crashes found by the generic parts carry no signature (nothing here is a known defect); the only signature of
// parts (a)-(d) is assigned by c20RunCFee, which knows the state that explains it.
func c20Signature(problem string) string { return "" }

// c20SigBaseFeeInt64: x/feemarket/keeper/abci.go updateBaseFeeForNextBlock defers a telemetry gauge that evaluates
// float32(baseFee.Int64()) whether or not telemetry is enabled; sdkmath.Int.Int64 panics when the new base fee is >= 2^63.
const c20SigBaseFeeInt64 = "C20/base-fee-above-int64-endblock-panic"

// ---------------------------------------------------------------------------
// families (built once per process and tier)
// ---------------------------------------------------------------------------

type c20FamSet struct {
	aOnly []c20Family // thorough: families offered to part (a) only
	raw   []c20Family
	pc    []c20Family
	pcAll [][]c20PcCase
	kinds c20Family
}

var (
	c20FamMu    sync.Mutex
	c20FamCache = map[bool]*c20FamSet{}
)

func c20Fams(thorough bool) *c20FamSet {
	c20FamMu.Lock()
	defer c20FamMu.Unlock()
	if s := c20FamCache[thorough]; s != nil {
		return s
	}
	w := c20World() // keys, encoding and the precompile registry are the same in every world of this configuration
	s := &c20FamSet{raw: c20RawFamilies(w, thorough), kinds: c20KindFamily()}
	if thorough {
		s.aOnly = c20AllValueFamilies(w)
	}
	s.pc, s.pcAll = c20PcFamilies(w)
	c20FamCache[thorough] = s
	return s
}

func (s *c20FamSet) find(name string) (c20Family, bool) {
	for _, l := range [][]c20Family{s.raw, s.aOnly, s.pc, {s.kinds}} {
		for _, f := range l {
			if f.Name == name {
				return f, true
			}
		}
	}
	return c20Family{}, false
}

func c20MustFamily(u c20Unit) c20Family {
	f, ok := c20Fams(u.thorough()).find(u.Family)
	if !ok {
		fmt.Fprintf(os.Stderr, "C20: unknown input family %q\n", u.Family)
		os.Exit(2)
	}
	return f
}

// c20Minimize shrinks idxs to a subset on which fails still holds (delta debugging by halves); ok=false when even the full
// set does not fail (the finding depends on more history than the set).
func c20Minimize(idxs []int, fails func([]int) bool) ([]int, bool) {
	if !fails(idxs) {
		return idxs, false
	}
	cur := idxs
	for len(cur) > 1 {
		mid := len(cur) / 2
		switch {
		case fails(cur[:mid]):
			cur = cur[:mid]
		case fails(cur[mid:]):
			cur = cur[mid:]
		default:
			return cur, true
		}
	}
	return cur, true
}

// ---------------------------------------------------------------------------
// part (a): bytes -> every ABCI phase
// ---------------------------------------------------------------------------

type c20Item struct {
	idx int
	in  c20Input
	tx  []byte
}

// c20RunA offers every input of the unit to CheckTx(New), CheckTx(Recheck), Simulate, PrepareProposal and ProcessProposal (alone),
// then batches of inputs to PrepareProposal, ProcessProposal and FinalizeBlock+Commit.
func c20RunA(u c20Unit, rec *c20Rec) {
	fam := c20MustFamily(u)
	batch := u.Batch
	if batch <= 0 {
		batch = 50
	}
	idxs := u.indices()
	w := c20World()
	kind := c20FamilyKind(fam.Name)
	for start := 0; start < len(idxs); start += batch {
		end := start + batch
		if end > len(idxs) {
			end = len(idxs)
		}
		var items []c20Item
		for _, i := range idxs[start:end] {
			if i < 0 || i >= fam.N {
				continue
			}
			if in, ok := fam.At(i); ok {
				items = append(items, c20Item{idx: i, in: in, tx: c20Materialize(w, in, 0)})
			}
		}
		if len(items) == 0 {
			continue
		}
		broken := false
		escape := func(phase string, it c20Item, p string) {
			one := u
			one.Only = []int{it.idx}
			rec.fail("no-panic-escapes-"+phase, c20Signature(p), fmt.Sprintf("%s input %d (%s %x): panic escapes %s: %s", fam.Name, it.idx, it.in.Label, c20Short(it.tx), phase, p), one)
			broken = true
		}
		vec := make([]string, len(items))
		var txs [][]byte
		for k, it := range items {
			txs = append(txs, it.tx)
			sim, p := c20Simulate(w, it.tx) // first: Simulate runs on the check state, which an accepted CheckTx advances
			if p != "" {
				escape("Simulate", it, p)
			}
			chk, p := c20CheckTx(w, it.tx, abci.CheckTxType_New)
			if p != "" {
				escape("CheckTx", it, p)
			}
			rechk, p := c20CheckTx(w, it.tx, abci.CheckTxType_Recheck)
			if p != "" {
				escape("CheckTx-recheck", it, p)
			}
			kept, prob, p := c20Prepare(w, [][]byte{it.tx}, w.Cfg.MaxBytes)
			if p != "" {
				escape("PrepareProposal", it, p)
			} else if prob != "" {
				one := u
				one.Only = []int{it.idx}
				rec.fail("prepare-proposal-answers", "", fmt.Sprintf("%s input %d (%x): %s", fam.Name, it.idx, c20Short(it.tx), prob), one)
			}
			status, prob, p := c20Process(w, [][]byte{it.tx})
			if p != "" {
				escape("ProcessProposal", it, p)
			} else if prob != "" {
				one := u
				one.Only = []int{it.idx}
				rec.fail("process-proposal-answers", "", fmt.Sprintf("%s input %d (%x): %s", fam.Name, it.idx, c20Short(it.tx), prob), one)
			}
			rec.count("abci_calls", 5)
			vec[k] = fmt.Sprintf("sim=%s chk=%s rechk=%s prep=%d proc=%s", sim, chk, rechk, kept, status)
			if broken {
				break
			}
		}
		if broken {
			w = c20World() // an escaped panic leaves the application in an unknown state
			continue
		}
		_, prob, p := c20Prepare(w, txs, w.Cfg.MaxBytes)
		if p == "" && prob == "" {
			_, prob, p = c20Process(w, txs)
		}
		rec.count("abci_calls", 2)
		var blockProb string
		if p != "" {
			blockProb = "panic escapes the proposal phase of the batch: " + p
		} else if prob != "" {
			blockProb = "proposal phase of the batch: " + prob
		} else {
			br := w.Block(txs)
			rec.count("abci_calls", 2)
			rec.count("blocks", 1)
			blockProb = c20BlockProblem(br, len(txs))
			if blockProb == "" {
				for k, r := range br.Res.TxResults {
					v := vec[k] + " fin=" + c20Code(r.Codespace, r.Code)
					if c20IsRecoveredPanic(r.Codespace, r.Code) {
						rec.recovered(fmt.Sprintf("%s input %d (%s)", fam.Name, items[k].idx, items[k].in.Label), r.Log)
					}
					rec.outcome("a: " + v)
					rec.distinct("a|" + kind + "|" + v)
					rec.count("inputs", 1)
				}
			}
		}
		if blockProb != "" {
			c20ReportBatch(u, rec, "block-executes", blockProb, idxs[:end], idxs[start:end], func(sub c20Unit, r *c20Rec) { c20RunA(sub, r) })
			w = c20World()
		}
	}
}

// c20ReportBatch records a block-level failure, minimised to the smallest index set that still fails on fresh worlds:
// first within the failing batch, then within the whole history of the unit up to that batch.
func c20ReportBatch(u c20Unit, rec *c20Rec, clause, problem string, history, batch []int, rerun func(c20Unit, *c20Rec)) {
	rep := u
	detail := problem
	if !rec.noMin {
		fails := func(sub []int) bool {
			s := u
			s.Only = append([]int{}, sub...)
			s.Batch = len(sub)
			r := &c20Rec{noMin: true}
			rerun(s, r)
			return len(r.findings) > 0
		}
		if min, ok := c20Minimize(batch, fails); ok {
			rep.Only, rep.Batch = min, len(min)
			detail += fmt.Sprintf(" [minimised to input(s) %v of family %s]", min, u.Family)
		} else if min, ok := c20Minimize(history, fails); ok {
			rep.Only, rep.Batch = min, len(min)
			detail += fmt.Sprintf(" [minimised to input(s) %v of family %s (needs history)]", min, u.Family)
		} else {
			rep.Only = nil
			detail += " [not reproducible on a subset; replay runs the whole unit]"
		}
	}
	rec.fail(clause, c20Signature(problem), detail, rep)
}

func c20Short(b []byte) []byte {
	if len(b) > 48 {
		return b[:48]
	}
	return b
}

// c20RunASeeds is the alphabet sanity of part (a): every unmutated seed, alone in a fresh world, is accepted by every phase.
func c20RunASeeds(u c20Unit, rec *c20Rec) {
	for i, s := range c20Seeds(c20World()) {
		w := c20World()
		bad := func(what string) {
			rec.fail("alphabet-sanity", "", fmt.Sprintf("seed %s (built to be valid): %s", s.Name, what), u)
		}
		if c, p := c20Simulate(w, s.Tx); c != "ok" || p != "" {
			bad("Simulate " + c + " " + p)
		}
		if c, p := c20CheckTx(w, s.Tx, abci.CheckTxType_New); c != "ok" || p != "" {
			bad("CheckTx " + c + " " + p)
		}
		if kept, prob, p := c20Prepare(w, [][]byte{s.Tx}, w.Cfg.MaxBytes); kept != 1 || prob != "" || p != "" {
			bad(fmt.Sprintf("PrepareProposal kept=%d %s %s", kept, prob, p))
		}
		if st, prob, p := c20Process(w, [][]byte{s.Tx}); st != "accept" || prob != "" || p != "" {
			bad("ProcessProposal " + st + " " + prob + " " + p)
		}
		br := w.Block([][]byte{s.Tx})
		if prob := c20BlockProblem(br, 1); prob != "" {
			bad(prob)
		} else if r := br.Res.TxResults[0]; r.Code != 0 {
			bad(fmt.Sprintf("FinalizeBlock code %s:%d %s", r.Codespace, r.Code, r.Log))
		} else if s.Eth != nil {
			if resp := w.EthResponse(r); resp == nil || resp.VmError != "" {
				bad("vm error in a seed")
			}
		}
		rec.count("abci_calls", 6)
		rec.count("inputs", 1)
		rec.outcome("a: seed accepted by every phase")
		_ = i
	}
}

// ---------------------------------------------------------------------------
// units
// ---------------------------------------------------------------------------

func c20RunUnit(u c20Unit, rec *c20Rec) {
	switch u.Part {
	case "a":
		c20RunA(u, rec)
	case "a-seeds":
		c20RunASeeds(u, rec)
	case "b-tx":
		c20RunBTx(u, rec)
	case "b-call":
		c20RunBCall(u, rec)
	case "b-query":
		c20RunBQuery(u, rec)
	case "c-cfg":
		c20RunCCfg(u, rec)
	case "c-kind":
		c20RunCKind(u, rec)
	case "c-fee":
		c20RunCFee(u, rec)
	case "c-gov":
		c20RunCGov(u, rec)
	case "d":
		c20RunD(u, rec)
	case "f-grid":
		c20RunFGrid(u, rec)
	case "f-live":
		c20RunFLive(u, rec)
	case "q-trace":
		c20RunQTrace(u, rec)
	default:
		fmt.Fprintf(os.Stderr, "C20: unknown unit part %q\n", u.Part)
		os.Exit(2)
	}
}

func c20Ranges(part, tier, family string, n, size, batch int) []c20Unit {
	var out []c20Unit
	for from := 0; from < n; from += size {
		to := from + size
		if to > n {
			to = n
		}
		out = append(out, c20Unit{Part: part, Tier: tier, Family: family, From: from, To: to, Batch: batch})
	}
	return out
}

// c20Units lists every unit of a tier in a fixed order.
func c20Units(thorough bool) []c20Unit {
	tier := "quick"
	if thorough {
		tier = "thorough"
	}
	fs := c20Fams(thorough)
	var units []c20Unit
	units = append(units, c20Unit{Part: "a-seeds", Tier: tier})
	// (a)
	for _, l := range [][]c20Family{fs.raw, fs.aOnly} {
		for _, f := range l {
			size := 1500
			switch {
			case strings.HasPrefix(f.Name, "bytes"):
				size = 8192
			case strings.HasPrefix(f.Name, "substall:") || strings.HasPrefix(f.Name, "inner-substall:"):
				size = 6000
			}
			units = append(units, c20Ranges("a", tier, f.Name, f.N, size, 50)...)
		}
	}
	// (b)
	for _, f := range fs.pc {
		units = append(units, c20Ranges("b-tx", tier, f.Name, f.N, 400, 12)...)
		units = append(units, c20Ranges("b-call", tier, f.Name, f.N, 150, 0)...)
	}
	units = append(units, c20QueryUnits(tier)...)
	units = append(units, c20TraceUnits(tier)...) // trace configurations served by child processes (c20_trace_live.go)
	// (c)
	units = append(units, c20CfgUnits(tier)...)
	units = append(units, c20GovUnits(tier)...)
	// (f) log-filter criteria x delivered logs (c20_filters.go)
	units = append(units, c20FilterUnits(tier)...)
	// (d)
	dBatch := func(name string) int {
		switch {
		case strings.HasPrefix(name, "bytes"):
			if thorough {
				return 16
			}
			return 64
		case thorough:
			return 1
		case strings.HasPrefix(name, "pc:"):
			return 8
		}
		return 16
	}
	units = append(units, c20Ranges("d", tier, fs.kinds.Name, fs.kinds.N, fs.kinds.N, 1)...)
	for _, l := range [][]c20Family{fs.raw, fs.pc} {
		for _, f := range l {
			b := dBatch(f.Name)
			units = append(units, c20Ranges("d", tier, f.Name, f.N, 120*b, b)...)
		}
	}
	return units
}

// c20ABCI explores parts (a)-(d).
func c20ABCI(run *ev.Run) {
	units := c20Units(run.Thorough())
	if f := os.Getenv("VERIF_C20_PARTS"); f != "" {
		// development aid: restrict to some parts ("a,d"); the caller must not claim exhaustiveness then
		var sel []c20Unit
		for _, u := range units {
			for _, p := range strings.Split(f, ",") {
				if u.Part == p || strings.HasPrefix(u.Part, p+"-") {
					sel = append(sel, u)
					break
				}
			}
		}
		units = sel
		run.Coverage["abci_parts_filter"] = f
		run.Coverage["exhaustive"] = false
	}
	run.Sharded(Shards(), func(shard, n int) {
		checked := map[string]bool{}
		for i, u := range units {
			if i%n != shard {
				continue
			}
			rec := &c20Rec{run: run}
			c20RunUnit(u, rec)
			run.Count("units", 1)
			if !checked[u.Part] && len(rec.findings) == 0 {
				// determinism self-check: the first clean unit of every part handled by this shard is executed twice
				checked[u.Part] = true
				again := &c20Rec{}
				c20RunUnit(u, again)
				if !c20SameOutcomes(rec.outcomes, again.outcomes) || len(again.findings) != 0 {
					fmt.Fprintf(os.Stderr, "HARNESS-NONDETERMINISM in C20 unit %s\n", u)
					os.Exit(2)
				}
			}
			if i%(len(units)/5+1) == 0 {
				run.Sample(map[string]interface{}{"unit": u, "outcome_classes": len(rec.outcomes)})
			}
		}
	})
}

func c20SameOutcomes(a, b map[string]int) bool {
	if len(a) != len(b) {
		return false
	}
	for k, v := range a {
		if b[k] != v {
			return false
		}
	}
	return true
}

// c20ABCIReplay re-executes one replay value (a unit, possibly narrowed by Only) on fresh worlds.
func c20ABCIReplay(raw json.RawMessage) []ev.Finding {
	var u c20Unit
	if err := json.Unmarshal(raw, &u); err != nil {
		fmt.Fprintln(os.Stderr, err)
		os.Exit(2)
	}
	rec := &c20Rec{noMin: true}
	c20RunUnit(u, rec)
	var classes []string
	for k, v := range rec.outcomes {
		classes = append(classes, fmt.Sprintf("%s ×%d", k, v))
	}
	sort.Strings(classes)
	for _, c := range classes {
		fmt.Println("outcome:", c)
	}
	return rec.findings
}

// c20ABCIRule states the explored bounds.
func c20ABCIRule(thorough bool) string {
	nv := c20SubstCount(thorough)
	b3 := ""
	if thorough {
		b3 = fmt.Sprintf(" + length-3 strings with first byte in %x", c20S7)
	}
	return fmt.Sprintf("(a) every byte string of length <= 2%s, and for 6 valid seed txs (eth legacy, eth dynamic-fee, bank send, authz MsgExec(bank send), cpc MsgDeployErc20Contract, vauth MsgSubmitProofExternalOwnedAccount): every truncation, every byte replaced by %d values%s, for the 2 eth seeds also every truncation / byte substitution of MarshalledTx inside a valid envelope and 5 malformed From values; each input through CheckTx(New), CheckTx(Recheck), Simulate, PrepareProposal, ProcessProposal alone and in batches of 50 through PrepareProposal, ProcessProposal, FinalizeBlock+Commit. "+
		"(b) every ABI method of every registered custom precompile (registry x ABI): valid call, bare selector, every truncation, every 32-byte word replaced by {0, 2^256-1, 2^255, 0x20}, trailing garbage of 1/31/32/33 bytes, unknown selectors; as eth tx (CheckTx, Simulate, proposals, FinalizeBlock) and through EthCall/EstimateGas (%s); every gRPC query method of x/evm, x/feemarket, x/cpc, x/vauth from the protobuf service descriptors with empty, valid, field-wise mutated requests and raw byte strings (%s). "+
		"(c) MaxGas in {-1,0,1,2,21000,2^63-1} x MaxBytes in {1048576,22020096} (PrepareProposal MaxTxBytes in {1, MaxBytes}) x {empty, one transfer, six mixed txs, gas limit above MaxGas}: InitChain + 3 blocks incl. proposal phases; every kind of the 17-kind tx alphabet at every position of a 3-tx block (2 fillers, MaxGas 40M and 100k) followed by an empty block; 8 fee-market histories (full blocks for up to 210 heights; fee-market parameters >= 2^63); 8 governance proposals carrying a MsgEthereumTx / MsgSend declared from the gov account, executed by gov's EndBlocker. "+
		"(d) blocks [t1, X.., t2] against twin blocks [t1, t2] for X over all inputs of (a), all call-data txs of (b) and the 17 tx kinds (batch sizes per block: see units). "+c20FilterRule(thorough)+" "+c20TraceRule(thorough),
		b3, nv, map[bool]string{false: "", true: " (part (a): by all 255 other values, also inside MarshalledTx)"}[thorough], map[bool]string{false: "EstimateGas for the word-boundary subset", true: "EstimateGas for every input"}[thorough],
		map[bool]string{false: "length 1 all, length 2 with first byte in the 7-byte set", true: "length 1-2 all, length 3 with the first two bytes in the 7-byte set"}[thorough])
}
