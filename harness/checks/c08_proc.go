package checks

import (
	"bytes"
	"crypto/sha256"
	"encoding/hex"
	"encoding/json"
	"fmt"
	"math/big"
	"os"
	"sort"
	"strings"
	"time"

	sdkmath "cosmossdk.io/math"
	sdk "github.com/cosmos/cosmos-sdk/types"
	authtypes "github.com/cosmos/cosmos-sdk/x/auth/types"
	banktypes "github.com/cosmos/cosmos-sdk/x/bank/types"
	govtypes "github.com/cosmos/cosmos-sdk/x/gov/types"
	govv1 "github.com/cosmos/cosmos-sdk/x/gov/types/v1"
	"github.com/ethereum/go-ethereum/common"
	ethtypes "github.com/ethereum/go-ethereum/core/types"
	ethcrypto "github.com/ethereum/go-ethereum/crypto"

	cpctypes "github.com/EscanBE/evermint/v12/x/cpc/types"
	evmtypes "github.com/EscanBE/evermint/v12/x/evm/types"
	feemarkettypes "github.com/EscanBE/evermint/v12/x/feemarket/types"

	"verif/harness/asm"
	"verif/harness/ev"
	"verif/harness/world"
)

// C08, process-state pass: "a request has no effect on later answers or on later block execution — not even through state the
// process keeps outside the stores".
//
// The store oracles of c08.go compare every store byte before and after a request; they cannot see a value that a request left in
// the memory of the process (a memo, a cache keyed by nothing, a lazily initialised field) and that a later execution picks up.
// This pass is differential over whole histories instead. A case is (history H, request R, point, query height):
//
//   history   height 1 empty, height 2 "pre" block, heights 3..2+n one block per *setup-changing event* of H, then two identical
//             "use" blocks U1, U2 whose transactions exercise everything an event can change. Events (what EVM execution is set up
//             from): a custom precompiled contract deployed through MsgDeployErc20ContractRequest by a whitelisted account, a
//             contract created, a contract self-destructed, x/evm parameters (EnableCreate, ExtraEIPs), x/feemarket parameters
//             (base fee, min gas price) and x/cpc parameters (deployer whitelist) changed through a real governance proposal
//             (submit + votes in the block before, executed by the end blocker of the event block), or nothing.
//   request   one request of the alphabet (eth_call / estimateGas of programs that touch what the events change, TraceTx /
//             TraceBlock, plain gRPC reads, CheckTx New / Recheck, Simulate, /app/simulate) through the real entry points,
//   point     before FinalizeBlock(b), between FinalizeBlock(b) and Commit(b) for every block b after the pre block, or after the end,
//   height    unpinned, or pinned to any committed height — in particular heights *before* an event, whose state does not contain
//             what the event creates.
//
// The event is the last thing its block does (last transaction / end blocker), so that the first EVM set up on the changed state
// is the request's or block U1's. Block transactions carry nonces counted by the harness and a flat gas price, and all addresses
// are computed without the application, so the harness itself never reads the application between blocks: the run with R
// differs from its twin (fresh application, same blocks, no request) in R alone. Oracles:
//
//   (d1) later-blocks-unaffected-by-request: AppHash, CommitID, every ExecTxResult and the block events of every block are
//        identical to the twin's;
//   (d2) later-answers-unaffected-by-request: after the last block a list of probes (query, pinned height) and Simulate probes is
//        answered exactly like in the twin;
//   (d3) answer-is-a-function-of-height-and-request: the answer to R at (resolved) height h equals the answer the twin gives to the
//        same bytes pinned to h *after all blocks were executed and after every other request of the alphabet was served* (the
//        reverse direction: later blocks and other requests do not change the answer for a committed height);
//   (a)  as in c08.go: root stores, LastCommitID and (queries, simulations) the check state byte-identical around R.
//
// Non-vacuity: in the twin of every history the designated use transaction of each event must execute differently from the
// history without events, and the designated query must answer differently at the heights before and after the event.

// c08ProcCase is one case of the pass. Req == nil: the twin alone (sanity clauses only).
type c08ProcCase struct {
	Events []string `json:"events"`
	Req    *c08Req  `json:"req,omitempty"`
	Point  int      `json:"point"`            // 2*(b-1): before FinalizeBlock of block b (b = 1 is the first event block); +1: between FinalizeBlock and Commit; 2*(n+2): after the last Commit
	Height int64    `json:"height,omitempty"` // query height: 0 = unpinned (tracing always uses the height before the traced block)
	Full   bool     `json:"full,omitempty"`   // final probes: the quick query alphabet at every height instead of the core list at two heights
}

func (c c08ProcCase) String() string {
	r := "none (twin)"
	if c.Req != nil {
		r = fmt.Sprintf("%s height=%d at point %d (%s)", c.Req, c.Height, c.Point, c08PPointName(len(c.Events), c.Point))
	}
	return fmt.Sprintf("process-state pass events=%v request=%s", c.Events, r)
}

func c08PPointName(n, k int) string {
	if k >= 2*(n+2) {
		return fmt.Sprintf("after Commit(%d)", n+4)
	}
	h := 3 + k/2
	if k%2 == 0 {
		return fmt.Sprintf("before FinalizeBlock(%d)", h)
	}
	return fmt.Sprintf("between FinalizeBlock(%d) and Commit", h)
}

const (
	c08PWDeployer = 0  // whitelisted deployer of custom precompiled contracts at genesis
	c08PWX1       = 1  // not whitelisted at genesis: tries to deploy a precompile in U1
	c08PWCreator  = 2  // sender of the contract-create event (nonce 0 fixes the address of the created contract)
	c08PWX2       = 3  // like X1, in U2
	c08PWProbe    = 6  // sender of the Simulate probes after the last block
	c08PWSlot     = 8  // wallets 8..19: one per position of the use block (nonce 0 in U1, 1 in U2)
	c08PWSlot2    = 20 // wallets 20..21: senders in U2 of the two use transactions that the ante handler may refuse in U1
	c08PWAux      = 22 // wallets 22..24: pre block, fillers, proposers, the self-destruct event (round robin)
	c08PWallets   = 25
	c08PPriceGwei = 20 // flat gas price of every block transaction
	c08PLowGwei   = 3  // price of the "low price" transaction / eth_call
)

var c08AddrPush0 = common.HexToAddress("0x00000000000000000000000000000000000c0808") // PUSH0 ... return 32 bytes: invalid opcode unless EIP-3855 is activated (it is by default)

// c08PEvents is the event alphabet, simplest first.
var c08PEvents = []string{"none", "cpc-deploy", "contract-create", "contract-selfdestruct", "gov-evm-params", "gov-feemarket-params", "gov-cpc-params"}

// c08PUse is the use block: every position has a wallet of its own.
var c08PUse = []string{"p-cpc1-transfer", "p-cpc1-name", "p-cpc2-transfer", "p-call-created", "p-suicide", "p-create", "p-push0",
	"p-lowprice-sstore", "p-cpc-deploy-uthree", "p-erc20-transfer", "p-delegate", "p-cosmos-send"}

// designated use transaction / query per event (non-vacuity)
var c08PDesignated = map[string][2]string{
	"cpc-deploy":            {"p-cpc1-transfer", "ethcall:p-cpc1-name"},
	"contract-create":       {"p-call-created", "ethcall:p-call-created"},
	"contract-selfdestruct": {"p-suicide", "grpc:evm.Code/contract"},
	"gov-evm-params":        {"p-create", "ethcall:p-push0"},
	"gov-feemarket-params":  {"p-lowprice-sstore", "grpc:feemarket.Params"},
	"gov-cpc-params":        {"p-cpc-deploy-uthree", "grpc:cpc.Params"},
}

func c08PUseIndex(kind string) int {
	for i, k := range c08PUse {
		if k == kind {
			return i
		}
	}
	return -1
}

// c08PDyn is the address of the k-th custom precompiled contract deployed after genesis (CREATE address of the module account).
func c08PDyn(e *c08Env, k uint64) common.Address {
	for n := uint64(0); n < 8; n++ {
		if ethcrypto.CreateAddress(cpctypes.CpcModuleAddress, n) == e.erc20 {
			return ethcrypto.CreateAddress(cpctypes.CpcModuleAddress, n+k)
		}
	}
	return common.Address{} // the sanity clauses report it
}

func c08PCreated(e *c08Env) common.Address {
	return world.CreateAddr(e.w.Wallets[c08PWCreator].Eth(), 0)
}

func c08PCreatedInit() []byte {
	return asm.InitCodeWith(asm.New().Log1(9).Bytes(), asm.New().Log1(7).Sstore(0, 5).ReturnWord(42).Bytes())
}

func c08PErc20Transfer() []byte {
	return Enc("transfer(address,uint256)", AddrWord(AddrSink), Word(big.NewInt(1)))
}

// c08ProcPrograms: eth_call / estimateGas programs of this pass (found by c08ProgByName). Same callee, data and gas as the use
// transaction of the same name.
var c08ProcPrograms = []c08Prog{
	{Name: "p-cpc1-transfer", ToFn: func(e *c08Env) common.Address { return c08PDyn(e, 1) }, Data: func(*c08Env) []byte { return c08PErc20Transfer() }, Gas: 300000},
	{Name: "p-cpc1-name", ToFn: func(e *c08Env) common.Address { return c08PDyn(e, 1) }, Data: func(*c08Env) []byte { return Enc("name()") }, Gas: 300000},
	{Name: "p-cpc2-transfer", ToFn: func(e *c08Env) common.Address { return c08PDyn(e, 2) }, Data: func(*c08Env) []byte { return c08PErc20Transfer() }, Gas: 300000},
	{Name: "p-call-created", ToFn: c08PCreated, Gas: 100000},
	{Name: "p-suicide", To: AddrSuicide, Gas: 100000},
	{Name: "p-create", Create: true, Data: func(*c08Env) []byte { return createOKInit() }, Gas: 200000},
	{Name: "p-push0", To: c08AddrPush0, Gas: 100000},
	{Name: "p-sstore", To: AddrSstore, Gas: 100000},
	{Name: "p-erc20-transfer", Erc20: true, Data: func(*c08Env) []byte { return c08PErc20Transfer() }, Gas: 300000},
}

// c08ProcQueries: plain gRPC reads of what the events change (found by c08QueryByName).
var c08ProcQueries = []c08Query{
	{Name: "evm.Code/created", Path: c08EvmQ + "Code", Req: func(e *c08Env) interface{ Marshal() ([]byte, error) } {
		return &evmtypes.QueryCodeRequest{Address: c08PCreated(e).Hex()}
	}},
	{Name: "evm.Storage/created-slot0", Path: c08EvmQ + "Storage", Req: func(e *c08Env) interface{ Marshal() ([]byte, error) } {
		return &evmtypes.QueryStorageRequest{Address: c08PCreated(e).Hex(), Key: h(0).Hex()}
	}},
	{Name: "evm.Account/dyn1", Path: c08EvmQ + "Account", Req: func(e *c08Env) interface{ Marshal() ([]byte, error) } {
		return &evmtypes.QueryAccountRequest{Address: c08PDyn(e, 1).Hex()}
	}},
	{Name: "cpc.Contract/dyn1", Path: c08CpcQ + "CustomPrecompiledContract", Req: func(e *c08Env) interface{ Marshal() ([]byte, error) } {
		return &cpctypes.QueryCustomPrecompiledContractRequest{Address: c08PDyn(e, 1).Hex()}
	}},
}

// ---------------------------------------------------------------------------
// environment
// ---------------------------------------------------------------------------

type c08PEnv struct {
	*c08Env
	pc     c08ProcCase
	n      int // number of events
	auxN   int
	seq    map[int]uint64 // next nonce of a block-transaction sender (every such transaction passes the ante handler)
	valSeq []uint64
	propID uint64
	gov    string
	evmP   evmtypes.Params
	feeP   feemarkettypes.Params
	cpcP   cpctypes.Params
	ans    []string // every answer, in order (determinism signature)
}

func c08PNewEnv(pc c08ProcCase, obs *c08Obs) *c08PEnv {
	cs := append(c08Contracts(), world.Contract{Addr: c08AddrPush0, Code: []byte{0x5f, 0x60, 0x00, 0x52, 0x60, 0x20, 0x60, 0x00, 0xf3}})
	w := world.New(world.Config{NumWallets: c08PWallets, Contracts: cs, DeployErc20: true, DeployStaking: true,
		CpcWhitelist: []string{world.NewAcct(fmt.Sprintf("wal%d", c08PWDeployer+1)).Bech()}})
	w.Block(nil)
	e := &c08Env{w: w, obs: obs, c: c08Case{Proc: &pc}}
	// the only reads of the application by the harness: once, before the history starts
	ctx := w.Ctx()
	if a := w.App.CPCKeeper.GetErc20CustomPrecompiledContractAddressByMinDenom(ctx, world.Denom); a != nil {
		e.erc20 = *a
	}
	p := &c08PEnv{c08Env: e, pc: pc, n: len(pc.Events), seq: map[int]uint64{}, valSeq: make([]uint64, len(w.Validators)),
		gov:  authtypes.NewModuleAddress(govtypes.ModuleName).String(),
		evmP: w.App.EvmKeeper.GetParams(ctx), feeP: w.App.FeeMarketKeeper.GetParams(ctx), cpcP: w.App.CPCKeeper.GetParams(ctx)}
	return p
}

func c08PPrice(gwei int64) *big.Int { return new(big.Int).Mul(big.NewInt(gwei), Gwei) }

// aux is the next wallet of the auxiliary round robin.
func (p *c08PEnv) aux() int {
	i := c08PWAux + p.auxN%3
	p.auxN++
	return i
}

func (p *c08PEnv) cosmos(sender int, seq uint64, gas uint64, msgs ...sdk.Msg) []byte {
	w := p.w
	return w.CosmosTx(w.Wallets[sender], uint64(len(w.Validators)+sender), seq, gas, new(big.Int).Mul(new(big.Int).SetUint64(gas), c08PPrice(c08PPriceGwei)), msgs...)
}

// namedTx builds the transaction of a kind, sent by wallet `sender` with the given nonce. ok=false: unknown kind.
func (p *c08PEnv) namedTx(kind string, sender int, nonce uint64) (bz []byte, ok bool) {
	w := p.w
	a := w.Wallets[sender]
	price := c08PPrice(c08PPriceGwei)
	name := kind
	switch kind {
	case "p-lowprice-sstore":
		name, price = "p-sstore", c08PPrice(c08PLowGwei)
	case "p-sclear":
		to := AddrSclear
		return w.EthTx(a, &ethtypes.LegacyTx{Nonce: nonce, GasPrice: price, Gas: 100000, To: &to, Value: big.NewInt(0)}), true
	case "p-log2":
		to := AddrLog2
		return w.EthTx(a, &ethtypes.LegacyTx{Nonce: nonce, GasPrice: price, Gas: 100000, To: &to, Value: big.NewInt(0)}), true
	case "p-create-event":
		return w.EthTx(a, &ethtypes.LegacyTx{Nonce: nonce, GasPrice: price, Gas: 300000, Value: big.NewInt(0), Data: c08PCreatedInit()}), true
	case "p-delegate":
		to := cpctypes.CpcStakingFixedAddress
		data := Enc("delegate(address,uint256)", AddrWord(common.BytesToAddress(w.Validators[0].Acc())), Word(new(big.Int).Exp(big.NewInt(10), big.NewInt(15), nil)))
		return w.EthTx(a, &ethtypes.LegacyTx{Nonce: nonce, GasPrice: price, Gas: 1500000, To: &to, Value: big.NewInt(0), Data: data}), true
	case "p-cosmos-send":
		return p.cosmos(sender, nonce, 200000, &banktypes.MsgSend{FromAddress: a.Bech(), ToAddress: w.Wallets[c08WNext].Bech(), Amount: sdk.NewCoins(sdk.NewCoin(world.Denom, sdkmath.NewInt(5)))}), true
	case "p-cpc-deploy-utwo":
		return p.cosmos(sender, nonce, 400000, &cpctypes.MsgDeployErc20ContractRequest{Authority: a.Bech(), Name: "Two", Symbol: "TWO", Decimals: 6, MinDenom: "utwo"}), true
	case "p-cpc-deploy-uthree":
		return p.cosmos(sender, nonce, 400000, &cpctypes.MsgDeployErc20ContractRequest{Authority: a.Bech(), Name: "Three", Symbol: "THREE", Decimals: 6, MinDenom: "uthree"}), true
	}
	for i := range c08ProcPrograms {
		pr := &c08ProcPrograms[i]
		if pr.Name != name {
			continue
		}
		var to *common.Address
		if !pr.Create {
			t := pr.target(p.c08Env)
			to = &t
		}
		var data []byte
		if pr.Data != nil {
			data = pr.Data(p.c08Env)
		}
		return w.EthTx(a, &ethtypes.LegacyTx{Nonce: nonce, GasPrice: price, Gas: pr.Gas, To: to, Value: big.NewInt(pr.Value), Data: data}), true
	}
	return nil, false
}

// must builds a block transaction: the sender's nonce counter advances (every block transaction of a counted sender passes the
// ante handler; the two kinds that may be refused there have a sender of their own in each use block).
func (p *c08PEnv) must(kind string, sender int) []byte {
	nonce := p.seq[sender]
	p.seq[sender]++
	bz, ok := p.namedTx(kind, sender, nonce)
	if !ok {
		panic("c08 process-state pass: unknown tx kind " + kind)
	}
	return bz
}

// proposal: submit + a yes vote of every validator, all in one block; the voting period (30 min) ends before the next block
// (+1 h), whose end blocker executes the message.
func (p *c08PEnv) proposal(inner sdk.Msg, title string) [][]byte {
	w := p.w
	proposer := p.aux()
	submit, err := govv1.NewMsgSubmitProposal([]sdk.Msg{inner}, sdk.NewCoins(sdk.NewCoin(world.Denom, sdkmath.NewInt(10))), w.Wallets[proposer].Bech(), "", title, title, false)
	if err != nil {
		panic(err)
	}
	p.propID++
	gas := uint64(1_000_000)
	fee := new(big.Int).Mul(new(big.Int).SetUint64(gas), c08PPrice(c08PPriceGwei))
	txs := [][]byte{p.cosmos(proposer, p.seq[proposer], gas, submit)}
	p.seq[proposer]++
	for i, v := range w.Validators {
		txs = append(txs, w.CosmosTx(v, uint64(i), p.valSeq[i], gas, fee, govv1.NewMsgVote(v.Acc(), p.propID, govv1.OptionYes, "")))
		p.valSeq[i]++
	}
	return txs
}

// eventPrep: transactions of the block before the event block.
func (p *c08PEnv) eventPrep(ev string) [][]byte {
	w := p.w
	switch ev {
	case "gov-evm-params":
		np := p.evmP
		np.EnableCreate = false
		np.ExtraEIPs = nil // the default activates EIP-3855 (PUSH0)
		return p.proposal(&evmtypes.MsgUpdateParams{Authority: p.gov, Params: np}, "c08 evm params")
	case "gov-feemarket-params":
		np := p.feeP
		np.BaseFee = sdkmath.NewIntFromBigInt(c08PPrice(7))
		np.MinGasPrice = sdkmath.LegacyNewDecFromBigInt(c08PPrice(5))
		return p.proposal(&feemarkettypes.MsgUpdateParams{Authority: p.gov, Params: np}, "c08 fee market params")
	case "gov-cpc-params":
		np := p.cpcP
		np.WhitelistedDeployers = nil
		for _, i := range []int{c08PWDeployer, c08PWX1, c08PWX2, c08WCheck, c08PWProbe} {
			np.WhitelistedDeployers = append(np.WhitelistedDeployers, w.Wallets[i].Bech())
		}
		return p.proposal(&cpctypes.MsgUpdateParams{Authority: p.gov, NewParams: np}, "c08 cpc params")
	}
	return nil
}

// eventMain: transactions of the event block.
func (p *c08PEnv) eventMain(ev string) [][]byte {
	switch ev {
	case "cpc-deploy":
		return [][]byte{p.must("p-cpc-deploy-utwo", c08PWDeployer)}
	case "contract-create":
		return [][]byte{p.must("p-create-event", c08PWCreator)}
	case "contract-selfdestruct":
		return [][]byte{p.must("p-suicide", p.aux())}
	}
	return nil
}

// useBlock u (0 = U1, 1 = U2).
func (p *c08PEnv) useBlock(u int) [][]byte {
	var txs [][]byte
	second := 0
	for i, k := range c08PUse {
		s := c08PWSlot + i
		switch k {
		case "p-cpc-deploy-uthree":
			s = []int{c08PWX1, c08PWX2}[u]
		case "p-lowprice-sstore", "p-create": // refused by the ante handler after some events: the sender's nonce may not advance
			if u == 1 {
				s = c08PWSlot2 + second
			}
			second++
		}
		txs = append(txs, p.must(k, s))
	}
	return txs
}

// c08PPlans: the blocks of a history are the same bytes in every run of the process (signatures are deterministic).
var c08PPlans = map[string][][][]byte{}

// plan builds every block of the run (index = height-2): nothing depends on the state.
func (p *c08PEnv) plan() {
	key := strings.Join(p.pc.Events, ",")
	if b, ok := c08PPlans[key]; ok {
		p.blocks = b
		return
	}
	defer func() { c08PPlans[key] = p.blocks }()
	pre := [][]byte{p.must("p-sstore", p.aux()), p.must("p-log2", p.aux()), p.must("p-cosmos-send", p.aux())}
	blocks := [][][]byte{pre}
	for i, ev := range p.pc.Events {
		// submission and votes of a governance event go into the block before: at the end of the pre block, at the beginning
		// of an event block (whose event stays last; the senders of one block are distinct wallets)
		if i == 0 {
			blocks[i] = append(blocks[i], p.eventPrep(ev)...)
		} else {
			blocks[i] = append(p.eventPrep(ev), blocks[i]...)
		}
		// the event is the last transaction of its block (governance events happen in the end blocker anyway): no execution
		// of the same block follows it, the first one to set up an EVM on the new state is the request or block U1
		blk := [][]byte{p.must("p-sclear", p.aux())}
		blk = append(blk, p.eventMain(ev)...)
		blocks = append(blocks, blk)
	}
	blocks = append(blocks, p.useBlock(0), p.useBlock(1))
	p.blocks = blocks
}

// ---------------------------------------------------------------------------
// requests
// ---------------------------------------------------------------------------

func c08PIsTx(r c08Req) bool {
	switch r.Kind {
	case "checktx", "recheck", "simulate", "appsimulate":
		return true
	}
	return false
}

func c08PIsTrace(r c08Req) bool { return r.Kind == "tracetx" || r.Kind == "traceblock" }

// build resolves a request; transactions are sent by `sender` with nonce 0 and the flat price (no look at the check state).
func (p *c08PEnv) build(r c08Req, sender int) c08Built {
	if c08PIsTx(r) {
		bz, ok := p.namedTx(r.Name, sender, 0)
		if !ok {
			return c08Built{NA: "unknown tx kind"}
		}
		return c08Built{Tx: bz}
	}
	return p.c08Env.build(r)
}

// height the request is executed at: tracing uses the state before the traced block.
func (p *c08PEnv) reqHeight(r c08Req, height int64) int64 {
	if c08PIsTrace(r) {
		return int64(r.Block+2) - 1
	}
	return height
}

func c08PAnswer(r c08Req, rp *c08Resp) string {
	if rp.NA != "" {
		return "n/a: " + rp.NA
	}
	if r.isQuery() {
		return fmt.Sprintf("code=%d %s", rp.Code, rp.Canon)
	}
	return fmt.Sprintf("code=%d log=%s value=%x", rp.Code, rp.Log, rp.Value)
}

func c08PKey(r c08Req, h int64) string { return fmt.Sprintf("%s@%d", r, h) }

// ask issues a request without any oracle around it (twin table, final probes).
func (p *c08PEnv) ask(r c08Req, height int64, sender int) (string, *c08Resp) {
	rp := p.exec(r, p.build(r, sender), p.reqHeight(r, height))
	p.obs.Requests++
	a := c08PAnswer(r, rp)
	p.ans = append(p.ans, a)
	return a, rp
}

// c08PQueries: the non-tracing queries of the alphabet.
func c08PQueries(thorough bool) []c08Req {
	out := []c08Req{
		{Kind: "ethcall", Name: "p-cpc1-name"},
		{Kind: "ethcall", Name: "p-cpc1-transfer"},
		{Kind: "ethcall", Name: "p-call-created"},
		{Kind: "ethcall", Name: "p-suicide"},
		{Kind: "ethcall", Name: "p-create"},
		{Kind: "ethcall", Name: "p-push0"},
		{Kind: "ethcall", Name: "p-sstore", Gwei: c08PLowGwei},
		{Kind: "estimate", Name: "p-cpc1-transfer", NoGas: true},
		{Kind: "estimate", Name: "p-create", NoGas: true},
		{Kind: "grpc", Name: "cpc.Contracts/all"},
		{Kind: "grpc", Name: "cpc.Erc20ByDenom/none"}, // min denom utwo
		{Kind: "grpc", Name: "cpc.Contract/dyn1"},
		{Kind: "grpc", Name: "cpc.Params"},
		{Kind: "grpc", Name: "evm.Params"},
		{Kind: "grpc", Name: "feemarket.Params"},
		{Kind: "grpc", Name: "evm.Code/contract"}, // the self-destructing contract
		{Kind: "grpc", Name: "evm.Code/created"},
	}
	if thorough {
		out = append(out,
			c08Req{Kind: "ethcall", Name: "p-cpc2-transfer"},
			c08Req{Kind: "ethcall", Name: "p-erc20-transfer"},
			c08Req{Kind: "ethcall", Name: "block-context"},
			c08Req{Kind: "ethcall", Name: "staking-delegate"},
			c08Req{Kind: "ethcall", Name: "p-create", Gwei: c08PPriceGwei},
			c08Req{Kind: "estimate", Name: "p-call-created", NoGas: true},
			c08Req{Kind: "estimate", Name: "p-cpc1-transfer"},
			c08Req{Kind: "estimate", Name: "p-sstore", NoGas: true, Gwei: c08PLowGwei},
			c08Req{Kind: "grpc", Name: "evm.Storage/created-slot0"},
			c08Req{Kind: "grpc", Name: "evm.Account/dyn1"},
			c08Req{Kind: "grpc", Name: "feemarket.BaseFee"},
			c08Req{Kind: "grpc", Name: "evm.BaseFee"},
			c08Req{Kind: "estimate", Name: "p-push0", NoGas: true},
			c08Req{Kind: "grpc", Name: "evm.Balance/suicide-contract"},
			c08Req{Kind: "grpc", Name: "evm.EthCall/fee-cap-below-base"},
		)
	}
	return out
}

// c08PTraces: tracing requests for a history of n events (block index = height-2; U1 is n+1).
func c08PTraces(n int, thorough bool) []c08Req {
	u1 := n + 1
	out := []c08Req{
		{Kind: "tracetx", Block: u1, Tx: c08PUseIndex("p-cpc1-transfer")},
		{Kind: "tracetx", Block: u1, Tx: c08PUseIndex("p-call-created"), Tracer: "callTracer"},
		{Kind: "traceblock", Block: 1, Tracer: "callTracer"},
	}
	if thorough {
		out = append(out,
			c08Req{Kind: "traceblock", Block: u1},
			c08Req{Kind: "traceblock", Block: u1 + 1, Tracer: "callTracer"},
			c08Req{Kind: "tracetx", Block: u1, Tx: c08PUseIndex("p-create"), Tracer: "prestateTracer"},
			c08Req{Kind: "tracetx", Block: u1 + 1, Tx: c08PUseIndex("p-cpc2-transfer"), Tracer: "callTracer"},
			c08Req{Kind: "tracetx", Block: 1, Tx: 1}, // the event transaction (not traceable when it is a Cosmos message)
		)
	}
	return out
}

// c08PTxReqs: CheckTx / Simulate requests.
func c08PTxReqs(thorough bool) []c08Req {
	var out []c08Req
	kinds := []string{"p-cpc1-transfer", "p-create", "p-call-created", "p-lowprice-sstore", "p-cpc-deploy-uthree", "p-cosmos-send"}
	if thorough {
		kinds = append(kinds, "p-push0", "p-suicide", "p-cpc-deploy-utwo", "p-delegate")
	}
	for i, k := range kinds {
		if thorough || i < 4 {
			out = append(out, c08Req{Kind: "checktx", Name: k})
		}
		if thorough || i != 2 {
			out = append(out, c08Req{Kind: "simulate", Name: k})
		}
		if thorough || i == 0 {
			out = append(out, c08Req{Kind: "recheck", Name: k})
		}
		if thorough || i == 1 {
			out = append(out, c08Req{Kind: "appsimulate", Name: k})
		}
	}
	return out
}

// c08PCoreProbes: the probes after the last block in the quick tier.
func c08PCoreProbes() []c08Req {
	return []c08Req{
		{Kind: "ethcall", Name: "p-cpc1-name"},
		{Kind: "ethcall", Name: "p-call-created"},
		{Kind: "ethcall", Name: "p-create"},
		{Kind: "ethcall", Name: "p-push0"},
		{Kind: "ethcall", Name: "p-sstore", Gwei: c08PLowGwei},
		{Kind: "estimate", Name: "p-cpc1-transfer", NoGas: true},
		{Kind: "grpc", Name: "cpc.Params"},
	}
}

func c08PSimProbes() []c08Req {
	return []c08Req{{Kind: "simulate", Name: "p-cpc1-transfer"}, {Kind: "appsimulate", Name: "p-cpc-deploy-uthree"}}
}

// ---------------------------------------------------------------------------
// twin
// ---------------------------------------------------------------------------

type c08PTwin struct {
	Vec      []string
	Table    map[string]string // (request, pinned height) -> answer after all blocks; "final:"+request for the Simulate probes
	Findings []ev.Finding
	Requests int
	OK       bool
}

// c08PTwins: one twin per history and process (a shard is a process).
var c08PTwins = map[string]*c08PTwin{}

// c08PTwinOf: table=false returns a twin that may lack the answer table and the sanity clauses (block results only).
func c08PTwinOf(events []string, table bool) (t *c08PTwin, fresh bool) {
	key := strings.Join(events, ",")
	if t, ok := c08PTwins[key]; ok {
		return t, false
	}
	if !table {
		if t, ok := c08PTwins["blocks-only:"+key]; ok {
			return t, false
		}
		t = c08PRunTwin(events, false)
		c08PTwins["blocks-only:"+key] = t
		return t, true
	}
	t = c08PRunTwin(events, true)
	c08PTwins[key] = t
	return t, true
}

func (p *c08PEnv) runBlocks(at func(k int)) bool {
	w := p.w
	if !p.record(w.Block(p.blocks[0])) {
		p.fail("block-executes", "", "pre block failed: %s", p.vec[len(p.vec)-1])
		return false
	}
	for blk := 1; blk <= p.n+2; blk++ {
		k := 2 * (blk - 1)
		at(k)
		br := w.Block(p.blocks[blk], world.BlockOpt{Between: func() { at(k + 1) }})
		if !p.record(br) {
			p.fail("block-executes", "", "block at height %d failed: %s", blk+2, p.vec[len(p.vec)-1])
			return false
		}
		if !bytes.Equal(br.AppHash, br.CommitID.Hash) {
			p.fail("commit-hash-equals-finalize-hash", "", "height %d: FinalizeBlock returned AppHash %x, Commit produced %x", br.Height, br.AppHash, br.CommitID.Hash)
		}
	}
	at(2 * (p.n + 2))
	return true
}

// txLine is the result line of tx i in a recorded block.
func c08PTxLine(block string, i int) string {
	pre := fmt.Sprintf("tx%d code=", i)
	for _, l := range strings.Split(block, "\n") {
		if strings.HasPrefix(l, pre) {
			return l
		}
	}
	return ""
}

func c08PRunTwin(events []string, table bool) *c08PTwin {
	pc := c08ProcCase{Events: events}
	obs := &c08Obs{Info: map[string]int{}}
	p := c08PNewEnv(pc, obs)
	t := &c08PTwin{Table: map[string]string{}}
	defer func() { t.Vec, t.Findings, t.Requests = p.vec, obs.Findings, obs.Requests }()
	if p.erc20 == (common.Address{}) || c08PDyn(p.c08Env, 1) == (common.Address{}) {
		p.fail("alphabet-sanity", "", "no ERC-20 precompile for the base denom / its address is not a CREATE address of the cpc module account")
		return t
	}
	p.plan()
	if !p.runBlocks(func(int) {}) || !table {
		return t
	}
	last := int64(p.n + 4)
	none := len(events) == 1 && events[0] == "none"
	for _, r := range c08PSimProbes() {
		a, _ := p.ask(r, 0, c08PWProbe)
		t.Table["final:"+r.String()] = a
	}
	for _, r := range c08PQueries(true) {
		for hh := int64(1); hh <= last; hh++ {
			a, rp := p.ask(r, hh, 0)
			t.Table[c08PKey(r, hh)] = a
			if none && r.Kind == "ethcall" && r.Gwei == 0 && (rp.Code != 0 || rp.Eth == nil) {
				p.fail("alphabet-sanity", "", "%s pinned to height %d after %d blocks must answer, got code=%d log=%q", r, hh, last, rp.Code, rp.Log)
			}
		}
	}
	for _, r := range c08PTraces(p.n, true) {
		hh := p.reqHeight(r, 0)
		a, rp := p.ask(r, hh, 0)
		t.Table[c08PKey(r, hh)] = a
		if none && rp.NA == "" && rp.Code != 0 {
			p.fail("alphabet-sanity", "", "%s must answer, got code=%d log=%q", r, rp.Code, rp.Log)
		}
	}
	// --- non-vacuity --------------------------------------------------------------------------------------------------
	u1 := p.vec[p.n+1]
	if none {
		for i, k := range c08PUse {
			l := c08PTxLine(u1, i)
			executed := strings.HasPrefix(l, fmt.Sprintf("tx%d code=0 ", i))
			if want := k != "p-cpc-deploy-uthree"; executed != want {
				p.fail("alphabet-sanity", "", "history without events: use transaction %s executed=%v, want %v: %s", k, executed, want, c08Short(l))
			}
		}
		for i := range c08PUse {
			a, b := strings.SplitN(c08PTxLine(u1, i), " ", 3), strings.SplitN(c08PTxLine(p.vec[p.n+2], i), " ", 3)
			if len(a) < 2 || len(b) < 2 || a[1] != b[1] {
				p.fail("alphabet-sanity", "", "history without events: use transaction %s has another result code in U2 than in U1", c08PUse[i])
			}
		}
		for b := 0; b < 2; b++ {
			for i := range p.blocks[b] {
				if l := c08PTxLine(p.vec[b], i); !strings.HasPrefix(l, fmt.Sprintf("tx%d code=0 ", i)) {
					p.fail("alphabet-sanity", "", "history without events: tx %d of the block at height %d was refused: %s", i, b+2, c08Short(l))
				}
			}
		}
	} else {
		ref, _ := c08PTwinOf([]string{"none"}, false)
		for i, evn := range events {
			d, ok := c08PDesignated[evn]
			if !ok {
				if evn != "none" {
					p.fail("alphabet-sanity", "", "unknown event %q", evn)
				}
				continue
			}
			if len(ref.Vec) < 4 {
				continue // reported by the twin without events
			}
			if i > 0 && evn == "contract-create" && events[i-1] == "gov-evm-params" {
				continue // contract creation was switched off by the event before: the creation fails by design
			}
			ui := c08PUseIndex(d[0])
			// the use blocks of the reference sit at other heights when n differs: compare the tx line only
			if a, b := c08PTxLine(u1, ui), c08PTxLine(ref.Vec[2], ui); a == "" || a == b {
				p.fail("alphabet-sanity", "", "event %s leaves no trace: use transaction %s executes exactly as in the history without events: %s", evn, d[0], c08Short(a))
			}
			dh := int64(3 + i)
			before, after := t.Table[fmt.Sprintf("%s@%d", d[1], dh-1)], t.Table[fmt.Sprintf("%s@%d", d[1], dh)]
			if before == "" || after == "" || before == after {
				p.fail("alphabet-sanity", "", "event %s leaves no trace: query %s answers the same at heights %d and %d: %s", evn, d[1], dh-1, dh, c08Short(before))
			}
		}
	}
	t.OK = len(obs.Findings) == 0
	if os.Getenv("C08_VERBOSE") != "" {
		fmt.Printf("  twin %v\n", events)
		for b, v := range p.vec {
			for _, l := range strings.Split(v, "\n") {
				if strings.HasPrefix(l, "tx") || strings.HasPrefix(l, "h=") {
					if len(l) > 220 {
						l = l[:220]
					}
					fmt.Printf("    block %d %s\n", b+2, l)
				}
			}
		}
		var ks []string
		for k := range t.Table {
			ks = append(ks, k)
		}
		sort.Strings(ks)
		for _, k := range ks {
			fmt.Printf("    %-60s %s\n", k, c08Short(t.Table[k]))
		}
	}
	return t
}

// ---------------------------------------------------------------------------
// one case
// ---------------------------------------------------------------------------

func c08ProcRun(c c08Case) *c08Obs {
	pc := *c.Proc
	obs := &c08Obs{Info: map[string]int{}}
	twin, fresh := c08PTwinOf(pc.Events, true)
	if fresh {
		obs.Runs++
		obs.Requests += twin.Requests
		obs.Info["proc_twins"]++
	}
	own := 0 // findings of the twin are reported with the first case that needs it; they are not part of this case's signature
	if fresh || pc.Req == nil {
		obs.Findings = append(obs.Findings, twin.Findings...)
		own = len(obs.Findings)
	}
	finish := func(p *c08PEnv) *c08Obs {
		sg := sha256.New()
		for _, x := range obs.Classes {
			sg.Write([]byte(x))
		}
		if p != nil {
			for _, x := range p.ans {
				sg.Write([]byte(x))
			}
			for _, x := range p.vec {
				sg.Write([]byte(x))
			}
		}
		for _, f := range obs.Findings[own:] {
			sg.Write([]byte(f.Clause + f.Detail))
		}
		obs.Sig = hex.EncodeToString(sg.Sum(nil))
		return obs
	}
	if pc.Req == nil || len(twin.Vec) != len(pc.Events)+3 {
		return finish(nil) // twin only, or the twin did not get through its blocks (reported above)
	}
	r := *pc.Req
	t0 := time.Now()
	p := c08PNewEnv(pc, obs)
	obs.Runs++
	t1 := time.Now()
	p.plan()
	t2 := time.Now()
	n := p.n
	issued := false
	at := func(k int) {
		if k != pc.Point {
			return
		}
		issued = true
		obs.States = append(obs.States, fmt.Sprintf("proc:%s/%d/%d", strings.Join(pc.Events, ","), k, pc.Height))
		where := fmt.Sprintf("%s %s (query height %d)", r, c08PPointName(n, k), p.reqHeight(r, pc.Height))
		b := p.build(r, c08WCheck)
		s0 := p.snap()
		rp := p.exec(r, b, p.reqHeight(r, pc.Height))
		s1 := p.snap()
		obs.Requests++
		ans := c08PAnswer(r, rp)
		p.ans = append(p.ans, ans)
		obs.Classes = append(obs.Classes, fmt.Sprintf("proc-%s@%d=%s", r, k, rp.Class))
		if rp.NA != "" {
			return
		}
		// (a)
		if d := world.Diff(s0.Root, s1.Root); len(d) > 0 {
			p.fail("request-leaves-root-stores-unchanged", "", "%s changed the root multistore: %s", where, c08DiffString(d))
		}
		if !bytes.Equal(s0.Commit.Hash, s1.Commit.Hash) || s0.Commit.Version != s1.Commit.Version || s0.Height != s1.Height {
			p.fail("request-leaves-last-commit-unchanged", "", "%s: LastCommitID %d/%x -> %d/%x", where, s0.Commit.Version, s0.Commit.Hash, s1.Commit.Version, s1.Commit.Hash)
		}
		cd := world.Diff(s0.Check, s1.Check)
		switch r.Kind {
		case "checktx", "recheck":
			p.checkTxOracle(where, r, b, rp, s0, s1, cd)
		default:
			if len(cd) > 0 {
				p.fail("query-and-simulation-leave-check-state-unchanged", "", "%s changed the check state: %s", where, c08DiffString(cd))
			}
		}
		// (d3)
		if r.isQuery() {
			hh := p.reqHeight(r, pc.Height)
			if hh == 0 {
				hh = p.w.App.LastBlockHeight()
			}
			want, ok := twin.Table[c08PKey(r, hh)]
			if !ok {
				p.fail("alphabet-sanity", "", "%s: no reference answer for height %d", where, hh)
			} else if want != ans {
				p.fail("answer-is-a-function-of-height-and-request", "", "%s: the answer differs from the answer to the same request pinned to height %d given by a fresh application after all %d blocks and every other request: %s",
					where, hh, n+4, c08Delta(ans, want))
			}
			obs.Info["proc_answers_compared_with_reference"]++
		}
	}
	if !p.runBlocks(at) {
		return finish(p)
	}
	t3 := time.Now()
	defer func() {
		if os.Getenv("C08_VERBOSE") != "" { // debugging aid only: never part of a verdict
			fmt.Printf("  timing: world %v plan %v blocks+request %v probes %v\n", t1.Sub(t0), t2.Sub(t1), t3.Sub(t2), time.Since(t3))
		}
	}()
	if !issued {
		p.fail("alphabet-sanity", "", "point %d does not exist in a history of %d events", pc.Point, n)
	}
	// (d1)
	if d := c08PVecDiff(twin.Vec, p.vec); d != "" {
		p.fail("later-blocks-unaffected-by-request", "", "%s: %s", c08PWhere(pc), d)
	}
	// (d2)
	last := int64(n + 4)
	probe := func(key string, rq c08Req, hh int64, sender int) {
		a, _ := p.ask(rq, hh, sender)
		want, ok := twin.Table[key]
		if !ok {
			p.fail("alphabet-sanity", "", "no reference answer for probe %s", key)
		} else if want != a {
			p.fail("later-answers-unaffected-by-request", "", "%s: after the last block %s (height %d) is answered differently than by an application that never served the request: %s",
				c08PWhere(pc), rq, hh, c08Delta(a, want))
		}
		obs.Info["proc_probes_compared"]++
	}
	// Simulate runs on the check state, which an admitted CheckTx legitimately changes until the next Commit (fee paid, the
	// mempool's view): after a CheckTx / Recheck issued after the last Commit the Simulate probes are not comparable
	if !((r.Kind == "checktx" || r.Kind == "recheck") && pc.Point >= 2*(n+2)) {
		for _, rq := range c08PSimProbes() {
			probe("final:"+rq.String(), rq, 0, c08PWProbe)
		}
	}
	if pc.Full {
		for _, rq := range c08PQueries(false) {
			for hh := int64(1); hh <= last; hh++ {
				probe(c08PKey(rq, hh), rq, hh, 0)
			}
		}
		for _, rq := range c08PTraces(n, false) {
			probe(c08PKey(rq, p.reqHeight(rq, 0)), rq, p.reqHeight(rq, 0), 0)
		}
	} else {
		hs := []int64{last, 2}
		for _, hh := range hs {
			for _, rq := range c08PCoreProbes() {
				probe(c08PKey(rq, hh), rq, hh, 0)
			}
		}
	}
	return finish(p)
}

// c08PVecDiff is c08VecDiff that names the first transaction executed differently rather than the application hash.
func c08PVecDiff(a, b []string) string {
	for i := 0; i < len(a) && i < len(b); i++ {
		if a[i] == b[i] {
			continue
		}
		la, lb := strings.Split(a[i], "\n"), strings.Split(b[i], "\n")
		for j := 1; j < len(la) && j < len(lb); j++ {
			if la[j] != lb[j] {
				k := 0
				for k < len(la[j]) && k < len(lb[j]) && la[j][k] == lb[j][k] {
					k++
				}
				lo := k - 60
				if lo < 0 {
					lo = 0
				}
				cut := func(s string) string {
					hi := k + 100
					if hi > len(s) {
						hi = len(s)
					}
					return s[lo:hi]
				}
				return fmt.Sprintf("block at height %d, %s: without the request …%s… with the request …%s…", i+2, strings.SplitN(la[j], " ", 2)[0], cut(la[j]), cut(lb[j]))
			}
		}
		break
	}
	return c08VecDiff(a, b)
}

func c08PWhere(pc c08ProcCase) string {
	return fmt.Sprintf("request %s (query height %d) issued %s", pc.Req, pc.Height, c08PPointName(len(pc.Events), pc.Point))
}

// ---------------------------------------------------------------------------
// enumeration
// ---------------------------------------------------------------------------

// c08PFamily groups the events by what they change: the precompile registry, contract code, parameters of execution.
var c08PFamily = map[string]int{"cpc-deploy": 0, "gov-cpc-params": 0, "contract-create": 1, "contract-selfdestruct": 1, "gov-evm-params": 2, "gov-feemarket-params": 2}

// c08PHistories: quick — every single event; thorough — also pairs of distinct events in consecutive blocks: both orders for
// two events of the same family, alphabet order for events of different families.
func c08PHistories(thorough bool) [][]string {
	var out [][]string
	for _, e := range c08PEvents {
		out = append(out, []string{e})
	}
	if thorough {
		for i, a := range c08PEvents[1:] {
			for j, b := range c08PEvents[1:] {
				if a != b && (i < j || c08PFamily[a] == c08PFamily[b]) {
					out = append(out, []string{a, b})
				}
			}
		}
	}
	return out
}

// c08PHeights: the query heights explored at point k of a history with n events (0 = unpinned). Quick: unpinned; from
// Commit(3) on the height before the first event (2); from Commit(4) on the height of the first event (3).
func c08PHeights(n, k int, all bool) []int64 {
	latest := int64(2 + k/2)
	if all {
		out := []int64{0}
		for hh := int64(1); hh <= latest; hh++ {
			out = append(out, hh)
		}
		return out
	}
	out := []int64{0}
	if latest > 2 {
		out = append(out, 2)
	}
	if k >= 4 {
		out = append(out, 3)
	}
	return out
}

// c08ProcCases enumerates the pass (history by history) and assigns every case a shard: contiguous blocks of equal size, so
// that a process meets few histories (it computes the twin of each history it meets once).
func c08ProcCases(thorough bool, shards int) (cases []c08Case, shardOf []int) {
	hs := c08PHistories(thorough)
	add := func(pc c08ProcCase) {
		x := pc
		cases = append(cases, c08Case{Proc: &x})
	}
	defer func() {
		for t := range cases {
			shardOf = append(shardOf, t*shards/len(cases))
		}
	}()
	for _, evs := range hs {
		n := len(evs)
		pair := n > 1
		// thorough, single events: the whole alphabet at every point and every height, full probes; pairs of events: the quick
		// alphabet at every point with the quick height rule; quick: points up to "before FinalizeBlock(U2)"
		big := thorough && !pair
		points := 2*(n+2) + 1
		if !thorough {
			points = 2*(n+1) + 1
		}
		add(c08ProcCase{Events: evs}) // the twin with its sanity clauses
		for k := 0; k < points; k++ {
			latest := int64(2 + k/2)
			for _, r := range c08PQueries(big) {
				for _, hh := range c08PHeights(n, k, big) {
					rr := r
					add(c08ProcCase{Events: evs, Req: &rr, Point: k, Height: hh, Full: big})
				}
			}
			if k == 0 && !big {
				continue // before the first event block only queries: the other requests at that point are the main pass's
			}
			for _, r := range c08PTraces(n, big) {
				if int64(r.Block+2)-1 > latest {
					continue // the state before the traced block is not committed yet
				}
				rr := r
				add(c08ProcCase{Events: evs, Req: &rr, Point: k, Full: big})
			}
			for _, r := range c08PTxReqs(big) {
				rr := r
				add(c08ProcCase{Events: evs, Req: &rr, Point: k, Full: big})
			}
		}
	}
	return cases, shardOf
}

// c08PRule describes the bounded space of the pass for the evidence file.
func c08PRule(thorough bool) string {
	var evs []string
	for _, h := range c08PHistories(thorough) {
		evs = append(evs, strings.Join(h, "+"))
	}
	sort.Strings(evs)
	bz, _ := json.Marshal(c08PEvents)
	return fmt.Sprintf("process-state pass: %d histories (pre block, one block per event of %s%s, two use blocks of %d transactions) × one request of {%d eth_call / estimateGas / gRPC queries, %d TraceTx / TraceBlock, %d CheckTx New / Recheck / Simulate / /app/simulate} "+
		"× every point {before FinalizeBlock(b), between FinalizeBlock(b) and Commit(b)} of the blocks after the pre block%s (quick: before FinalizeBlock(3) queries only) × query heights {%s}; each run compared with its twin without request on every block result and on %s after the last block, and the answer with the twin's answer to the same bytes at the same height",
		len(evs), bz, map[bool]string{false: "", true: "; every single event and pairs of distinct events in consecutive blocks (both orders within the families {registry, code, parameters}, one order across families)"}[thorough], len(c08PUse),
		len(c08PQueries(thorough)), len(c08PTraces(1, thorough)), len(c08PTxReqs(thorough)),
		map[bool]string{false: " up to before FinalizeBlock(U2)", true: " and after the last Commit"}[thorough],
		map[bool]string{false: "unpinned; 2 (before the first event) from Commit(3) on; 3 from Commit(4) on", true: "unpinned and every committed height (single events); the quick rule (pairs of events)"}[thorough],
		map[bool]string{false: "7 queries at the last height and at height 2 plus 2 Simulate probes", true: "the 17 queries and 3 traces of the quick alphabet at every height plus 2 Simulate probes (single events), the core list (pairs)"}[thorough])
}
