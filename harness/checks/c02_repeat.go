package checks

// C02 spaces "repeat" and "repeat-tree": REPEATED operations on the SAME account inside one transaction, with value
// moving in between and the intermediate states observed.
//
// The tree alphabet gets breadth: a parent frame (the orchestrator) calls the same child frame contract k times, call i
// carrying value v_i, and after every call it observes BALANCE / EXTCODESIZE / EXTCODEHASH of every contract of the cast
// and BALANCE of the beneficiary; all observations (and the success flag and return word of every call) are result words
// of the orchestrator, i.e. part of the return data of the transaction, and the children log their own SELFBALANCE. So
// the state after step i of the sequence is compared with go-ethereum's, not only the state after the transaction.
//
//	repeat      = cast programs written for the purpose (self-destruct to {EOA, itself, its caller, an unused address,
//	              a precompile, a sibling}, SSTORE / LOG(SELFBALANCE) first, return SELFBALANCE, forward the balance by
//	              CALL, self-destruct through DELEGATECALL) x value vectors {0,v_i}^k x child {standing contract,
//	              deployed by CREATE / CREATE2 in the same transaction} x child {empty, pre-funded} x orchestrator {the
//	              root frame, a sub-frame that returns, a sub-frame that reverts - after which the root observes and
//	              pays the child again} [x a second transaction that observes and pays the child again]
//	repeat-tree = the tree2 space with the CALL repeated: every child frame of <= 2 gadgets of the small alphabet called
//	              k times by the root with every value vector
//
// The oracle is the one of every C02 space (c02Ev.eval).

import (
	"fmt"

	"github.com/ethereum/go-ethereum/common"
	ethcrypto "github.com/ethereum/go-ethereum/crypto"
)

// c02RepProg is one cast: the programs of the contracts the orchestrator calls. Inside a cast program the target
// "sib:N" names member N of the cast.
type c02RepProg struct {
	Name  string
	Cast  []*c02Frame
	Benef string // who receives what the cast gives away, as a target of the orchestrator ("" = a member of the cast / nobody)
}

// value carried by call i of a sequence when the value vector selects "> 0": distinct sums for distinct subsets of
// the first three calls, total of four calls = 5 = what the root contract holds before the transaction
var c02RepVals = []uint64{1, 2, 1, 1}

const c02RepTxValue = 3 // every transaction of the space carries 3 wei to the root contract

func c02RepProgs() []c02RepProg {
	f := func(g ...c02Gadget) *c02Frame { return &c02Frame{G: g} }
	var out []c02RepProg
	// SELFDESTRUCT(beneficiary), bare / after an SSTORE / after logging the own balance
	for _, b := range []struct{ tgt, seen string }{{"eoa", "eoa"}, {"self", ""}, {"caller", "self"}, {"never", "never"}, {"ecrec", "ecrec"}} {
		sd := c02Gadget{Op: "selfdestruct", Tgt: b.tgt}
		out = append(out,
			c02RepProg{"sd-" + b.tgt, []*c02Frame{f(sd)}, b.seen},
			c02RepProg{"sstore-sd-" + b.tgt, []*c02Frame{f(c02Gadget{Op: "sstore", K: 0, V: 1}, sd)}, b.seen},
			c02RepProg{"logbal-sd-" + b.tgt, []*c02Frame{f(c02Gadget{Op: "logbal"}, sd)}, b.seen})
	}
	// no destruction: the child reports / forwards what it holds
	out = append(out, c02RepProg{"selfbalance", []*c02Frame{f(c02Gadget{Op: "selfbalance"})}, ""})
	for _, b := range []struct{ tgt, seen string }{{"eoa", "eoa"}, {"caller", "self"}, {"never", "never"}} {
		out = append(out, c02RepProg{"forward-" + b.tgt, []*c02Frame{f(c02Gadget{Op: "logbal"}, c02Gadget{Op: "call", Kind: "call", Tgt: b.tgt, ValBal: true, Gas: "all"}, c02Gadget{Op: "selfbalance"})}, b.seen})
	}
	// forward first, then self-destruct what is left (nothing)
	out = append(out, c02RepProg{"forward-then-sd", []*c02Frame{f(c02Gadget{Op: "call", Kind: "call", Tgt: "eoa", ValBal: true, Gas: "all"}, c02Gadget{Op: "selfdestruct", Tgt: "caller"})}, "eoa"})
	// the child self-destructs through a library (DELEGATECALL): the marked account is the child, the code is not its own
	out = append(out, c02RepProg{"delegate-sd", []*c02Frame{f(c02Gadget{Op: "logbal"}, c02Gadget{Op: "call", Kind: "delegatecall", Tgt: "child", Gas: "all", Child: f(c02Gadget{Op: "selfdestruct", Tgt: "eoa"})})}, "eoa"})
	// two contracts: value comes back to an already destroyed contract from its sibling (by SELFDESTRUCT / by CALL)
	out = append(out,
		c02RepProg{"pingpong-sd", []*c02Frame{f(c02Gadget{Op: "logbal"}, c02Gadget{Op: "selfdestruct", Tgt: "sib:1"}), f(c02Gadget{Op: "logbal"}, c02Gadget{Op: "selfdestruct", Tgt: "sib:0"})}, ""},
		c02RepProg{"sd-then-refund-by-call", []*c02Frame{f(c02Gadget{Op: "logbal"}, c02Gadget{Op: "selfdestruct", Tgt: "eoa"}), f(c02Gadget{Op: "call", Kind: "call", Tgt: "sib:0", ValBal: true, Gas: "all"})}, "eoa"},
		c02RepProg{"sd-to-sibling-that-forwards", []*c02Frame{f(c02Gadget{Op: "selfdestruct", Tgt: "sib:1"}), f(c02Gadget{Op: "call", Kind: "call", Tgt: "sib:0", ValBal: true, Gas: "all"}, c02Gadget{Op: "selfbalance"})}, ""})
	return out
}

// c02RepSpec selects one case of the space "repeat".
type c02RepSpec struct {
	Prog     c02RepProg
	Sel      []bool // call i carries c02RepVals[i] (true) or nothing (false); len = k
	Setting  string // standing | create | create2 (single-member casts only)
	Wrap     string // "" (the root frame is the orchestrator) | call | delegatecall | callcode: a sub-frame is
	Revert   bool   // with Wrap: the sub-frame ends in REVERT
	ChildBal uint64
	X        string
	Second   bool // a second transaction observes and pays member 0 again
	CallGas  string
	Tx       c02Tx
}

// number of child frame contracts compiling f allocates (every CALL-kind gadget with target "child", recursively)
func c02CountChildren(f *c02Frame) int {
	n := 0
	for _, g := range f.G {
		if g.Op == "call" && g.Tgt == "child" {
			n++
		}
		if g.Child != nil {
			n += c02CountChildren(g.Child)
		}
	}
	return n
}

// c02Resolve copies f with every target "sib:N" replaced by tgt[N].
func c02Resolve(f *c02Frame, tgt []string) *c02Frame {
	out := &c02Frame{}
	for _, g := range f.G {
		var n int
		if _, err := fmt.Sscanf(g.Tgt, "sib:%d", &n); err == nil {
			g.Tgt = tgt[n]
		}
		if g.Child != nil {
			g.Child = c02Resolve(g.Child, tgt)
		}
		out.G = append(out.G, g)
	}
	return out
}

func c02Observe(members []string, benef string) []c02Gadget {
	var out []c02Gadget
	for _, m := range members {
		out = append(out, c02Gadget{Op: "balance", Tgt: m}, c02Gadget{Op: "extcodesize", Tgt: m}, c02Gadget{Op: "extcodehash", Tgt: m})
	}
	if benef != "" {
		out = append(out, c02Gadget{Op: "balance", Tgt: benef})
	}
	return out
}

// c02RepeatCase builds the program tree of one spec.
func c02RepeatCase(s c02RepSpec) *c02Case {
	base := 0
	if s.Wrap != "" {
		base = 1 // child 0 is the sub-frame
	}
	created := s.Setting != "standing"
	if created && len(s.Prog.Cast) != 1 {
		panic("created setting with several cast members")
	}
	gas := s.CallGas
	if gas == "" {
		gas = "all"
	}
	// static addresses of the cast: child indices in pre-order of the first call
	idx := make([]int, len(s.Prog.Cast))
	static := make([]string, len(s.Prog.Cast))
	next := base
	for m, fr := range s.Prog.Cast {
		if created {
			idx[m] = -1
			continue
		}
		idx[m] = next
		static[m] = fmt.Sprintf("#%d", next)
		next += 1 + c02CountChildren(fr)
	}
	build := func(createdAddr string) (orch *c02Frame, members []string) {
		members = append([]string{}, static...)
		if created {
			members[0] = createdAddr
		}
		cast := make([]*c02Frame, len(s.Prog.Cast))
		for m, fr := range s.Prog.Cast {
			cast[m] = c02Resolve(fr, members)
		}
		orch = &c02Frame{}
		inOrch := append([]string{}, members...)
		if created {
			orch.G = append(orch.G, c02Gadget{Op: s.Setting, Child: cast[0]})
			inOrch[0] = "@0" // the orchestrator calls what CREATE returned
		}
		called := map[int]bool{}
		for i, sel := range s.Sel {
			m := i % len(cast)
			call := c02Gadget{Op: "call", Kind: "call", Tgt: inOrch[m], Gas: gas}
			if sel {
				call.Val = c02RepVals[i]
			}
			if !created && !called[m] {
				call.Tgt, call.Child = "child", cast[m]
			}
			called[m] = true
			orch.G = append(orch.G, call)
			orch.G = append(orch.G, c02Observe(inOrch, s.Prog.Benef)...)
		}
		return orch, members
	}
	wrapRoot := func(orch *c02Frame, members []string) *c02Frame {
		if s.Wrap == "" {
			return orch
		}
		if s.Revert {
			orch.G = append(orch.G, c02Gadget{Op: "revert"})
		}
		w := c02Gadget{Op: "call", Kind: s.Wrap, Tgt: "child", Gas: "all", Child: orch, Out: c02FrameWords(orch)}
		if s.Wrap == "call" || s.Wrap == "callcode" {
			w.Val = 5
		}
		root := &c02Frame{G: []c02Gadget{w}}
		// after the sub-frame: the root observes, pays member 0 again and observes again
		root.G = append(root.G, c02Observe(members, s.Prog.Benef)...)
		root.G = append(root.G, c02Gadget{Op: "call", Kind: "call", Tgt: members[0], Val: 1, Gas: "all"})
		root.G = append(root.G, c02Observe(members, s.Prog.Benef)...)
		return root
	}
	createdAddr := ""
	if created {
		// the address of the deployed child: compile once with a placeholder to learn the init code
		orch, members := build(c02Never.Hex())
		_, cc := c02CompileCC(wrapRoot(orch, members), nil)
		creator := c02T
		if s.Wrap == "call" {
			creator = c02ChildAddr(0)
		}
		if s.Setting == "create" {
			createdAddr = ethcrypto.CreateAddress(creator, 1).Hex()
		} else {
			createdAddr = ethcrypto.CreateAddress2(creator, [32]byte{}, ethcrypto.Keccak256(cc.Inits[0])).Hex()
		}
	}
	orch, members := build(createdAddr)
	c := &c02Case{Space: "repeat", Flavour: "bech32", Slot0: 1, X: s.X, P: wrapRoot(orch, members), Tx: s.Tx, ChildBal: s.ChildBal}
	if s.Second {
		q := &c02Frame{G: c02Observe(members, s.Prog.Benef)}
		q.G = append(q.G, c02Gadget{Op: "call", Kind: "call", Tgt: members[0], Val: 1, Gas: "all"})
		q.G = append(q.G, c02Observe(members, s.Prog.Benef)...)
		c.Q = q
	}
	return c
}

// every {false,true}^k, all-false first
func c02Selections(k int) [][]bool {
	var out [][]bool
	for bits := 0; bits < 1<<k; bits++ {
		sel := make([]bool, k)
		for i := range sel {
			sel[i] = bits&(1<<(k-1-i)) != 0
		}
		out = append(out, sel)
	}
	return out
}

var c02RepTx = c02Tx{Type: "legacy", Gas: "1M", Value: c02RepTxValue}

// c02EnumerateRepeat yields the cases of the spaces "repeat" and "repeat-tree".
func c02EnumerateRepeat(thorough bool, yield func(c *c02Case)) {
	ks := []int{2, 3}
	if thorough {
		ks = []int{2, 3, 4}
	}
	type wrap struct {
		kind   string
		revert bool
	}
	wraps := []wrap{{"", false}, {"call", false}, {"call", true}}
	if thorough {
		wraps = append(wraps, wrap{"delegatecall", false}, wrap{"delegatecall", true}, wrap{"callcode", true})
	}
	for _, p := range c02RepProgs() {
		settings := []string{"standing"}
		if len(p.Cast) == 1 {
			settings = []string{"standing", "create", "create2"}
		}
		xs := []string{"funded"}
		if thorough && (p.Benef == "eoa") {
			xs = c02Xs
		}
		for _, k := range ks {
			for _, sel := range c02Selections(k) {
				for _, set := range settings {
					for _, w := range wraps {
						for _, bal := range []uint64{0, 3} {
							for _, x := range xs {
								spec := c02RepSpec{Prog: p, Sel: sel, Setting: set, Wrap: w.kind, Revert: w.revert, ChildBal: bal, X: x, Tx: c02RepTx}
								// the second transaction: quick = after the plain orchestrator, thorough = always
								spec.Second = thorough || w.kind == ""
								yield(c02RepeatCase(spec))
								if thorough && x == "funded" && bal == 0 {
									// the sequence under an access-list transaction that pre-warms the root, and with calls that
									// hand over 2300 gas only (enough for the reporting children, not for SELFDESTRUCT)
									s2 := spec
									s2.Tx = c02Tx{Type: "al-target", Gas: "1M", Value: c02RepTxValue}
									s2.Second = false
									yield(c02RepeatCase(s2))
									if k < 4 {
										s3 := spec
										s3.CallGas, s3.Second = "2300", false
										yield(c02RepeatCase(s3))
									}
								}
							}
						}
					}
				}
			}
		}
	}
	// repeat-tree: every child frame of the tree2 space, called k times by the root
	childFrames := c02Frames(c02SmallAlphabet(), 2)
	obs := func() []c02Gadget { return c02Observe([]string{"again"}, "") }
	for _, k := range ks {
		for _, sel := range c02Selections(k) {
			for _, bal := range []uint64{0, 3} {
				if bal != 0 && !thorough {
					continue
				}
				for _, ch := range childFrames {
					root := &c02Frame{}
					for i, s := range sel {
						call := c02Gadget{Op: "call", Kind: "call", Tgt: "again", Gas: "all"}
						if i == 0 {
							call.Tgt, call.Child = "child", ch
						}
						if s {
							call.Val = c02RepVals[i]
						}
						root.G = append(root.G, call)
						root.G = append(root.G, obs()...)
					}
					yield(&c02Case{Space: "repeat-tree", Flavour: "bech32", Slot0: 1, X: "funded", P: root, Tx: c02RepTx, ChildBal: bal})
				}
			}
		}
	}
}

// c02RepeatBlockProgs: a few sequences for the block pass (complete FinalizeBlock, non-zero prices); standing, empty
// children only - the root contract holds 5 wei there and the transaction forms carry 0 or 1 wei.
func c02RepeatBlockProgs(thorough bool) []*c02Frame {
	var out []*c02Frame
	for _, p := range c02RepProgs() {
		switch p.Name {
		case "sd-eoa", "sd-self", "logbal-sd-caller", "sstore-sd-never", "selfbalance", "forward-caller", "pingpong-sd", "sd-then-refund-by-call":
		default:
			if !thorough {
				continue
			}
		}
		sels := [][]bool{{true, true, true}}
		if thorough {
			sels = append(sels, []bool{false, true, true}, []bool{true, true})
		}
		for _, sel := range sels {
			out = append(out, c02RepeatCase(c02RepSpec{Prog: p, Sel: sel, Setting: "standing", X: "funded", Tx: c02RepTx}).P)
		}
	}
	return out
}

// c02RepeatSanity: sequences whose observations are known by hand (both sides must report exactly these words).
func c02RepeatSanity() []c02Sanity {
	find := func(name string) c02RepProg {
		for _, p := range c02RepProgs() {
			if p.Name == name {
				return p
			}
		}
		panic(name)
	}
	all3 := []bool{true, true, true}
	w := func(v ...uint64) map[int]uint64 {
		m := map[int]uint64{}
		for i := 0; i+1 < len(v); i += 2 {
			m[int(v[i])] = v[i+1]
		}
		return m
	}
	return []c02Sanity{
		// child returns SELFBALANCE: 1, 3, 4. Words per step: flag, out, balance, extcodesize, extcodehash
		{c: c02RepeatCase(c02RepSpec{Prog: find("selfbalance"), Sel: all3, Setting: "standing", X: "funded", Tx: c02RepTx}), class: "ok",
			words: w(0, 1, 1, 1, 2, 1, 5, 1, 6, 3, 7, 3, 10, 1, 11, 4, 12, 4)},
		// child self-destructs to the funded EOA (10 wei): after every step the child holds 0 and still has its code;
		// the EOA holds 11, 13, 14. Words per step: flag, out, balance, extcodesize, extcodehash, balance(eoa)
		{c: c02RepeatCase(c02RepSpec{Prog: find("sd-eoa"), Sel: all3, Setting: "standing", X: "funded", Tx: c02RepTx}), class: "ok",
			words: w(0, 1, 2, 0, 5, 11, 6, 1, 8, 0, 11, 13, 12, 1, 14, 0, 17, 14)},
		// the same with a pre-funded child created in the same transaction: 3 + 1, then 2, then 1
		{c: c02RepeatCase(c02RepSpec{Prog: find("sd-eoa"), Sel: all3, Setting: "create2", ChildBal: 3, X: "funded", Tx: c02RepTx}), class: "ok",
			words: w(1, 1, 3, 0, 6, 14, 7, 1, 9, 0, 12, 16, 13, 1, 15, 0, 18, 17)},
	}
}

var _ = common.Address{}
