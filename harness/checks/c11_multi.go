package checks

// C11 — reward-state family. The twin-branch BFS of c11_run.go starts from a root in which every stake is a whole
// number of coins (or one wei) and every reward allocation is 3e18: per-delegator rewards are integers there, and the
// only delegator with two delegations has an integer reward at one of them. The view clause ("the view methods report
// the same numbers as the native queries") and the withdraw twins say nothing about rounding in such states.
//
// This file adds a second state alphabet, explored exhaustively as a product:
//
//	layout    who has delegated how much to which validators before rewards arrive: native MsgDelegate steps of
//	          B (no stake at the root), contract C (1e18 at V2 at the root) and A (1e18 at V1, 1 wei at V2 at the root) with
//	          stakes that are odd multiples of 1e17 (3, 5, 7, 11 tenths of a coin), at 2 and at 3 validators at once,
//	          several delegators per validator;
//	schedule  how rewards arrive after that: blocks that begin with fees of two denoms in the fee collector (the real
//	          x/distribution BeginBlocker: community tax, power fractions, DecCoins), direct allocations of round and
//	          of odd amounts to one, two or three validators, fees in the non-bond denom only, a second delegation
//	          between two reward steps;
//	world     plain / V2 slashed by 50 % (one share ≠ one token).
//
// Every state on the way (after every layout and schedule step) has all views of all accounts compared with the native
// gRPC queries; from the final state of every (layout, schedule) pair the twin-branch BFS runs with an alphabet of
// withdraw / delegate / undelegate / redelegate / transfer operations by the delegators concerned. Everything is a path
// of c11Op from the root, so a finding replays like any other C11 finding.
//
// Which shapes of pending rewards the product reached (delegator with rewards at n validators, fractional parts adding
// up to <1, exactly 1, between 1 and 2, >2; one or two denoms) is measured from the native query's answer and the
// classes the task needs are required to be non-empty (alphabet-sanity).

import (
	"fmt"
	"os"
	"strings"

	distrtypes "github.com/cosmos/cosmos-sdk/x/distribution/types"
	"github.com/ethereum/go-ethereum/common"

	"verif/harness/ev"
	"verif/harness/world"
)

type c11Layout struct {
	Name string
	Ops  []c11Op
}

func c11NativeDelegate(caller, v, amt string) c11Op {
	return c11Op{M: "native", Caller: caller, Act: "Delegate", V: v, Amt: amt}
}

// c11StakeVec turns a vector of hundredths of a coin per validator into native delegations of one delegator.
func c11StakeVec(caller string, hundredths [3]int) []c11Op {
	var ops []c11Op
	for i, t := range hundredths {
		if t > 0 {
			ops = append(ops, c11NativeDelegate(caller, fmt.Sprintf("V%d", i+1), fmt.Sprintf("%de16", t)))
		}
	}
	return ops
}

func c11VecName(who string, t [3]int) string {
	return fmt.Sprintf("%s(%d,%d,%d)", strings.TrimSuffix(who, "-call"), t[0], t[1], t[2])
}

type c11Stake struct {
	who string
	t   [3]int
}

// c11Layouts enumerates the delegation layouts. level 0 = quick, 1 = thorough, 2 = the layouts with several delegators
// per validator only (deeper search).
//
// Stakes are in hundredths of a coin: 50 (rewards in halves of a base unit: fractional parts can add up to exactly 1),
// 37, 73, 111 (pairwise co-prime, rewards in hundredths). B (no stake at the root, 2 coins): thorough = every vector over
// {0, 50, 37, 73, 111} with at least two validators that B can pay; quick = the vectors over {0, 50, 73} plus four with 37.
// C (1 coin at V2 at the root) and A (1 coin at V1, 1 wei at V2 at the root): a fixed list. Combined layouts put three
// delegators with different stakes on every validator.
func c11Layouts(level int) []c11Layout {
	var out []c11Layout
	add := func(st ...c11Stake) {
		var ops []c11Op
		var nm []string
		for _, x := range st {
			ops = append(ops, c11StakeVec(x.who, x.t)...)
			nm = append(nm, c11VecName(x.who, x.t))
		}
		out = append(out, c11Layout{strings.Join(nm, "+"), ops})
	}
	combos := func() {
		add(c11Stake{"B", [3]int{37, 73, 50}}, c11Stake{"C-call", [3]int{73, 37, 50}}, c11Stake{"A", [3]int{111, 50, 37}})
		add(c11Stake{"B", [3]int{50, 50, 50}}, c11Stake{"C-call", [3]int{50, 50, 50}}, c11Stake{"A", [3]int{50, 50, 50}})
		if level > 0 {
			add(c11Stake{"B", [3]int{37, 73, 50}}, c11Stake{"C-call", [3]int{73, 0, 37}})
		}
	}
	if level == 2 {
		combos()
		return out
	}
	units := []int{0, 50, 73}
	if level > 0 {
		units = []int{0, 50, 37, 73, 111}
	}
	for _, a := range units {
		for _, b := range units {
			for _, c := range units {
				t := [3]int{a, b, c}
				nz := 0
				for _, x := range t {
					if x > 0 {
						nz++
					}
				}
				if nz < 2 || a+b+c > 200 {
					continue
				}
				add(c11Stake{"B", t})
			}
		}
	}
	if level == 0 {
		for _, t := range [][3]int{{37, 73, 50}, {37, 0, 73}, {0, 37, 50}, {37, 37, 37}} {
			add(c11Stake{"B", t})
		}
		add(c11Stake{"C-call", [3]int{50, 0, 50}})
		add(c11Stake{"C-call", [3]int{73, 37, 50}})
		add(c11Stake{"A", [3]int{37, 50, 111}})
	} else {
		for _, x := range []c11Stake{
			{"C-call", [3]int{50, 0, 50}}, {"C-call", [3]int{37, 73, 0}}, {"C-call", [3]int{73, 37, 50}}, {"C-call", [3]int{50, 50, 50}},
			{"A", [3]int{0, 0, 73}}, {"A", [3]int{50, 50, 50}}, {"A", [3]int{37, 50, 111}},
		} {
			add(x)
		}
	}
	combos()
	return out
}

// c11Schedules enumerates the reward schedules (run after a layout). level 0 = quick, 1 = thorough.
func c11Schedules(level int) []c11Layout {
	fees := func(k string) c11Op { return c11Op{M: "env-fees", Amt: k} }
	rw := func(v, k string) c11Op { return c11Op{M: "env-reward", V: v, Amt: k} }
	blk := c11Op{M: "env-block"}
	out := []c11Layout{
		{"fees(a)", []c11Op{fees("a")}},
		{"block;3e18→V1,V2,V3", []c11Op{blk, rw("V1", ""), rw("V2", ""), rw("V3", "")}},
		{"block;odd→V1,odd2→V2,3e18→V3", []c11Op{blk, rw("V1", "odd"), rw("V2", "odd2"), rw("V3", "")}},
		{"fees(a);fees(b)", []c11Op{fees("a"), fees("b")}},
		{"block;odd→V1,V2", []c11Op{blk, rw("V1", "odd"), rw("V2", "odd")}},
		{"fees(u)", []c11Op{fees("u")}},
		{"fees(b);B+3e16→V1;fees(a)", []c11Op{fees("b"), c11NativeDelegate("B", "V1", "3e16"), fees("a")}},
	}
	if level > 0 {
		out = append(out,
			c11Layout{"block;odd2→V1,odd→V2,odd2→V3", []c11Op{blk, rw("V1", "odd2"), rw("V2", "odd"), rw("V3", "odd2")}},
			c11Layout{"block;3e18→V1,odd→V3", []c11Op{blk, rw("V1", ""), rw("V3", "odd")}},
			c11Layout{"fees(b)", []c11Op{fees("b")}},
			c11Layout{"fees(u);fees(a)", []c11Op{fees("u"), fees("a")}},
			c11Layout{"fees(a);odd→V2;fees(b);odd2→V3", []c11Op{fees("a"), rw("V2", "odd"), fees("b"), rw("V3", "odd2")}},
			c11Layout{"fees(a);C undelegates 1 from V2;fees(b)", []c11Op{fees("a"), {M: "native", Caller: "C-call", Act: "Undelegate", V: "V2", Amt: "1"}, fees("b")}},
		)
	}
	return out
}

// c11RewardAlphabet is the operation alphabet run from every state of the family. level 0 = quick, 1 = thorough.
func c11RewardAlphabet(level int) []c11Op {
	var ops []c11Op
	callers := []string{"B", "C-call", "A"}
	for _, c := range callers {
		ops = append(ops, c11Op{M: "withdrawRewards", Caller: c})
		for _, v := range []string{"V1", "V2", "V3"} {
			ops = append(ops, c11Op{M: "withdrawReward", Caller: c, V: v})
		}
		// transfer(self) withdraws everything first; delegating pays out the pending reward at that validator
		ops = append(ops,
			c11Op{M: "transfer", Caller: c, To: "self", Amt: "1"},
			c11Op{M: "delegate", Caller: c, V: "V1", Amt: "1"})
		if level > 0 {
			ops = append(ops,
				c11Op{M: "undelegate", Caller: c, V: "V2", Amt: "1"},
				c11Op{M: "redelegate", Caller: c, V: "V3", W: "V1", Amt: "1e16"},
				c11Op{M: "delegate", Caller: c, V: "V3", Amt: "max"},
				c11Op{M: "undelegate", Caller: c, V: "V1", Amt: "max"},
				c11Op{M: "redelegate", Caller: c, V: "V1", W: "V2", Amt: "max"})
		}
	}
	ops = append(ops,
		c11Op{M: "withdrawRewardsByMessage", Caller: "B", V: "all", Sig: "valid"},
		c11Op{M: "withdrawRewardsByMessage", Caller: "B", V: "V2", Sig: "valid"},
		c11Op{M: "withdrawRewardsByMessage", Caller: "B", V: "all", Sig: "other-delegator-caller-signs"},
		c11Op{M: "withdrawRewards", Caller: "C-deleg"},
		c11Op{M: "withdrawReward", Caller: "D-twice", V: "V1"})
	if level > 0 {
		ops = append(ops,
			c11Op{M: "withdrawRewardsByMessage", Caller: "A", V: "all", Sig: "valid"},
			c11Op{M: "withdrawReward", Caller: "C-deleg", V: "V2"},
			c11Op{M: "env-fees", Amt: "b"}, c11Op{M: "env-reward", V: "V2", Amt: "odd"})
	}
	return ops
}

// c11FamilySearch explores layouts × schedules on one world. Work item = (layout, schedule) pair, dealt round-robin to
// the shards; the layout prefix is walked (without views or counting) by every shard that needs it and checked and
// counted by the shard layoutIndex % n.
func c11FamilySearch(run *ev.Run, cw *c11World, tag string, layouts, schedules []c11Layout, alpha []c11Op, depth, shard, n int, dl *ev.Deadline) (done, total int) {
	total = len(layouts) * len(schedules)
	record := func(op c11Op, fs []ev.Finding, class string) {
		run.Count("transitions", 1)
		run.Count("transitions_"+cw.tag()+"_"+tag+"_prefix", 1)
		run.Outcome(op.M + "/" + class)
		for _, f := range fs {
			run.Fail(f)
		}
	}
	for li, lay := range layouts {
		var base *c11Node // end of the layout, built when the first pair of this layout turns out to be ours
		owner := li%n == shard
		walkLayout := func() *c11Node {
			nd := cw.rootNode()
			mode := c11ViewsNone
			if owner {
				mode = c11ViewsAll
			}
			for _, op := range lay.Ops {
				child, fs, class, _ := cw.step(nd, op, mode)
				if owner {
					record(op, fs, class)
				}
				if class != "env" {
					// a layout step that does nothing (cannot be paid) makes the layout a duplicate of a smaller one
					if owner {
						run.Fail(ev.Finding{Clause: "alphabet-sanity", Detail: fmt.Sprintf("%s: layout %s: step %s is %s", cw.tag(), lay.Name, op, class),
							Replay: map[string]interface{}{"slashed": cw.slashed, "path": child.path}})
					}
					return nil
				}
				nd = child
			}
			return nd
		}
		for si, sch := range schedules {
			if (li*len(schedules)+si)%n != shard {
				continue
			}
			if dl.Hit() {
				run.Coverage["exhaustive"] = false
				run.Note("%s/%s: time budget hit after %d of the shard's (layout, schedule) pairs", cw.tag(), tag, done)
				return done, total
			}
			if base == nil {
				if base = walkLayout(); base == nil {
					break
				}
			}
			nd := base
			ok := true
			for _, op := range sch.Ops {
				child, fs, class, _ := cw.step(nd, op, c11ViewsAll)
				record(op, fs, class)
				if class != "env" {
					run.Fail(ev.Finding{Clause: "alphabet-sanity", Detail: fmt.Sprintf("%s: layout %s, schedule %s: step %s is %s", cw.tag(), lay.Name, sch.Name, op, class),
						Replay: map[string]interface{}{"slashed": cw.slashed, "path": child.path}})
					ok = false
					break
				}
				nd = child
			}
			if !ok {
				continue
			}
			run.Count("reward_family_states_"+cw.tag(), 1)
			for _, a := range []common.Address{cw.A.Eth(), cw.B.Eth(), c11C} {
				qc, _ := nd.ctx.CacheContext()
				if tr, err := cw.dQ.DelegationTotalRewards(qc, c11TotalRewardsReq(a)); err == nil {
					sh := c11RewardShape(tr)
					run.Count("family_delegator_states_with_"+sh, 1)
					if os.Getenv("VERIF_DEBUG") != "" {
						fmt.Fprintf(os.Stderr, "C11-FAMILY %s | %s | %s | %s | %s\n", cw.tag(), lay.Name, sch.Name, cw.name(a), sh)
					}
				}
			}
			run.Distinct(fmt.Sprintf("%x", nd.key[:12]))
			if run.Counter("sampled_family_"+tag) < 1 {
				run.Count("sampled_family_"+tag, 1)
				run.Sample(map[string]interface{}{"world": cw.tag(), "search": tag, "layout": lay.Name, "schedule": sch.Name, "path": nd.path.String()})
			}
			if d, _ := c11SearchFrom(run, cw, tag, nd, alpha, depth, 0, 1, dl); d < depth {
				return done, total
			}
			done++
		}
	}
	return done, total
}

func c11TotalRewardsReq(a common.Address) *distrtypes.QueryDelegationTotalRewardsRequest {
	return &distrtypes.QueryDelegationTotalRewardsRequest{DelegatorAddress: c11AccStr(a)}
}

// familySanity: the new environment steps do what they say, on this world.
func (cw *c11World) familySanity(run *ev.Run) {
	bad := func(f string, a ...interface{}) {
		run.Fail(ev.Finding{Clause: "alphabet-sanity", Detail: cw.tag() + ": " + fmt.Sprintf(f, a...)})
	}
	// B delegates to three validators, a block with fees of two denoms begins: B has fractional rewards in two denoms at
	// three validators by the native query
	p := c11Path{c11NativeDelegate("B", "V1", "37e16"), c11NativeDelegate("B", "V2", "73e16"), c11NativeDelegate("B", "V3", "50e16"), {M: "env-fees", Amt: "a"}}
	nd := cw.rootNode()
	for _, op := range p {
		child, fs, class, _ := cw.step(nd, op, c11ViewsAll)
		for _, f := range fs {
			run.Fail(f)
		}
		if class != "env" {
			bad("%s: step %s is %s", p, op, class)
			return
		}
		nd = child
	}
	c, _ := nd.ctx.CacheContext()
	tr, err := cw.dQ.DelegationTotalRewards(c, c11TotalRewardsReq(cw.B.Eth()))
	if err != nil {
		bad("%s: native query: %v", p, err)
		return
	}
	if len(tr.Rewards) != 3 || len(tr.Total) != 2 {
		bad("%s: B's rewards %s", p, tr.String())
	}
	for _, r := range tr.Rewards {
		if a := r.Reward.AmountOf(world.Denom); a.Equal(a.TruncateDec()) || r.Reward.AmountOf("utwo").IsZero() {
			bad("%s: B's reward %s at %s: integer in the bond denom, or nothing in the second denom", p, r.Reward, r.ValidatorAddress)
		}
	}
	// and withdrawing them by the precompile is the three native messages
	for _, op := range []c11Op{{M: "withdrawRewards", Caller: "B"}, {M: "withdrawReward", Caller: "B", V: "V3"}, {M: "withdrawRewardsByMessage", Caller: "B", V: "all", Sig: "valid"}} {
		_, fs, class, st := cw.step(nd, op, c11ViewsAll)
		for _, f := range fs {
			run.Fail(f)
		}
		want := 3
		if op.V == "V3" {
			want = 1
		}
		if !strings.HasPrefix(class, "ok") || len(st.Twin.Msgs) != want || len(st.Res.Logs) != want {
			bad("%s ; %s: class %s, %d native messages, %d logs", p, op, class, len(st.Twin.Msgs), len(st.Res.Logs))
		}
	}
}
