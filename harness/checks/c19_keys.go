package checks

// C19 (2) address / key encodings and (3) HD derivation.

import (
	"bytes"
	"encoding/hex"
	"fmt"
	"math/big"
	"strings"

	"github.com/cosmos/cosmos-sdk/codec/legacy"
	sdkcrypto "github.com/cosmos/cosmos-sdk/crypto"
	sdkhd "github.com/cosmos/cosmos-sdk/crypto/hd"
	"github.com/cosmos/cosmos-sdk/crypto/keyring"
	cryptotypes "github.com/cosmos/cosmos-sdk/crypto/types"
	sdk "github.com/cosmos/cosmos-sdk/types"
	"github.com/cosmos/cosmos-sdk/types/tx/signing"
	cbip39 "github.com/cosmos/go-bip39"
	"github.com/ethereum/go-ethereum/common"
	gethcrypto "github.com/ethereum/go-ethereum/crypto"

	"github.com/EscanBE/evermint/v12/crypto/ethsecp256k1"
	evhd "github.com/EscanBE/evermint/v12/crypto/hd"

	"verif/harness/ev"
)

type c19KeyCase struct {
	Key  c19Key `json:"key"`
	What string `json:"what"` // address | codec:<name> | invalid
}

var c19Codecs = []string{"amino-json-pub", "amino-bin-pub", "amino-json-priv", "amino-bin-priv", "proto-any-pub", "proto-json-pub", "proto-any-priv", "armor-pub", "armor-priv", "bech32-address", "keyring-import-hex"}

// c19RefPoint computes d·G with go-ethereum's curve arithmetic, independently of PrivKey.PubKey().
func c19RefPoint(d []byte) (x, y *big.Int) { return gethcrypto.S256().ScalarBaseMult(d) }

func (e *c19Env) evalKey(c c19KeyCase) (fs []ev.Finding, class string) {
	fail := func(clause, detail string) {
		fs = append(fs, ev.Finding{Clause: clause, Detail: "key " + c.Key.Name + ": " + detail, Replay: map[string]interface{}{"key": c}})
	}
	if c.What == "invalid" {
		return e.evalInvalidKey(c, fail)
	}
	priv := c.Key.priv()
	x, y := c19RefPoint(priv.Key)
	xb, yb := x.FillBytes(make([]byte, 32)), y.FillBytes(make([]byte, 32))
	wantComp := append([]byte{byte(2 + y.Bit(0))}, xb...)
	wantAddr := c19Keccak(xb, yb)[12:]
	class = "ok"
	p := c19Trap(func() {
		switch {
		case c.What == "address":
			pubI := priv.PubKey()
			e.run.Count("evaluations", 4)
			if pubI == nil {
				fail("pubkey-of-valid-private-key", "PubKey() is nil")
				return
			}
			pub := pubI.(*ethsecp256k1.PubKey)
			if !bytes.Equal(pub.Bytes(), wantComp) {
				fail("public-key-is-d-times-G-compressed", fmt.Sprintf("got %x want %x", pub.Bytes(), wantComp))
			}
			if got := pub.Address().Bytes(); !bytes.Equal(got, wantAddr) {
				fail("address-is-last-20-bytes-of-keccak-of-uncompressed-key", fmt.Sprintf("got %x want %x", got, wantAddr))
			}
			ec, err := priv.ToECDSA()
			if err != nil {
				fail("alphabet-sanity", "ToECDSA: "+err.Error())
				return
			}
			if g := gethcrypto.PubkeyToAddress(ec.PublicKey); !bytes.Equal(g.Bytes(), pub.Address().Bytes()) {
				fail("address-equals-go-ethereum-PubkeyToAddress", fmt.Sprintf("got %x want %s", pub.Address().Bytes(), g))
			}
			// key rebuilt from its bytes is the same key with the same address
			re := &ethsecp256k1.PubKey{Key: pub.Bytes()}
			if !re.Equals(pub) || !bytes.Equal(re.Address(), pub.Address()) {
				fail("pubkey-bytes-round-trip", "PubKey{Bytes()} differs")
			}
			rp := &ethsecp256k1.PrivKey{Key: priv.Bytes()}
			if !rp.Equals(priv) || !rp.PubKey().Equals(pub) {
				fail("privkey-bytes-round-trip", "PrivKey{Bytes()} differs")
			}
			// recoverable signature recovers exactly this key
			msg := e.msg("long-1000")
			sig, err := priv.Sign(msg)
			if err != nil || len(sig) != 65 {
				fail("alphabet-sanity", fmt.Sprintf("Sign: %v", err))
				return
			}
			rec, err := gethcrypto.SigToPub(c19Keccak(msg), sig)
			if err != nil || !bytes.Equal(gethcrypto.PubkeyToAddress(*rec).Bytes(), wantAddr) {
				fail("recovery-byte-recovers-the-signing-key", fmt.Sprintf("err=%v", err))
			}
			if wantAddr[0] == 0 {
				class = "ok:address-with-leading-zero"
			}
		case strings.HasPrefix(c.What, "codec:"):
			e.run.Count("evaluations", 2)
			e.evalCodec(c.What[6:], priv, fail)
		}
	})
	if p != "" {
		fail("key-handling-never-panics", c.What+": panic "+p)
		return fs, "panic"
	}
	if len(fs) > 0 {
		class = "FAIL"
	}
	return fs, class
}

func (e *c19Env) evalCodec(name string, priv *ethsecp256k1.PrivKey, fail func(clause, detail string)) {
	pub := priv.PubKey()
	amino, cdc := e.w.Enc.Amino, e.w.Enc.Codec
	clause := "key-encoding-round-trips"
	chkPub := func(out cryptotypes.PubKey, err error) {
		if err != nil {
			fail(clause, name+": "+err.Error())
		} else if out == nil || !out.Equals(pub) || !bytes.Equal(out.Address(), pub.Address()) || out.Type() != ethsecp256k1.KeyType {
			fail(clause, fmt.Sprintf("%s: decoded %v != %v", name, out, pub))
		}
	}
	chkPriv := func(out cryptotypes.PrivKey, err error) {
		if err != nil {
			fail(clause, name+": "+err.Error())
		} else if out == nil || !out.Equals(priv) || out.Type() != ethsecp256k1.KeyType || !out.PubKey().Equals(pub) {
			fail(clause, name+": decoded private key differs")
		}
	}
	switch name {
	case "amino-json-pub":
		bz, err := amino.MarshalJSON(pub)
		if err != nil {
			fail(clause, name+": "+err.Error())
			return
		}
		if !strings.Contains(string(bz), ethsecp256k1.PubKeyName) {
			fail(clause, name+": type name missing in "+string(bz))
		}
		var out cryptotypes.PubKey
		err = amino.UnmarshalJSON(bz, &out)
		chkPub(out, err)
	case "amino-bin-pub":
		bz, err := amino.Marshal(pub)
		if err != nil {
			fail(clause, name+": "+err.Error())
			return
		}
		var out cryptotypes.PubKey
		err = amino.Unmarshal(bz, &out)
		chkPub(out, err)
	case "amino-json-priv":
		bz, err := amino.MarshalJSON(priv)
		if err != nil {
			fail(clause, name+": "+err.Error())
			return
		}
		var out cryptotypes.PrivKey
		err = amino.UnmarshalJSON(bz, &out)
		chkPriv(out, err)
	case "amino-bin-priv":
		bz, err := amino.Marshal(priv)
		if err != nil {
			fail(clause, name+": "+err.Error())
			return
		}
		var out cryptotypes.PrivKey
		err = amino.Unmarshal(bz, &out)
		chkPriv(out, err)
	case "proto-any-pub":
		bz, err := cdc.MarshalInterface(pub)
		if err != nil {
			fail(clause, name+": "+err.Error())
			return
		}
		var out cryptotypes.PubKey
		err = cdc.UnmarshalInterface(bz, &out)
		chkPub(out, err)
	case "proto-json-pub":
		bz, err := cdc.MarshalInterfaceJSON(pub)
		if err != nil {
			fail(clause, name+": "+err.Error())
			return
		}
		var out cryptotypes.PubKey
		err = cdc.UnmarshalInterfaceJSON(bz, &out)
		chkPub(out, err)
	case "proto-any-priv":
		bz, err := cdc.MarshalInterface(priv)
		if err != nil {
			fail(clause, name+": "+err.Error())
			return
		}
		var out cryptotypes.PrivKey
		err = cdc.UnmarshalInterface(bz, &out)
		chkPriv(out, err)
	case "armor-pub":
		arm := sdkcrypto.ArmorPubKeyBytes(legacy.Cdc.MustMarshal(pub), ethsecp256k1.KeyType)
		bz, algo, err := sdkcrypto.UnarmorPubKeyBytes(arm)
		if err != nil || algo != ethsecp256k1.KeyType {
			fail(clause, fmt.Sprintf("%s: algo=%q err=%v", name, algo, err))
			return
		}
		out, err := legacy.PubKeyFromBytes(bz)
		chkPub(out, err)
	case "armor-priv":
		arm := sdkcrypto.EncryptArmorPrivKey(priv, "pass-phrase", ethsecp256k1.KeyType)
		out, algo, err := sdkcrypto.UnarmorDecryptPrivKey(arm, "pass-phrase")
		if algo != ethsecp256k1.KeyType {
			fail(clause, name+": algo "+algo)
		}
		chkPriv(out, err)
		if _, _, err := sdkcrypto.UnarmorDecryptPrivKey(arm, "wrong"); err == nil {
			fail(clause, name+": wrong passphrase accepted")
		}
	case "bech32-address":
		acc := sdk.AccAddress(pub.Address())
		back, err := sdk.AccAddressFromBech32(acc.String())
		if err != nil || !back.Equals(acc) || !strings.HasPrefix(acc.String(), "evm1") {
			fail(clause, fmt.Sprintf("%s: %s err=%v", name, acc, err))
		}
		if h := common.BytesToAddress(pub.Address()); !bytes.Equal(common.HexToAddress(h.Hex()).Bytes(), pub.Address()) {
			fail(clause, name+": hex form")
		}
	case "keyring-import-hex":
		kr := keyring.NewInMemory(cdc, evhd.MultiSecp256k1Option())
		if err := kr.ImportPrivKeyHex("k", hex.EncodeToString(priv.Key), ethsecp256k1.KeyType); err != nil {
			fail(clause, name+": "+err.Error())
			return
		}
		rec, err := kr.Key("k")
		if err != nil {
			fail(clause, name+": "+err.Error())
			return
		}
		out, err := rec.GetPubKey()
		chkPub(out, err)
		msg := e.msg("amino-send-doc")
		sig, spk, err := kr.Sign("k", msg, signing.SignMode_SIGN_MODE_LEGACY_AMINO_JSON)
		if err != nil || !spk.Equals(pub) || !pub.VerifySignature(msg, sig) {
			fail("keyring-signature-verifies-under-the-key", fmt.Sprintf("%s: err=%v", name, err))
		}
	default:
		fail("alphabet-sanity", "unknown codec "+name)
	}
}

func (e *c19Env) evalInvalidKey(c c19KeyCase, fail func(clause, detail string)) (fs []ev.Finding, class string) {
	// c.Key.Hex holds arbitrary (possibly wrong-length / out-of-range) bytes here
	bz, _ := hex.DecodeString(c.Key.Hex)
	priv := &ethsecp256k1.PrivKey{Key: bz}
	var pub cryptotypes.PubKey
	var sig []byte
	var err error
	p := c19Trap(func() {
		pub = priv.PubKey()
		sig, err = priv.Sign([]byte("message"))
		_ = priv.Equals(c19Keys(false)[0].priv())
	})
	e.run.Count("evaluations", 2)
	if p != "" {
		fail("key-handling-never-panics", "invalid private key bytes: panic "+p)
		return nil, "panic"
	}
	if err == nil {
		// a key the code accepts must behave like a key
		if pub == nil || !pub.VerifySignature([]byte("message"), sig) {
			fail("accepted-key-signs-verifiably", "Sign succeeded but the signature does not verify under PubKey()")
		}
		return nil, "accepted"
	}
	if pub != nil {
		return nil, "sign-rejected:pubkey-returned"
	}
	return nil, "rejected"
}

// ---------------------------------------------------------------------------
// derivation
// ---------------------------------------------------------------------------

type c19DeriveCase struct {
	Mnemonic   string `json:"mnemonic"`
	Pass       string `json:"passphrase"`
	Path       string `json:"path"`
	ExpectKey  string `json:"expect_key,omitempty"`  // published vector
	ExpectAddr string `json:"expect_addr,omitempty"` // published vector
	Invalid    bool   `json:"invalid,omitempty"`     // input built to be invalid
	MustError  bool   `json:"must_error,omitempty"`
	Keyring    bool   `json:"keyring,omitempty"` // also through the SDK keyring with evermint's algorithm option
}

func c19RefDerive(mnemonic, pass, path string) (key []byte, parentsLeadingZero bool, err error) {
	seed := cbip39.NewSeed(mnemonic, pass)
	s, cc := sdkhd.ComputeMastersFromSeed(seed)
	key, err = sdkhd.DerivePrivateKeyForPath(s, cc, path)
	if err != nil {
		return
	}
	if s[0] == 0 {
		parentsLeadingZero = true
	}
	parts := strings.Split(strings.TrimPrefix(path, "m/"), "/")
	for i := 1; i < len(parts); i++ {
		k, e := sdkhd.DerivePrivateKeyForPath(s, cc, "m/"+strings.Join(parts[:i], "/"))
		if e == nil && k[0] == 0 {
			parentsLeadingZero = true
		}
	}
	return
}

func (e *c19Env) evalDerive(c c19DeriveCase) (fs []ev.Finding, class string) {
	fail := func(clause, detail string) {
		fs = append(fs, ev.Finding{Clause: clause, Detail: fmt.Sprintf("Derive(%.24q…, %q, %q): %s", c.Mnemonic, c.Pass, c.Path, detail), Replay: map[string]interface{}{"derive": c}})
	}
	var got []byte
	var err error
	p := c19Trap(func() { got, err = evhd.EthSecp256k1.Derive()(c.Mnemonic, c.Pass, c.Path) })
	e.run.Count("evaluations", 1)
	if p != "" {
		fail("derivation-never-panics", "panic "+p)
		return fs, "panic"
	}
	if c.Invalid {
		if err == nil && c.MustError {
			fail("invalid-mnemonic-or-path-is-rejected", fmt.Sprintf("returned key %x", got))
			return fs, "invalid:ACCEPTED"
		}
		if err == nil {
			return fs, "unusual-input:accepted"
		}
		return fs, "invalid:rejected"
	}
	if err != nil {
		fail("alphabet-sanity", "valid input rejected: "+err.Error())
		return fs, "error"
	}
	ref, lz, rerr := c19RefDerive(c.Mnemonic, c.Pass, c.Path)
	e.run.Count("evaluations", 1)
	if rerr != nil {
		fail("alphabet-sanity", "reference rejected the path: "+rerr.Error())
		return fs, "ref-error"
	}
	if !bytes.Equal(got, ref) {
		fail("derived-key-equals-independent-bip32-derivation", fmt.Sprintf("got %x want %x", got, ref))
	}
	class = "equal"
	if lz {
		class = "equal:parent-with-leading-zero-byte"
	}
	if ref[0] == 0 {
		class += ":child-with-leading-zero-byte"
	}
	refAddr := common.BytesToAddress(c19Keccak(func() []byte {
		x, y := c19RefPoint(ref)
		return append(x.FillBytes(make([]byte, 32)), y.FillBytes(make([]byte, 32))...)
	}())[12:])
	gen := evhd.EthSecp256k1.Generate()(got)
	if a := common.BytesToAddress(gen.PubKey().Address()); a != refAddr {
		fail("derived-address-equals-reference", fmt.Sprintf("got %s want %s", a, refAddr))
	}
	if c.ExpectKey != "" {
		class += ":published-vector"
		if hex.EncodeToString(got) != c.ExpectKey {
			fail("derived-key-equals-published-vector", fmt.Sprintf("got %x want %s", got, c.ExpectKey))
		}
	}
	if c.ExpectAddr != "" {
		if !strings.Contains(class, "published-vector") {
			class += ":published-vector"
		}
		if a := common.BytesToAddress(gen.PubKey().Address()); a != common.HexToAddress(c.ExpectAddr) {
			fail("derived-address-equals-published-vector", fmt.Sprintf("got %s want %s", a, c.ExpectAddr))
		}
	}
	if c.Keyring {
		class += ":keyring"
		p := c19Trap(func() {
			kr := keyring.NewInMemory(e.w.Enc.Codec, evhd.MultiSecp256k1Option())
			rec, err := kr.NewAccount("u", c.Mnemonic, c.Pass, c.Path, evhd.EthSecp256k1)
			e.run.Count("evaluations", 3)
			if err != nil {
				fail("keyring-account-from-mnemonic", err.Error())
				return
			}
			addr, err := rec.GetAddress()
			if err != nil || common.BytesToAddress(addr) != refAddr {
				fail("keyring-address-equals-reference", fmt.Sprintf("got %x want %s err=%v", addr.Bytes(), refAddr, err))
			}
			arm, err := kr.ExportPrivKeyArmor("u", "pw")
			if err != nil {
				fail("key-encoding-round-trips", "export: "+err.Error())
				return
			}
			kr2 := keyring.NewInMemory(e.w.Enc.Codec, evhd.MultiSecp256k1Option())
			if err := kr2.ImportPrivKey("v", arm, "pw"); err != nil {
				fail("key-encoding-round-trips", "import: "+err.Error())
				return
			}
			rec2, err := kr2.Key("v")
			if err != nil {
				fail("key-encoding-round-trips", "key: "+err.Error())
				return
			}
			if a2, err := rec2.GetAddress(); err != nil || !a2.Equals(addr) {
				fail("key-encoding-round-trips", fmt.Sprintf("armor export/import changed the address: %x vs %x (%v)", a2.Bytes(), addr.Bytes(), err))
			}
			msg := e.msg("proto-send-doc")
			sig, pk, err := kr2.Sign("v", msg, signing.SignMode_SIGN_MODE_DIRECT)
			if err != nil || !pk.VerifySignature(msg, sig) || common.BytesToAddress(pk.Address()) != refAddr {
				fail("keyring-signature-verifies-under-the-key", fmt.Sprintf("err=%v", err))
			}
		})
		if p != "" {
			fail("key-handling-never-panics", "keyring: panic "+p)
		}
	}
	if len(fs) > 0 {
		return fs, "FAIL"
	}
	return fs, class
}

// c19RefSelfCheck validates the reference implementation against published BIP-39 / BIP-32 data (Trezor vector:
// "abandon … about" with passphrase TREZOR). A mismatch is a harness error, not a verdict.
func c19RefSelfCheck() error {
	const mn = "abandon abandon abandon abandon abandon abandon abandon abandon abandon abandon abandon about"
	seed := cbip39.NewSeed(mn, "TREZOR")
	if hex.EncodeToString(seed) != "c55257c360c07c72029aebc1b53c05ed0362ada38ead3e3e9efa3708e53495531f09a6987599d18264c1e1c92f2cf141630c7a3c4ab7c81b2f001698e7463b04" {
		return fmt.Errorf("BIP-39 seed vector mismatch: %x", seed)
	}
	s, cc := sdkhd.ComputeMastersFromSeed(seed)
	// xprv9s21ZrQH143K3h3fDYiay8mocZ3afhfULfb5GX8kCBdno77K4HiA15Tg23wpbeF1pLfs1c5SPmYHrEpTuuRhxMwvKDwqdKiGJS9XFKzUsAF
	if hex.EncodeToString(s[:]) != "cbedc75b0d6412c85c79bc13875112ef912fd1e756631b5a00330866f22ff184" || hex.EncodeToString(cc[:]) != "a3fa8c983223306de0f0f65e74ebb1e98aba751633bf91d5fb56529aa5c132c1" {
		return fmt.Errorf("BIP-32 master key vector mismatch: %x %x", s, cc)
	}
	return nil
}
