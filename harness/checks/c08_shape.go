package checks

import (
	"encoding/hex"
	"encoding/json"
	"fmt"
	"math/big"

	"github.com/ethereum/go-ethereum/common"
	ethtypes "github.com/ethereum/go-ethereum/core/types"
	ethcrypto "github.com/ethereum/go-ethereum/crypto"

	cpctypes "github.com/EscanBE/evermint/v12/x/cpc/types"

	"verif/harness/world"
)

// C08, request-argument shape dimension of the prediction oracles (c).
//
// A request for eth_call / eth_estimateGas is a TransactionArgs object; besides from / to / gas it has optional fields that
// also exist on a transaction: the fee fields, the access list, value, nonce and the call data (two spellings). The shape of
// a request is which of them it carries. For every shape there is exactly one transaction that "is the same message": the
// delivered twin is of the type the fields select — legacy for no access list and no 1559 fee field, EIP-2930 (type 1) for an
// access list without 1559 fee fields, EIP-1559 (type 2) for maxFeePerGas (with or without maxPriorityFeePerGas, with or without
// access list) — and carries the same access list, gas limit, value, data and fee fields (a request without fee fields is
// delivered at the base fee; maxFeePerGas alone means a priority fee of 0, as TransactionArgs.ToMessage reads it).
//
//	fee    ∈ {none, gasPrice = base fee, maxFeePerGas = 2·base + maxPriorityFeePerGas = base/4, maxFeePerGas = 2·base only}
//	list   ∈ {absent, empty, [one untouched address], [three untouched addresses with 0 / 1 / 2 storage keys],
//	          [the callee with slots 0, 1, 2, 3 — the slots the storage programs read and write],
//	          [sender, precompile 0x04, the staking precompile, the zero address with slot 0]}
//	value  ∈ {0, > 0}            nonce ∈ {absent, the sender's next nonce}
//	data   ∈ {"data", "input", both (same bytes)}
//
// The gas limit of request and twin is the program's gas limit plus the intrinsic gas of the list (2400 per address, 1900 per
// storage key), so that the gas-dependent programs keep the branch they were built for whatever the list costs.
// Oracle: clauses (c) unchanged — same vm error, return data, logs, exactly the same gas used, and the estimate is a gas limit
// with which the twin executes without running out of gas.

type c08Shape struct {
	Fee   string `json:"fee,omitempty"`   // "" none | "gasprice" | "1559" | "maxfee"
	AL    string `json:"al,omitempty"`    // "" absent | "empty" | "one" | "three" | "callee" | "special"
	Pos   bool   `json:"pos,omitempty"`   // value > 0 (the program's own value when it has one, 7 wei otherwise); false: value 0
	Nonce bool   `json:"nonce,omitempty"` // the request carries the sender's next nonce
	Data  string `json:"data,omitempty"`  // "" the "data" field | "input" | "both"
}

var (
	c08ShapeFees  = []string{"", "gasprice", "1559", "maxfee"}
	c08ShapeLists = []string{"", "empty", "one", "three", "callee", "special"}
	c08ShapeDatas = []string{"", "input", "both"}

	c08AddrCold1 = common.HexToAddress("0x00000000000000000000000000000000000c08a1") // never touched by any program
	c08AddrCold2 = common.HexToAddress("0x00000000000000000000000000000000000c08a2")
	c08AddrCold3 = common.HexToAddress("0x00000000000000000000000000000000000c08a3")
)

func (s *c08Shape) String() string {
	or := func(v, d string) string {
		if v == "" {
			return d
		}
		return v
	}
	return fmt.Sprintf("{fee=%s list=%s value>0=%v nonce=%v %s}", or(s.Fee, "none"), or(s.AL, "absent"), s.Pos, s.Nonce, or(s.Data, "data"))
}

// c08Shapes is the full product, simplest first.
func c08Shapes() []*c08Shape {
	var out []*c08Shape
	for _, d := range c08ShapeDatas {
		for _, n := range []bool{false, true} {
			for _, v := range []bool{false, true} {
				for _, al := range c08ShapeLists {
					for _, f := range c08ShapeFees {
						out = append(out, &c08Shape{Fee: f, AL: al, Pos: v, Nonce: n, Data: d})
					}
				}
			}
		}
	}
	return out
}

// c08ShapeKeepsExpectation: the Expect / EstErr annotations of a program describe it with its own value.
func c08ShapeKeepsExpectation(r c08Req, p *c08Prog) bool {
	return r.Shape == nil || r.Shape.Pos == (p.Value > 0)
}

func (e *c08Env) shapeSender() *world.Acct { return e.w.Wallets[c08WReq] }

// shapeValue is the value of request and twin.
func (e *c08Env) shapeValue(r c08Req, p *c08Prog) int64 {
	switch {
	case r.Shape == nil:
		return p.Value
	case !r.Shape.Pos:
		return 0
	case p.Value > 0:
		return p.Value
	}
	return 7
}

// shapeCallee is the address the message executes at (for a creation: the address of the new contract).
func (e *c08Env) shapeCallee(p *c08Prog) common.Address {
	if p.Create {
		a := e.shapeSender().Eth()
		return ethcrypto.CreateAddress(a, e.w.Nonce(e.w.Ctx(), a))
	}
	return p.target(e)
}

// shapeList is the access list of request and twin; present=false: the request has no accessList field.
func (e *c08Env) shapeList(r c08Req, p *c08Prog) (al ethtypes.AccessList, present bool) {
	if r.Shape == nil {
		return nil, false
	}
	switch r.Shape.AL {
	case "":
		return nil, false
	case "empty":
		return ethtypes.AccessList{}, true
	case "one":
		return ethtypes.AccessList{{Address: c08AddrCold1, StorageKeys: []common.Hash{}}}, true
	case "three":
		return ethtypes.AccessList{
			{Address: c08AddrCold1, StorageKeys: []common.Hash{}},
			{Address: c08AddrCold2, StorageKeys: []common.Hash{h(0)}},
			{Address: c08AddrCold3, StorageKeys: []common.Hash{h(1), h(77)}},
		}, true
	case "callee":
		return ethtypes.AccessList{{Address: e.shapeCallee(p), StorageKeys: []common.Hash{h(0), h(1), h(2), h(3)}}}, true
	case "special":
		return ethtypes.AccessList{
			{Address: e.shapeSender().Eth(), StorageKeys: []common.Hash{}},
			{Address: common.BytesToAddress([]byte{4}), StorageKeys: []common.Hash{}},
			{Address: cpctypes.CpcStakingFixedAddress, StorageKeys: []common.Hash{}},
			{Address: common.Address{}, StorageKeys: []common.Hash{h(0)}},
		}, true
	}
	panic("unknown access list class " + r.Shape.AL)
}

// c08ListGas is the intrinsic gas of an access list (EIP-2930).
func c08ListGas(al ethtypes.AccessList) uint64 {
	return 2400*uint64(len(al)) + 1900*uint64(al.StorageKeys())
}

// shapeGas is the explicit gas limit of the eth_call request and of its delivered twin.
func (e *c08Env) shapeGas(r c08Req, p *c08Prog) uint64 {
	al, _ := e.shapeList(r, p)
	return p.Gas + c08ListGas(al)
}

// shapeFees: the fee fields of a shaped request on the current state.
func (e *c08Env) shapeFees(s *c08Shape) (gasPrice, maxFee, tip *big.Int) {
	base := e.base()
	switch s.Fee {
	case "":
	case "gasprice":
		gasPrice = base
	case "1559":
		maxFee, tip = new(big.Int).Mul(base, big.NewInt(2)), new(big.Int).Div(base, big.NewInt(4))
	case "maxfee":
		maxFee = new(big.Int).Mul(base, big.NewInt(2))
	default:
		panic("unknown fee class " + s.Fee)
	}
	return
}

func (e *c08Env) shapeData(p *c08Prog) []byte {
	if p.Data != nil {
		return p.Data(e)
	}
	return nil
}

// shapeArgs renders the JSON-RPC transaction arguments of a request (callArgs for requests without a shape).
func (e *c08Env) shapeArgs(r c08Req, p *c08Prog, gas uint64, price *big.Int) []byte {
	s := r.Shape
	if s == nil {
		return e.callArgs(p, gas, price)
	}
	hexBig := func(x *big.Int) string { return "0x" + x.Text(16) }
	from := e.shapeSender().Eth()
	m := map[string]interface{}{"from": from.Hex()}
	if !p.Create {
		m["to"] = p.target(e).Hex()
	}
	if gas != 0 {
		m["gas"] = c08HexU(gas)
	}
	gasPrice, maxFee, tip := e.shapeFees(s)
	if gasPrice != nil {
		m["gasPrice"] = hexBig(gasPrice)
	}
	if maxFee != nil {
		m["maxFeePerGas"] = hexBig(maxFee)
	}
	if tip != nil {
		m["maxPriorityFeePerGas"] = hexBig(tip)
	}
	if al, present := e.shapeList(r, p); present {
		list := []map[string]interface{}{}
		for _, t := range al {
			keys := []string{}
			for _, k := range t.StorageKeys {
				keys = append(keys, k.Hex())
			}
			list = append(list, map[string]interface{}{"address": t.Address.Hex(), "storageKeys": keys})
		}
		m["accessList"] = list
	}
	if v := e.shapeValue(r, p); v != 0 {
		m["value"] = c08HexU(uint64(v))
	} else if s.Nonce { // an explicit zero now and then: "value":"0x0" and no value field are the same message
		m["value"] = "0x0"
	}
	if s.Nonce {
		m["nonce"] = c08HexU(e.w.Nonce(e.w.Ctx(), from))
	}
	data := "0x" + hex.EncodeToString(e.shapeData(p))
	switch s.Data {
	case "":
		m["data"] = data
	case "input":
		m["input"] = data
	case "both":
		m["data"], m["input"] = data, data
	default:
		panic("unknown data class " + s.Data)
	}
	bz, _ := json.Marshal(m)
	return bz
}

// shapeTx is the delivered twin of a request: the transaction of the type its fields select, signed by the request wallet with
// its next nonce, carrying the same to / value / data / access list / fee fields and the given gas limit.
func (e *c08Env) shapeTx(r c08Req, p *c08Prog, gas uint64) []byte {
	s := r.Shape
	if s == nil {
		return e.callTx(p, gas)
	}
	w := e.w
	a := e.shapeSender()
	var to *common.Address
	if !p.Create {
		t := p.target(e)
		to = &t
	}
	nonce := w.Nonce(w.Ctx(), a.Eth())
	value := big.NewInt(e.shapeValue(r, p))
	data := e.shapeData(p)
	al, present := e.shapeList(r, p)
	gasPrice, maxFee, tip := e.shapeFees(s)
	chainID := big.NewInt(world.EvmChainID)
	var td ethtypes.TxData
	switch {
	case maxFee != nil:
		if tip == nil {
			tip = new(big.Int)
		}
		td = &ethtypes.DynamicFeeTx{ChainID: chainID, Nonce: nonce, GasTipCap: tip, GasFeeCap: maxFee, Gas: gas, To: to, Value: value, Data: data, AccessList: al}
	case present:
		if gasPrice == nil {
			gasPrice = e.base()
		}
		td = &ethtypes.AccessListTx{ChainID: chainID, Nonce: nonce, GasPrice: gasPrice, Gas: gas, To: to, Value: value, Data: data, AccessList: al}
	default:
		if gasPrice == nil {
			gasPrice = e.base()
		}
		td = &ethtypes.LegacyTx{Nonce: nonce, GasPrice: gasPrice, Gas: gas, To: to, Value: value, Data: data}
	}
	e.obs.Info[fmt.Sprintf("shape_twin_tx_type_%d", ethtypes.NewTx(td).Type())]++
	return w.EthTx(a, td)
}

// shapeCount keeps the outcome classes of the shaped prediction cases apart (non-vacuity: every fee class × list class must
// reach the comparison, with successful and with failing executions).
func (e *c08Env) shapeCount(r c08Req, what, vmError string) {
	if r.Shape == nil {
		return
	}
	res := "ok"
	if vmError != "" {
		res = "vmerr"
	}
	or := func(v, d string) string {
		if v == "" {
			return d
		}
		return v
	}
	e.obs.Info[fmt.Sprintf("shape_%s_%s", what, res)]++
	e.obs.Info[fmt.Sprintf("shape_compared_fee_%s_list_%s", or(r.Shape.Fee, "none"), or(r.Shape.AL, "absent"))]++
}

// c08ShapeReqs is the shaped part of the request alphabet.
//
//	quick:    the full product (288 shapes) × {eth_call, estimateGas without gas argument} for the 63/64 program (call data, storage
//	          write, gas-dependent), fee × list × value × nonce (96 shapes) for the storage-writing program (no call data: the
//	          three spellings would all say "0x"), fee × list × value (48 shapes) for the program whose return data, log and gas
//	          used depend on the value; for every other predictive program the product fee × list (24 shapes, the program's own
//	          value, no nonce, "data") × {eth_call, estimateGas without gas argument}
//	thorough: the full product × {eth_call, estimateGas without / with gas argument} for every predictive program
func c08ShapeReqs(thorough bool) []c08Req {
	var out []c08Req
	// quick: the dimensions beyond fee × list a program is combined with
	type dims struct{ value, nonce, data bool }
	more := map[string]dims{"chain-63-64": {true, true, true}, "sstore-set": {true, true, false}, "callvalue": {true, false, false}}
	for _, p := range c08Programs {
		if !p.Predictive {
			continue
		}
		for _, s := range c08Shapes() {
			if d := more[p.Name]; !thorough && ((!d.value && s.Pos != (p.Value > 0)) || (!d.nonce && s.Nonce) || (!d.data && s.Data != "")) {
				continue
			}
			if s.Fee == "" && s.AL == "" && s.Pos == (p.Value > 0) && !s.Nonce && s.Data == "" && p.Data != nil {
				continue // byte for byte the request without a shape
			}
			out = append(out, c08Req{Kind: "ethcall", Name: p.Name, Shape: s})
			if p.Name != "gas-branch-cheap" && p.Name != "gas-branch-starved" { // without gas argument: the same request as gas-branch-rich
				out = append(out, c08Req{Kind: "estimate", Name: p.Name, NoGas: true, Shape: s})
			}
			if thorough {
				out = append(out, c08Req{Kind: "estimate", Name: p.Name, Shape: s})
			}
		}
	}
	return out
}
