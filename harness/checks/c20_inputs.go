package checks

// Input families of C20 parts (a), (b) and (d): byte strings, mutated seed transactions, mutated precompile call data.
// Every family is a finite, deterministically ordered list; nothing here is random.

import (
	"encoding/hex"
	"fmt"
	"math/big"
	"reflect"
	"sort"
	"strings"
	"sync"

	sdkmath "cosmossdk.io/math"
	sdk "github.com/cosmos/cosmos-sdk/types"
	"github.com/cosmos/cosmos-sdk/types/bech32"
	"github.com/cosmos/cosmos-sdk/x/authz"
	banktypes "github.com/cosmos/cosmos-sdk/x/bank/types"
	"github.com/ethereum/go-ethereum/accounts/abi"
	"github.com/ethereum/go-ethereum/common"
	ethtypes "github.com/ethereum/go-ethereum/core/types"
	ethcrypto "github.com/ethereum/go-ethereum/crypto"

	chainapp "github.com/EscanBE/evermint/v12/app"
	cpcabi "github.com/EscanBE/evermint/v12/x/cpc/abi"
	cpctypes "github.com/EscanBE/evermint/v12/x/cpc/types"
	evmtypes "github.com/EscanBE/evermint/v12/x/evm/types"
	vauthtypes "github.com/EscanBE/evermint/v12/x/vauth/types"

	"verif/harness/world"
)

// Wallet roles: A and B send the fixed valid transactions of part (d), C sends every adversarial input, D is a passive counterparty.
const (
	c20A = 0
	c20B = 1
	c20C = 2
	c20D = 3
)

// c20S7 are the first bytes the quick tier restricts long byte strings to (protobuf tags of TxRaw fields 1..3, varint edge values).
var c20S7 = []byte{0x00, 0x0a, 0x12, 0x1a, 0x7f, 0x80, 0xff}

// c20SubstValues are the substitution values of single-byte mutations.
var c20SubstValues = []byte{0x00, 0x01, 0x7f, 0x80, 0xff}

var c20EncOnce sync.Once

// c20CBech is the bech32 address of wallet C, needed before the world exists (cpc deployer whitelist).
func c20CBech() string {
	c20EncOnce.Do(func() { _ = chainapp.RegisterEncodingConfig() }) // sets the bech32 prefixes
	return world.NewAcct(fmt.Sprintf("wal%d", c20C+1)).Bech()
}

var c20Balance = new(big.Int).Exp(big.NewInt(10), big.NewInt(24), nil)

// c20Config is the world of parts (a), (b), (d): default consensus parameters (MaxGas 40M), gadget contracts, both optional precompiles
// deployed, wallet C whitelisted as cpc deployer, min gas price = base fee = 1 gwei so that the base fee never moves (inputs built once
// stay valid whatever height they are offered at).
func c20Config() world.Config {
	return world.Config{NumWallets: 4, Contracts: StdContracts(), DeployErc20: true, DeployStaking: true,
		MinGasPrice: "1000000000", WalletBalance: c20Balance, CpcWhitelist: []string{c20CBech()}}
}

func c20World() *world.World {
	w := world.New(c20Config())
	w.Block(nil)
	return w
}

// c20Input is one adversarial input: either fixed bytes, or a transaction of wallet C that is signed with C's nonce at the time it is offered.
type c20Input struct {
	Raw   []byte          // fixed transaction bytes
	To    *common.Address // eth call C -> To with Data (when Raw == nil and Kind == "")
	Data  []byte
	Kind  TxKind // kit transaction of wallet C (when set)
	Label string // mutation label (family-local)
	// precompile inputs only:
	MustSucceed bool // a well-formed call of a view method without arguments: must succeed (alphabet sanity)
	Boundary    bool // member of the subset the quick tier also sends through EstimateGas
}

// c20PcGas is the gas limit of precompile-call transactions (the most expensive method requires 800k + intrinsic gas).
// Batches are sized so that a block never uses more than the gas target (20M): the base fee stays at 1 gwei.
const c20PcGas = 1_200_000

// c20Materialize returns the tx bytes of an input given C's current nonce, and whether the input consumes that nonce when admitted.
func c20Materialize(w *world.World, in c20Input, nonce uint64) []byte {
	switch {
	case in.Kind != "":
		return BuildTx(w, TxSpec{Kind: in.Kind, Sender: c20C, Nonce: nonce}, Gwei)
	case in.To != nil:
		return w.EthTx(w.Wallets[c20C], &ethtypes.LegacyTx{Nonce: nonce, GasPrice: Gwei, Gas: c20PcGas, To: in.To, Value: big.NewInt(0), Data: in.Data})
	default:
		return in.Raw
	}
}

func (in c20Input) usesNonce() bool { return in.Kind != "" || in.To != nil }

// c20Family is a finite ordered input family. At returns false for indices that denote no input (identity substitutions).
type c20Family struct {
	Name string
	N    int
	At   func(i int) (c20Input, bool)
}

// ---------------------------------------------------------------------------
// seeds
// ---------------------------------------------------------------------------

type c20Seed struct {
	Name string
	Tx   []byte
	Eth  *ethtypes.Transaction // set for the two Ethereum seeds
}

func c20SignMsg(a *world.Acct, msg string) []byte {
	key, _ := ethcrypto.ToECDSA(a.Priv.Key)
	sig, err := ethcrypto.Sign(ethcrypto.Keccak256([]byte(msg)), key)
	if err != nil {
		panic(err)
	}
	return sig
}

// c20Seeds builds the six valid seed transactions, all sent by wallet C with nonce / sequence 0.
func c20Seeds(w *world.World) []c20Seed {
	c, d := w.Wallets[c20C], w.Wallets[c20D]
	accNum := uint64(len(w.Validators) + c20C)
	gas := uint64(300_000)
	fee := new(big.Int).Mul(new(big.Int).SetUint64(gas), Gwei)
	coins := sdk.NewCoins(sdk.NewCoin(world.Denom, sdkmath.NewInt(5)))
	send := &banktypes.MsgSend{FromAddress: c.Bech(), ToAddress: d.Bech(), Amount: coins}
	exec := authz.NewMsgExec(c.Acc(), []sdk.Msg{send})
	chain := big.NewInt(world.EvmChainID)
	log1, sst := AddrLog1, AddrSstore
	legacy := w.SignEth(c, &ethtypes.LegacyTx{Nonce: 0, GasPrice: Gwei, Gas: 60_000, To: &log1, Value: big.NewInt(0), Data: []byte("c20-seed-payload")})
	dyn := w.SignEth(c, &ethtypes.DynamicFeeTx{ChainID: chain, Nonce: 0, GasTipCap: big.NewInt(0), GasFeeCap: Gwei, Gas: 90_000, To: &sst, Value: big.NewInt(0),
		Data: []byte{0x01, 0x02}, AccessList: ethtypes.AccessList{{Address: sst, StorageKeys: []common.Hash{h(0)}}}})
	return []c20Seed{
		{Name: "eth-legacy", Tx: w.WrapEth(legacy, c.Eth()), Eth: legacy},
		{Name: "eth-dynamic", Tx: w.WrapEth(dyn, c.Eth()), Eth: dyn},
		{Name: "bank-send", Tx: w.CosmosTx(c, accNum, 0, gas, fee, send)},
		{Name: "authz-exec", Tx: w.CosmosTx(c, accNum, 0, gas, fee, &exec)},
		{Name: "cpc-deploy-erc20", Tx: w.CosmosTx(c, accNum, 0, gas, fee, &cpctypes.MsgDeployErc20ContractRequest{
			Authority: c.Bech(), Name: "TWO", Symbol: "TWO", Decimals: 6, MinDenom: "utwo"})},
		{Name: "vauth-proof", Tx: w.CosmosTx(c, accNum, 0, gas, fee, &vauthtypes.MsgSubmitProofExternalOwnedAccount{
			Submitter: c.Bech(), Account: d.Bech(), Signature: "0x" + hex.EncodeToString(c20SignMsg(d, vauthtypes.MessageToSign))})},
	}
}

// c20SubstAt decodes index i of a substitution family over bz: position i/nv, value number i%nv. The first values are c20SubstValues,
// the thorough tier adds the eight single-bit flips of the original byte. Returns false when the mutant equals the original or
// repeats an earlier value number of the same position.
func c20SubstAt(bz []byte, i int, thorough bool) (pos int, val byte, ok bool) {
	nv := c20SubstCount(thorough)
	pos, vi := i/nv, i%nv
	orig := bz[pos]
	if vi < len(c20SubstValues) {
		val = c20SubstValues[vi]
	} else {
		val = orig ^ (1 << uint(vi-len(c20SubstValues)))
		for _, s := range c20SubstValues {
			if s == val {
				return pos, val, false
			}
		}
	}
	return pos, val, val != orig
}

func c20SubstCount(thorough bool) int {
	if thorough {
		return len(c20SubstValues) + 8
	}
	return len(c20SubstValues)
}

func c20With(bz []byte, pos int, val byte) []byte {
	out := append([]byte{}, bz...)
	out[pos] = val
	return out
}

// c20RawFamilies are the families of part (a) (also offered as X in part (d)).
//
//	bytes            all byte strings of length <= 2 (index 0 = empty, 1..256 = one byte, then two bytes in lexicographic order)
//	bytes3           (thorough) length-3 strings whose first byte is in c20S7
//	trunc:<seed>     seed[:i] for every i < len(seed)
//	subst:<seed>     every byte replaced by every substitution value
//	inner-trunc:<s>  MarshalledTx[:i] of the Ethereum seed re-wrapped in the otherwise valid envelope
//	inner-subst:<s>  every byte of MarshalledTx replaced by every substitution value, re-wrapped
//	from:<s>         the envelope's From field replaced by five malformed values
func c20RawFamilies(w *world.World, thorough bool) []c20Family {
	fams := []c20Family{{Name: "bytes", N: 1 + 256 + 65536, At: func(i int) (c20Input, bool) {
		switch {
		case i == 0:
			return c20Input{Raw: []byte{}}, true
		case i <= 256:
			return c20Input{Raw: []byte{byte(i - 1)}}, true
		}
		i -= 257
		return c20Input{Raw: []byte{byte(i >> 8), byte(i)}}, true
	}}}
	if thorough {
		fams = append(fams, c20Family{Name: "bytes3", N: len(c20S7) * 65536, At: func(i int) (c20Input, bool) {
			return c20Input{Raw: []byte{c20S7[i>>16], byte(i >> 8), byte(i)}}, true
		}})
	}
	seeds := c20Seeds(w)
	nv := c20SubstCount(thorough)
	for _, s := range seeds {
		s := s
		fams = append(fams,
			c20Family{Name: "trunc:" + s.Name, N: len(s.Tx), At: func(i int) (c20Input, bool) {
				return c20Input{Raw: append([]byte{}, s.Tx[:i]...), Label: fmt.Sprintf("[:%d]", i)}, true
			}},
			c20Family{Name: "subst:" + s.Name, N: len(s.Tx) * nv, At: func(i int) (c20Input, bool) {
				pos, val, ok := c20SubstAt(s.Tx, i, thorough)
				if !ok {
					return c20Input{}, false
				}
				return c20Input{Raw: c20With(s.Tx, pos, val), Label: fmt.Sprintf("[%d]=%02x", pos, val)}, true
			}})
	}
	cEth := w.Wallets[c20C].Eth()
	for _, s := range seeds {
		if s.Eth == nil {
			continue
		}
		s := s
		inner, err := s.Eth.MarshalBinary()
		if err != nil {
			panic(err)
		}
		wrap := func(mod func(m *evmtypes.MsgEthereumTx)) []byte {
			bz, err := w.WrapEthE(s.Eth, cEth, mod)
			if err != nil {
				panic(err)
			}
			return bz
		}
		fams = append(fams,
			c20Family{Name: "inner-trunc:" + s.Name, N: len(inner), At: func(i int) (c20Input, bool) {
				return c20Input{Raw: wrap(func(m *evmtypes.MsgEthereumTx) { m.MarshalledTx = append([]byte{}, inner[:i]...) }), Label: fmt.Sprintf("inner[:%d]", i)}, true
			}},
			c20Family{Name: "inner-subst:" + s.Name, N: len(inner) * nv, At: func(i int) (c20Input, bool) {
				pos, val, ok := c20SubstAt(inner, i, thorough)
				if !ok {
					return c20Input{}, false
				}
				return c20Input{Raw: wrap(func(m *evmtypes.MsgEthereumTx) { m.MarshalledTx = c20With(inner, pos, val) }), Label: fmt.Sprintf("inner[%d]=%02x", pos, val)}, true
			}})
		good := sdk.AccAddress(cEth.Bytes()).String()
		prefix := good[:strings.LastIndex(good, "1")]
		enc := func(hrp string, bz []byte) string {
			s, err := bech32.ConvertAndEncode(hrp, bz)
			if err != nil {
				panic(err)
			}
			return s
		}
		last := good[len(good)-1]
		flipped := byte('q')
		if last == 'q' {
			flipped = 'p'
		}
		froms := []struct{ label, v string }{
			{"empty", ""},
			{"wrong-prefix", enc("cosmos", cEth.Bytes())},
			{"bad-checksum", good[:len(good)-1] + string(flipped)},
			{"19-bytes", enc(prefix, cEth.Bytes()[:19])},
			{"21-bytes", enc(prefix, append(append([]byte{}, cEth.Bytes()...), 0x01))},
		}
		fams = append(fams, c20Family{Name: "from:" + s.Name, N: len(froms), At: func(i int) (c20Input, bool) {
			return c20Input{Raw: wrap(func(m *evmtypes.MsgEthereumTx) { m.From = froms[i].v }), Label: "from=" + froms[i].label}, true
		}})
	}
	return fams
}

// c20KindFamily offers every transaction kind of the shared alphabet (kit.go) from wallet C.
func c20KindFamily() c20Family {
	kinds := c20AllKinds()
	return c20Family{Name: "kinds", N: len(kinds), At: func(i int) (c20Input, bool) {
		return c20Input{Kind: kinds[i], Label: string(kinds[i])}, true
	}}
}

func c20AllKinds() []TxKind {
	return []TxKind{KTransfer, KLog1, KLog2, KLogRevert, KCreateOK, KCreateFail, KIntrinsicLow, KValueTooHigh, KBurn, KBadNonce,
		KCosmosSend, KSstore, KSclear, KSuicide, KSuicide2, KInvalid, KOutOfGas}
}

// ---------------------------------------------------------------------------
// precompile call data
// ---------------------------------------------------------------------------

// c20PcContract is one registered custom precompiled contract with its ABI.
type c20PcContract struct {
	Addr      common.Address
	Name      string
	Type      uint32
	ABI       *abi.ABI
	Selectors [][]byte // selectors registered by the contract's method executors
}

// c20PcContracts enumerates the registry (keeper) of custom precompiled contracts in the given world.
func c20PcContracts(w *world.World) []c20PcContract {
	var out []c20PcContract
	for _, c := range w.App.CPCKeeper.GetAllCustomPrecompiledContracts(w.Ctx()) {
		meta := c.GetMetadata()
		pc := c20PcContract{Addr: common.BytesToAddress(meta.Address), Name: meta.Name, Type: meta.CustomPrecompiledType}
		switch meta.CustomPrecompiledType {
		case cpctypes.CpcTypeErc20:
			pc.ABI = &cpcabi.Erc20CpcInfo.ABI
		case cpctypes.CpcTypeStaking:
			pc.ABI = &cpcabi.StakingCpcInfo.ABI
		case cpctypes.CpcTypeBech32:
			pc.ABI = &cpcabi.Bech32CpcInfo.ABI
		}
		for _, e := range c.GetMethodExecutors() {
			pc.Selectors = append(pc.Selectors, append([]byte{}, e.Method4BytesSignatures()...))
		}
		out = append(out, pc)
	}
	sort.Slice(out, func(i, j int) bool { return strings.Compare(out[i].Addr.Hex(), out[j].Addr.Hex()) < 0 })
	return out
}

// c20AbiValue builds a well-formed value for an ABI type; argument names select meaningful values where the contracts parse strings.
func c20AbiValue(w *world.World, t abi.Type, name string) reflect.Value {
	lname := strings.ToLower(name)
	switch t.T {
	case abi.AddressTy:
		a := w.Wallets[c20D].Eth()
		switch {
		case strings.Contains(lname, "validator"):
			a = w.Validators[0].Eth()
			if strings.HasPrefix(lname, "dst") {
				a = w.Validators[1].Eth()
			}
		case lname == "owner" || lname == "from" || lname == "account" || lname == "delegator":
			a = w.Wallets[c20C].Eth()
		}
		return reflect.ValueOf(a)
	case abi.UintTy, abi.IntTy:
		if t.Size > 64 {
			return reflect.ValueOf(big.NewInt(1))
		}
		v := reflect.New(t.GetType()).Elem()
		if t.T == abi.UintTy {
			v.SetUint(1)
			if lname == "v" {
				v.SetUint(27)
			}
		} else {
			v.SetInt(1)
		}
		return v
	case abi.BoolTy:
		return reflect.ValueOf(true)
	case abi.StringTy:
		s := "x"
		switch {
		case lname == "hrp":
			s = "evm"
		case lname == "bech32":
			s = w.Wallets[c20C].Bech()
		case lname == "oldvalidator":
			s = "-"
		case strings.Contains(lname, "validator"):
			s = w.Validators[0].Val().String()
		case lname == "action":
			s = cpcabi.StakingMessageActionDelegate
		case lname == "denom":
			s = world.Denom
		}
		return reflect.ValueOf(s)
	case abi.BytesTy:
		return reflect.ValueOf(w.Wallets[c20C].Eth().Bytes())
	case abi.FixedBytesTy, abi.ArrayTy:
		v := reflect.New(t.GetType()).Elem()
		for i := 0; i < v.Len(); i++ {
			if t.T == abi.FixedBytesTy {
				v.Index(i).SetUint(0x11)
			} else {
				v.Index(i).Set(c20AbiValue(w, *t.Elem, name))
			}
		}
		return v
	case abi.SliceTy:
		v := reflect.MakeSlice(t.GetType(), 1, 1)
		v.Index(0).Set(c20AbiValue(w, *t.Elem, name))
		return v
	case abi.TupleTy:
		v := reflect.New(t.TupleType).Elem()
		for i, el := range t.TupleElems {
			v.Field(i).Set(c20AbiValue(w, *el, t.TupleRawNames[i]))
		}
		return v
	}
	panic(fmt.Sprintf("c20: ABI type %s (%d) of argument %q has no value generator; extend c20AbiValue", t.String(), t.T, name))
}

// c20ValidCall packs a well-formed call of the method.
func c20ValidCall(w *world.World, m abi.Method) []byte {
	var args []interface{}
	for _, in := range m.Inputs {
		args = append(args, c20AbiValue(w, in.Type, in.Name).Interface())
	}
	packed, err := m.Inputs.Pack(args...)
	if err != nil {
		panic(fmt.Sprintf("c20: cannot pack a valid call of %s: %v", m.Sig, err))
	}
	return append(append([]byte{}, m.ID...), packed...)
}

// c20PcCase is one call-data input of part (b).
type c20PcCase struct {
	Contract common.Address
	Method   string // method name, or "sel:<hex>" for a registered selector without ABI entry, or "unknown"
	Mut      string
	Data     []byte
	Boundary bool // cheap subset that the quick tier also sends through EstimateGas
	View0    bool // well-formed call of a view method without arguments
}

var c20WordValues = func() map[string][]byte {
	max := make([]byte, 32)
	for i := range max {
		max[i] = 0xff
	}
	off := make([]byte, 32)
	off[0] = 0x80 // 2^255
	x20 := make([]byte, 32)
	x20[31] = 0x20
	return map[string][]byte{"zero": make([]byte, 32), "max": max, "2^255": off, "0x20": x20}
}()
var c20WordNames = []string{"zero", "max", "2^255", "0x20"}

// c20PcCases lists, for one contract: for every method the valid call, the bare selector, every truncation, every 32-byte word
// replaced by each of four values, trailing garbage of 1/31/32/33 bytes; plus two unknown selectors. Duplicates are dropped.
func c20PcCases(w *world.World, pc c20PcContract) []c20PcCase {
	var out []c20PcCase
	seen := map[string]bool{}
	view0 := false
	add := func(method, mut string, data []byte, boundary bool) {
		k := method + "|" + hex.EncodeToString(data)
		if seen[k] {
			return
		}
		seen[k] = true
		out = append(out, c20PcCase{Contract: pc.Addr, Method: method, Mut: mut, Data: append([]byte{}, data...), Boundary: boundary, View0: view0 && mut == "valid"})
	}
	type mm struct {
		name  string
		valid []byte
		view0 bool
	}
	var methods []mm
	known := map[string]bool{}
	if pc.ABI != nil {
		var names []string
		for n := range pc.ABI.Methods {
			names = append(names, n)
		}
		sort.Strings(names)
		for _, n := range names {
			m := pc.ABI.Methods[n]
			methods = append(methods, mm{n, c20ValidCall(w, m), len(m.Inputs) == 0 && m.StateMutability == "view"})
			known[hex.EncodeToString(m.ID)] = true
		}
	}
	for _, sel := range pc.Selectors { // registered executors the ABI does not describe: selector + three plain words
		if !known[hex.EncodeToString(sel)] {
			methods = append(methods, mm{"sel:" + hex.EncodeToString(sel), append(append([]byte{}, sel...), make([]byte, 96)...), false})
		}
	}
	for _, m := range methods {
		v := m.valid
		view0 = m.view0
		add(m.name, "valid", v, true)
		add(m.name, "selector-only", v[:4], true)
		for i := 0; i < len(v); i++ {
			add(m.name, fmt.Sprintf("trunc[:%d]", i), v[:i], i < 5 || i%32 == 4 || i%32 == 3 || i%32 == 5)
		}
		for wi := 0; 4+32*(wi+1) <= len(v); wi++ {
			for _, wn := range c20WordNames {
				mut := append([]byte{}, v...)
				copy(mut[4+32*wi:], c20WordValues[wn])
				add(m.name, fmt.Sprintf("word[%d]=%s", wi, wn), mut, true)
			}
		}
		for _, n := range []int{1, 31, 32, 33} {
			g := append([]byte{}, v...)
			for i := 0; i < n; i++ {
				g = append(g, 0xff)
			}
			add(m.name, fmt.Sprintf("garbage+%d", n), g, true)
		}
	}
	view0 = false
	add("unknown", "unknown-selector", append([]byte{0xde, 0xad, 0xbe, 0xef}, make([]byte, 64)...), true)
	add("unknown", "unknown-selector-bare", []byte{0xde, 0xad, 0xbe, 0xef}, true)
	return out
}

// c20PcFamilies: one family per registered contract ("pc:<address>").
func c20PcFamilies(w *world.World) ([]c20Family, [][]c20PcCase) {
	var fams []c20Family
	var all [][]c20PcCase
	for _, pc := range c20PcContracts(w) {
		cases := c20PcCases(w, pc)
		all = append(all, cases)
		fams = append(fams, c20Family{Name: "pc:" + strings.ToLower(pc.Addr.Hex()), N: len(cases), At: func(i int) (c20Input, bool) {
			c := cases[i]
			return c20Input{To: &c.Contract, Data: c.Data, Label: c.Method + "/" + c.Mut, MustSucceed: c.View0, Boundary: c.Boundary}, true
		}})
	}
	return fams, all
}

// c20FamilyKind strips the seed / address suffix of a family name (used in distinct keys).
func c20FamilyKind(name string) string {
	if strings.HasPrefix(name, "pc:") {
		return "pc"
	}
	return name
}

// c20AllValueFamilies (thorough tier, part (a) only): every byte of every seed, and of the MarshalledTx of the Ethereum seeds,
// replaced by each of the 255 other values.
func c20AllValueFamilies(w *world.World) []c20Family {
	var fams []c20Family
	cEth := w.Wallets[c20C].Eth()
	for _, s := range c20Seeds(w) {
		s := s
		fams = append(fams, c20Family{Name: "substall:" + s.Name, N: len(s.Tx) * 256, At: func(i int) (c20Input, bool) {
			pos, val := i/256, byte(i%256)
			if s.Tx[pos] == val {
				return c20Input{}, false
			}
			return c20Input{Raw: c20With(s.Tx, pos, val), Label: fmt.Sprintf("[%d]=%02x", pos, val)}, true
		}})
		if s.Eth == nil {
			continue
		}
		inner, err := s.Eth.MarshalBinary()
		if err != nil {
			panic(err)
		}
		fams = append(fams, c20Family{Name: "inner-substall:" + s.Name, N: len(inner) * 256, At: func(i int) (c20Input, bool) {
			pos, val := i/256, byte(i%256)
			if inner[pos] == val {
				return c20Input{}, false
			}
			bz, err := w.WrapEthE(s.Eth, cEth, func(m *evmtypes.MsgEthereumTx) { m.MarshalledTx = c20With(inner, pos, val) })
			if err != nil {
				panic(err)
			}
			return c20Input{Raw: bz, Label: fmt.Sprintf("inner[%d]=%02x", pos, val)}, true
		}})
	}
	return fams
}
