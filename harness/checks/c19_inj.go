package checks

// C19 (4) EIP-712 injectivity and cross-document signature checks; staking-precompile typed messages.

import (
	"bytes"
	"fmt"
	"math/big"
	"strings"

	txtypes "github.com/cosmos/cosmos-sdk/types/tx"
	"github.com/ethereum/go-ethereum/common"
	cmath "github.com/ethereum/go-ethereum/common/math"
	gethcrypto "github.com/ethereum/go-ethereum/crypto"
	"github.com/ethereum/go-ethereum/signer/core/apitypes"

	"github.com/EscanBE/evermint/v12/crypto/ethsecp256k1"
	"github.com/EscanBE/evermint/v12/ethereum/eip712"
	cpcabi "github.com/EscanBE/evermint/v12/x/cpc/abi"
	cpceip712 "github.com/EscanBE/evermint/v12/x/cpc/eip712"

	"verif/harness/ev"
)

// ---------------------------------------------------------------------------
// one document: renders or is refused, never panics
// ---------------------------------------------------------------------------

type c19DocCase struct {
	Doc      c19Doc `json:"doc"`
	MustWork bool   `json:"must_render,omitempty"`
}

func c19ErrClass(err error) string {
	s := err.Error()
	for _, k := range []string{"multiple signers", "invalid chain ID", "extra data", "expect exactly 1 signer", "unsupported fields", "dataMismatch", "provided data", "failed to unmarshal", "encoder panic", "invalid number of signer"} {
		if strings.Contains(s, k) {
			return k
		}
	}
	if len(s) > 60 {
		s = s[:60]
	}
	return s
}

func (e *c19Env) evalDoc(c c19DocCase) (fs []ev.Finding, class string) {
	fail := func(clause, detail string) {
		fs = append(fs, ev.Finding{Clause: clause, Detail: detail, Replay: map[string]interface{}{"doc": c}})
	}
	sb, err := c19SignBytes(c.Doc, e.signerPub())
	if err != nil {
		if c.MustWork {
			fail("alphabet-sanity", "base document cannot be encoded: "+err.Error())
		}
		return fs, "not-encodable:" + c19ErrClass(err)
	}
	out, rerr, p := c19Render(sb)
	e.run.Count("evaluations", 1)
	if p != "" {
		fs = append(fs, ev.Finding{Clause: "eip712-rendering-never-panics", Signature: c19PanicSignature(sb, p), Detail: fmt.Sprintf("%s document %s: panic %s", c.Doc.Enc, c.Doc.logical(), p), Replay: map[string]interface{}{"doc": c}})
		return fs, "panic"
	}
	if rerr != nil {
		if c.MustWork {
			fail("alphabet-sanity", "base document is refused: "+rerr.Error())
		}
		return fs, "refused:" + c19ErrClass(rerr)
	}
	// the bytes that get hashed are \x19\x01 || domainSeparator || hashStruct(message), as go-ethereum computes them from the typed data
	var td apitypes.TypedData
	var hash []byte
	p = c19Trap(func() {
		var e2 error
		td, e2 = eip712.GetEIP712TypedDataForMsg(sb)
		if e2 == nil {
			hash, _, e2 = apitypes.TypedDataAndHash(td)
		}
		if e2 != nil {
			hash = nil
		}
	})
	e.run.Count("evaluations", 1)
	if p != "" {
		fail("eip712-rendering-never-panics", "typed data: panic "+p)
		return fs, "panic"
	}
	if len(out) != 66 || out[0] != 0x19 || out[1] != 0x01 || !bytes.Equal(hash, c19Keccak(out)) {
		fail("eip712-bytes-are-the-typed-data-preimage", fmt.Sprintf("len=%d hash=%x keccak=%x", len(out), hash, c19Keccak(out)))
	}
	return fs, "rendered"
}

// ---------------------------------------------------------------------------
// two different documents never share a digest
// ---------------------------------------------------------------------------

type c19CollideCase struct {
	A c19Doc `json:"a"`
	B c19Doc `json:"b"`
}

func (e *c19Env) digestOf(d c19Doc) (dg []byte, ok bool) {
	sb, err := c19SignBytes(d, e.signerPub())
	if err != nil {
		return nil, false
	}
	out, rerr, p := c19Render(sb)
	if rerr != nil || p != "" {
		return nil, false
	}
	return c19Keccak(out), true
}

func (e *c19Env) evalCollide(c c19CollideCase) (fs []ev.Finding, class string) {
	da, oka := e.digestOf(c.A)
	db, okb := e.digestOf(c.B)
	e.run.Count("evaluations", 2)
	if !oka || !okb {
		return nil, "not-rendered"
	}
	if c.A.logical() != c.B.logical() && bytes.Equal(da, db) {
		return []ev.Finding{{Clause: "eip712-digest-is-injective-in-listed-fields", Detail: fmt.Sprintf("documents %s and %s differ in %s but share the typed-data hash %x", c.A.id(), c.B.id(), c19DiffDocs(c.A, c.B), da),
			Replay: map[string]interface{}{"collision": c}}}, "COLLISION"
	}
	return nil, "distinct"
}

func c19DiffDocs(a, b c19Doc) string {
	var d []string
	for k := range a.H {
		if a.H[k] != b.H[k] {
			d = append(d, k)
		}
	}
	for k := range b.H {
		if _, ok := a.H[k]; !ok {
			d = append(d, k)
		}
	}
	for i := range a.Msgs {
		if i >= len(b.Msgs) {
			break
		}
		for k := range a.Msgs[i].F {
			if a.Msgs[i].F[k] != b.Msgs[i].F[k] {
				d = append(d, fmt.Sprintf("msg%d.%s", i, k))
			}
		}
		for k := range b.Msgs[i].F {
			if _, ok := a.Msgs[i].F[k]; !ok {
				d = append(d, fmt.Sprintf("msg%d.%s", i, k))
			}
		}
	}
	return strings.Join(d, ",")
}

// ---------------------------------------------------------------------------
// a signature for document A never verifies against document B
// ---------------------------------------------------------------------------

type c19PairCase struct {
	Signer c19Key `json:"signer"`
	A      c19Doc `json:"a"`
	B      c19Doc `json:"b"`
}

type c19RowCase struct {
	Signer c19Key `json:"signer"`
	DocIdx int    `json:"doc_index"`
	Cross  bool   `json:"cross_family"`
	AllRaw bool   `json:"all_raw"`
}

type c19Rendered struct {
	sb      []byte // sign bytes (nil: not encodable)
	eip     []byte // EIP-712 bytes (nil: refused)
	logical string
}

func (e *c19Env) rendered() []c19Rendered {
	if e.cache != nil {
		return e.cache
	}
	e.cache = make([]c19Rendered, len(e.docs))
	for i, d := range e.docs {
		r := c19Rendered{logical: d.Doc.logical()}
		if sb, err := c19SignBytes(d.Doc, e.signerPub()); err == nil {
			r.sb = sb
			if out, rerr, p := c19Render(sb); rerr == nil && p == "" {
				r.eip = out
			}
		}
		e.cache[i] = r
	}
	return e.cache
}

type c19Sigs struct{ raw, eip []byte }

func (e *c19Env) pairVerdict(signer c19Key, a, b c19Doc, ra, rb c19Rendered, pre *c19Sigs, kinds ...string) (fs []ev.Finding, classes []string) {
	fail := func(clause, detail string) {
		fs = append(fs, ev.Finding{Clause: clause, Detail: detail, Replay: map[string]interface{}{"pair": c19PairCase{Signer: signer, A: a, B: b}}})
	}
	if ra.sb == nil || rb.sb == nil {
		return nil, []string{"not-encodable"}
	}
	priv := signer.priv()
	pk := priv.PubKey().(*ethsecp256k1.PubKey)
	sameLogical := ra.logical == rb.logical
	sameDoc := sameLogical && a.Enc == b.Enc
	rel := "different-document"
	if sameDoc {
		rel = "same-document"
	} else if sameLogical {
		rel = "same-logical-other-encoding"
	}
	check := func(kind string, signed []byte) {
		var sig []byte
		if pre != nil && kind == "raw" && pre.raw != nil {
			sig = pre.raw
		} else if pre != nil && kind == "eip712" && pre.eip != nil {
			sig = pre.eip
		} else {
			var err error
			if sig, err = priv.Sign(signed); err != nil {
				fail("alphabet-sanity", "Sign: "+err.Error())
				return
			}
			if pre != nil && kind == "raw" {
				pre.raw = sig
			} else if pre != nil {
				pre.eip = sig
			}
		}
		got, p := c19Verify(pk, rb.sb, sig)
		e.run.Count("evaluations", 1)
		desc := fmt.Sprintf("%s signature of %s for document A=%s verified against B=%s (differs in %s): %v", kind, signer.Name, a.id(), b.id(), c19DiffDocs(a, b), got)
		if p != "" {
			fail("verification-never-panics", desc+": panic "+p)
			return
		}
		classes = append(classes, fmt.Sprintf("%s:%s:%v", kind, rel, got))
		switch {
		case sameDoc && !got:
			fail("signature-of-key-and-message-verifies", desc)
		case !sameLogical && got:
			fail("signature-for-one-transaction-never-authorises-another", desc)
		case sameLogical && !sameDoc && kind == "raw" && got:
			fail("signature-verifies-only-for-the-signed-message", desc)
		}
	}
	if len(kinds) == 0 || kinds[0] == "raw" {
		check("raw", ra.sb)
	}
	if len(kinds) == 1 && kinds[0] == "raw" {
		return
	}
	if ra.eip != nil {
		check("eip712", ra.eip)
	} else {
		classes = append(classes, "eip712:A-refused")
	}
	return
}

func (e *c19Env) evalPair(c c19PairCase) (fs []ev.Finding, class string) {
	mk := func(d c19Doc) c19Rendered {
		r := c19Rendered{logical: d.logical()}
		if sb, err := c19SignBytes(d, e.signerPub()); err == nil {
			r.sb = sb
			if out, rerr, p := c19Render(sb); rerr == nil && p == "" {
				r.eip = out
			}
		}
		return r
	}
	fs, cl := e.pairVerdict(c.Signer, c.A, c.B, mk(c.A), mk(c.B), nil)
	return fs, strings.Join(cl, ",")
}

// evalRow: document A against every document B of its family (or of all families).
func (e *c19Env) evalRow(c c19RowCase) (fs []ev.Finding, class string) {
	rs := e.rendered()
	a := e.docs[c.DocIdx]
	n := 0
	pre := &c19Sigs{}
	for j, b := range e.docs {
		if !c.Cross && b.Fam != a.Fam {
			continue
		}
		// a raw signature against another document takes the same path as an EIP-712 one (raw check fails, fallback renders B):
		// it is evaluated against every document of the own family in the thorough tier, and against the base document and
		// both encodings of the own logical document in the quick tier; EIP-712 signatures against every B
		var kinds []string
		if b.Fam != a.Fam || (!c.AllRaw && b.Idx != a.Idx && b.Idx != 0) {
			kinds = []string{"eip712"}
		}
		f, cl := e.pairVerdict(c.Signer, a.Doc, b.Doc, rs[c.DocIdx], rs[j], pre, kinds...)
		fs = append(fs, f...)
		for _, x := range cl {
			e.run.Outcome("pair:" + x)
		}
		n++
	}
	e.run.Count("document_pairs", int64(n))
	if len(fs) > 0 {
		return fs, "FAIL"
	}
	return fs, "row-ok"
}

// ---------------------------------------------------------------------------
// staking precompile typed messages (x/cpc/eip712)
// ---------------------------------------------------------------------------

type c19CpcMsg struct {
	Type         string `json:"type"` // staking | withdraw
	Action       string `json:"action,omitempty"`
	Delegator    string `json:"delegator"`
	Validator    string `json:"validator"`
	Amount       string `json:"amount,omitempty"`
	Denom        string `json:"denom,omitempty"`
	OldValidator string `json:"old_validator,omitempty"`
	ChainID      string `json:"chain_id"`
}

func (m c19CpcMsg) build() (cpceip712.TypedMessage, *big.Int) {
	ch, _ := new(big.Int).SetString(m.ChainID, 10)
	if m.Type == "withdraw" {
		return cpcabi.WithdrawRewardMessage{Delegator: common.HexToAddress(m.Delegator), FromValidator: m.Validator}, ch
	}
	amt, _ := new(big.Int).SetString(m.Amount, 10)
	return cpcabi.StakingMessage{Action: m.Action, Delegator: common.HexToAddress(m.Delegator), Validator: m.Validator, Amount: amt, Denom: m.Denom, OldValidator: m.OldValidator}, ch
}

type c19CpcCase struct {
	A       c19CpcMsg `json:"a"` // signed
	B       c19CpcMsg `json:"b"` // presented to VerifySignature
	Signer  c19Key    `json:"signer"`
	Claimed c19Key    `json:"claimed"` // expectedAddress = address of this key
	V       string    `json:"v"`       // as-is | +27 | flipped | 2 | 29 | 255
}

func (e *c19Env) evalCpc(c c19CpcCase) (fs []ev.Finding, class string) {
	fail := func(clause, detail string) {
		fs = append(fs, ev.Finding{Clause: clause, Detail: detail, Replay: map[string]interface{}{"cpc": c}})
	}
	var da, db []byte
	var match bool
	var verr error
	same := c.A == c.B
	p := c19Trap(func() {
		ma, cha := c.A.build()
		mb, chb := c.B.build()
		var err error
		if da, err = cpceip712.EIP712HashingTypedMessage(ma, cha); err != nil {
			verr = err
			return
		}
		if db, err = cpceip712.EIP712HashingTypedMessage(mb, chb); err != nil {
			verr = err
			return
		}
		e.run.Count("evaluations", 3)
		// independent: go-ethereum's own typed-data hashing
		if h, _, err := apitypes.TypedDataAndHash(ma.ToTypedData(cha)); err != nil || !bytes.Equal(h, da) {
			fail("cpc-typed-message-digest-is-the-eip712-hash", fmt.Sprintf("repo %x, go-ethereum %x (%v)", da, h, err))
		}
		ec, err := c.Signer.priv().ToECDSA()
		if err != nil {
			verr = err
			return
		}
		sig, err := gethcrypto.Sign(da, ec)
		if err != nil {
			verr = err
			return
		}
		v := sig[64]
		switch c.V {
		case "+27":
			v += 27
		case "flipped":
			v ^= 1
		case "2", "29", "255":
			var x int
			fmt.Sscan(c.V, &x)
			v = byte(x)
		}
		var r, s [32]byte
		copy(r[:], sig[:32])
		copy(s[:], sig[32:64])
		// expected address computed independently of PubKey.Address(): Keccak(X||Y)[12:] of d·G
		cx, cy := c19RefPoint(c.Claimed.priv().Key)
		claimed := common.BytesToAddress(c19Keccak(cx.FillBytes(make([]byte, 32)), cy.FillBytes(make([]byte, 32)))[12:])
		var rec common.Address
		match, rec, verr = cpceip712.VerifySignature(claimed, mb, r, s, v, chb)
		if verr == nil && match && rec != claimed {
			fail("cpc-signature-only-accepts-the-signer", "match with a different recovered address")
		}
		verr = nil
	})
	if p != "" {
		fail("verification-never-panics", "panic "+p)
		return fs, "panic"
	}
	if verr != nil {
		fail("alphabet-sanity", "typed message cannot be hashed/signed: "+verr.Error())
		return fs, "error"
	}
	if !same && bytes.Equal(da, db) {
		fail("cpc-typed-message-digest-is-injective", fmt.Sprintf("%+v and %+v share digest %x", c.A, c.B, da))
	}
	want := same && c.Signer.Hex == c.Claimed.Hex && (c.V == "as-is" || c.V == "+27")
	desc := fmt.Sprintf("signer %s claimed %s v=%s signed %+v presented %+v: match=%v want %v", c.Signer.Name, c.Claimed.Name, c.V, c.A, c.B, match, want)
	if match && !want {
		fail("cpc-signature-only-accepts-the-signer-and-the-signed-message", desc)
	}
	if !match && want {
		fail("signature-of-key-and-message-verifies", desc)
	}
	rel := "other-message"
	if same {
		rel = "same-message"
	}
	kr := "other-key"
	if c.Signer.Hex == c.Claimed.Hex {
		kr = "same-key"
	}
	return fs, fmt.Sprintf("%s:%s:v=%s:%v", rel, kr, c.V, match)
}

func c19CpcMsgs(valA, valB string) (out []c19CpcMsg, how []string) {
	const d1, d2 = "0x1111111111111111111111111111111111111111", "0x1111111111111111111111111111111111111112"
	base := c19CpcMsg{Type: "staking", Action: cpcabi.StakingMessageActionDelegate, Delegator: d1, Validator: valA, Amount: "1000", Denom: "wei", OldValidator: "-", ChainID: "80808"}
	add := func(m c19CpcMsg, h string) { out = append(out, m); how = append(how, h) }
	add(base, "base")
	for _, a := range []string{cpcabi.StakingMessageActionUndelegate, cpcabi.StakingMessageActionRedelegate, "delegate", ""} {
		m := base
		m.Action = a
		add(m, "action")
	}
	for _, v := range []string{d2, "0x0000000000000000000000000000000000000000"} {
		m := base
		m.Delegator = v
		add(m, "delegator")
	}
	for _, v := range []string{valB, valA + "x", ""} {
		m := base
		m.Validator = v
		add(m, "validator")
	}
	for _, v := range []string{"1001", "10000", "1", "0", "115792089237316195423570985008687907853269984665640564039457584007913129639935"} {
		m := base
		m.Amount = v
		add(m, "amount")
	}
	for _, v := range []string{"uatom", "wej", ""} {
		m := base
		m.Denom = v
		add(m, "denom")
	}
	for _, v := range []string{valA, valB, ""} {
		m := base
		m.OldValidator = v
		add(m, "oldValidator")
	}
	for _, v := range []string{"80809", "1", "0"} {
		m := base
		m.ChainID = v
		add(m, "chainId")
	}
	{ // validator <-> oldValidator
		m := base
		m.Action, m.OldValidator = cpcabi.StakingMessageActionRedelegate, valB
		add(m, "redelegate A<-B")
		m.Validator, m.OldValidator = valB, valA
		add(m, "redelegate B<-A")
	}
	wb := c19CpcMsg{Type: "withdraw", Delegator: d1, Validator: valA, ChainID: "80808"}
	add(wb, "withdraw-base")
	for _, v := range []string{valB, cpcabi.WithdrawRewardMessageActionWithdrawFromAllValidators, ""} {
		m := wb
		m.Validator = v
		add(m, "fromValidator")
	}
	{
		m := wb
		m.Delegator = d2
		add(m, "withdraw-delegator")
		m = wb
		m.ChainID = "80809"
		add(m, "withdraw-chainId")
	}
	return
}

var _ = cmath.MaxBig256

// c19PanicSignature classifies a panic of the EIP-712 rendering: the known defect is exactly "protobuf SignDoc that decodes
// (SignDoc, TxBody, AuthInfo with one signer info) but whose AuthInfo carries no fee" -> nil pointer dereference at
// ethereum/eip712/encoding.go (authInfo.Fee.Amount). Any other panic keeps an empty signature.
func c19PanicSignature(signBytes []byte, panicText string) string {
	if !strings.Contains(panicText, "nil pointer dereference") {
		return ""
	}
	var sd txtypes.SignDoc
	var ai txtypes.AuthInfo
	var body txtypes.TxBody
	if sd.Unmarshal(signBytes) != nil || ai.Unmarshal(sd.AuthInfoBytes) != nil || body.Unmarshal(sd.BodyBytes) != nil {
		return ""
	}
	if ai.Fee == nil && len(ai.SignerInfos) == 1 && len(body.Messages) > 0 {
		return "C19/eip712-protobuf-signdoc-without-fee-nil-dereference"
	}
	return ""
}
