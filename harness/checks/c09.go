package checks

import (
	"encoding/json"
	"fmt"
	"math"
	"math/big"
	"os"
	"strings"

	sdkmath "cosmossdk.io/math"
	storetypes "cosmossdk.io/store/types"
	abci "github.com/cometbft/cometbft/abci/types"
	cmtproto "github.com/cometbft/cometbft/proto/tendermint/types"
	ethtypes "github.com/ethereum/go-ethereum/core/types"

	feemarkettypes "github.com/EscanBE/evermint/v12/x/feemarket/types"

	"verif/harness/ev"
	"verif/harness/world"
)

func init() { Registry["C09"] = runC09 }

// refBaseFee is the property's formula, written independently of the implementation.
// ok=false when the property fixes no value (gas target 0, i.e. MaxGas 1).
// A consensus MaxGas of −1 and of 0 both mean "no block gas limit" (baseapp builds an infinite block gas meter for either): the
// block gas limit the formula halves is then the largest representable one.
func refBaseFee(b *big.Int, used uint64, maxGas int64, minFloor *big.Int) (*big.Int, bool) {
	var limit uint64
	if maxGas <= 0 {
		limit = math.MaxUint64
	} else {
		limit = uint64(maxGas)
	}
	t := limit / 2
	if t == 0 {
		return nil, false
	}
	if used > limit {
		used = limit
	}
	next := new(big.Int).Set(b)
	T := new(big.Int).SetUint64(t)
	switch {
	case used == t:
	case used > t:
		d := new(big.Int).Mul(b, new(big.Int).SetUint64(used-t))
		d.Div(d, T)
		d.Div(d, big.NewInt(8))
		if d.Sign() == 0 {
			d = big.NewInt(1)
		}
		next.Add(next, d)
	default:
		d := new(big.Int).Mul(b, new(big.Int).SetUint64(t-used))
		d.Div(d, T)
		d.Div(d, big.NewInt(8))
		next.Sub(next, d)
		if next.Sign() < 0 {
			next = new(big.Int)
		}
	}
	if next.Cmp(minFloor) < 0 {
		next = new(big.Int).Set(minFloor)
	}
	return next, true
}

type c09GridCase struct {
	BaseFee  string `json:"base_fee"`
	MaxGas   int64  `json:"max_gas"`
	Used     uint64 `json:"gas_used"`
	MinGas   string `json:"min_gas_price"`
	NilBlock bool   `json:"nil_block_params,omitempty"`
}

func pow2(n uint) *big.Int { return new(big.Int).Lsh(big.NewInt(1), n) }

func c09Grid() []c09GridCase {
	fees := []*big.Int{big.NewInt(0), big.NewInt(1), big.NewInt(7), big.NewInt(8), big.NewInt(9), big.NewInt(1_000_000_000),
		new(big.Int).Sub(pow2(64), big.NewInt(1)), pow2(64), pow2(128), pow2(200), pow2(255)}
	maxGases := []int64{-1, 0, 1, 2, 3, 16, 21000, 100_000, 40_000_000, math.MaxInt64}
	mins := []string{"0", "0.5", "1", "1000000000", "1000000000.9", new(big.Int).Set(pow2(200)).String()}
	var out []c09GridCase
	for _, f := range fees {
		for _, mg := range maxGases {
			var limit uint64
			if mg < 0 {
				limit = math.MaxUint64
			} else {
				limit = uint64(mg)
			}
			t := limit / 2
			us := map[uint64]bool{0: true, 1: true, t: true, t + 1: true, limit: true}
			if t > 0 {
				us[t-1] = true
			}
			if limit > 0 {
				us[limit-1] = true
			}
			if limit < math.MaxUint64 {
				us[limit+1] = true
			}
			if mg <= 0 {
				us[21000] = true
				us[1<<40] = true
			}
			for u := range us {
				for _, m := range mins {
					out = append(out, c09GridCase{BaseFee: f.String(), MaxGas: mg, Used: u, MinGas: m})
				}
			}
		}
		out = append(out, c09GridCase{BaseFee: f.String(), MaxGas: 0, Used: 21000, MinGas: "0", NilBlock: true})
	}
	// deterministic order
	sortGrid(out)
	return out
}

func sortGrid(g []c09GridCase) {
	key := func(c c09GridCase) string {
		return fmt.Sprintf("%080s|%020d|%020d|%s|%v", c.BaseFee, uint64(c.MaxGas+2), c.Used, c.MinGas, c.NilBlock)
	}
	for i := 1; i < len(g); i++ {
		for j := i; j > 0 && key(g[j]) < key(g[j-1]); j-- {
			g[j], g[j-1] = g[j-1], g[j]
		}
	}
}

// c09GridEval runs the real keeper on one grid point.
func c09GridEval(w *world.World, c c09GridCase) (got *big.Int, panicMsg string) {
	ctx, _ := w.Ctx().CacheContext()
	b, _ := new(big.Int).SetString(c.BaseFee, 10)
	mgp := sdkmath.LegacyMustNewDecFromStr(c.MinGas)
	if err := w.App.FeeMarketKeeper.SetParams(ctx, feemarkettypes.Params{BaseFee: sdkmath.NewIntFromBigInt(b), MinGasPrice: mgp}); err != nil {
		return nil, "setparams: " + err.Error()
	}
	cp := *w.ConsParams
	if c.NilBlock {
		cp.Block = nil
	} else {
		cp.Block = &cmtproto.BlockParams{MaxBytes: 200000, MaxGas: c.MaxGas}
	}
	// block gas meter as baseapp builds it: limited when MaxGas > 0, infinite otherwise
	var meter storetypes.GasMeter
	if !c.NilBlock && c.MaxGas > 0 {
		meter = storetypes.NewGasMeter(uint64(c.MaxGas))
	} else {
		meter = storetypes.NewInfiniteGasMeter()
	}
	func() {
		defer func() { _ = recover() }() // consuming past the limit panics but is recorded, exactly as in baseapp
		meter.ConsumeGas(c.Used, "fill")
	}()
	ctx = ctx.WithConsensusParams(cp).WithBlockGasMeter(meter)
	func() {
		defer func() {
			if r := recover(); r != nil {
				panicMsg = fmt.Sprint(r)
			}
		}()
		got = w.App.FeeMarketKeeper.CalculateBaseFee(ctx).BigInt()
	}()
	return
}

func c09CheckGrid(c c09GridCase, got *big.Int, panicMsg string) []ev.Finding {
	var out []ev.Finding
	fail := func(clause, sig, detail string) {
		out = append(out, ev.Finding{Clause: clause, Signature: sig, Detail: detail, Replay: map[string]interface{}{"grid": c}})
	}
	desc := fmt.Sprintf("baseFee=%s maxGas=%d used=%d minGasPrice=%s nilBlock=%v", c.BaseFee, c.MaxGas, c.Used, c.MinGas, c.NilBlock)
	if panicMsg != "" {
		sig := ""
		if strings.Contains(panicMsg, "division by zero") && !c.NilBlock && (c.MaxGas == 0 || c.MaxGas == 1) {
			sig = "C09/zero-gas-target-division-by-zero"
		}
		fail("computation-never-fails", sig, desc+": panic "+panicMsg)
		return out
	}
	b, _ := new(big.Int).SetString(c.BaseFee, 10)
	minFloor := sdkmath.LegacyMustNewDecFromStr(c.MinGas).TruncateInt().BigInt()
	if got.Sign() < 0 {
		fail("never-negative", "", desc+": "+got.String())
	}
	if got.Cmp(minFloor) < 0 {
		fail("never-below-min-gas-price", "", desc+": "+got.String())
	}
	mg := c.MaxGas
	if c.NilBlock {
		mg = -1
	}
	if want, ok := refBaseFee(b, c.Used, mg, minFloor); ok && want.Cmp(got) != 0 {
		fail("eip1559-formula", "", fmt.Sprintf("%s: got %s want %s", desc, got, want))
	}
	return out
}

// ---------------------------------------------------------------------------
// histories and admission
// ---------------------------------------------------------------------------

type c09Fill struct {
	Name string   `json:"name"`
	Gas  []uint64 `json:"gas"` // gas limits of value-too-high txs (each consumes exactly its limit); 0 entries = a plain transfer
}

type c09HistCase struct {
	MaxGas int64     `json:"max_gas"`
	MinGas string    `json:"min_gas_price"`
	Fills  []c09Fill `json:"fills"`
}

var c09Fills = []c09Fill{
	{"empty", nil}, {"below-target", []uint64{21000}}, {"at-target-100k", []uint64{50000}}, {"target+1", []uint64{50001}},
	{"above", []uint64{71000}}, {"full-100k", []uint64{100000}}, {"overflow-100k", []uint64{60000, 60000}}, {"transfer", []uint64{0}},
}

func c09RunHist(c c09HistCase) (fs []ev.Finding, outcome string) {
	fail := func(clause, sig, detail string) {
		fs = append(fs, ev.Finding{Clause: clause, Signature: sig, Detail: detail, Replay: map[string]interface{}{"history": c}})
	}
	w, err := world.NewE(world.Config{MaxGas: c.MaxGas, MinGasPrice: c.MinGas, NumWallets: 3, Contracts: StdContracts()})
	if err != nil {
		fail("world", "", err.Error())
		return
	}
	minFloor := sdkmath.LegacyMustNewDecFromStr(c.MinGas).TruncateInt().BigInt()
	var oc []string
	for bi, f := range c.Fills {
		ctx := w.Ctx()
		b := w.App.FeeMarketKeeper.GetBaseFee(ctx).BigInt()
		// price that is certainly admitted
		p := new(big.Int).Set(b)
		if p.Cmp(minFloor) < 0 {
			p = new(big.Int).Set(minFloor)
		}
		var txs [][]byte
		for i, g := range f.Gas {
			a := w.Wallets[i]
			n := w.Nonce(ctx, a.Eth())
			if g == 0 {
				txs = append(txs, w.EthTx(a, &ethtypes.LegacyTx{Nonce: n, GasPrice: p, Gas: 21000, To: &AddrSink, Value: big.NewInt(1)}))
			} else {
				huge := new(big.Int).Mul(big.NewInt(1000), new(big.Int).Exp(big.NewInt(10), big.NewInt(18), nil))
				txs = append(txs, w.EthTx(a, &ethtypes.LegacyTx{Nonce: n, GasPrice: p, Gas: g, To: &AddrSink, Value: huge}))
			}
		}
		br := w.Block(txs)
		if br.Panic != "" || br.Err != nil {
			sig := ""
			msg := br.Panic + fmt.Sprint(br.Err)
			if strings.Contains(msg, "division by zero") && (c.MaxGas == world.MaxGasZero || c.MaxGas == 1) {
				sig = "C09/zero-gas-target-division-by-zero"
			}
			fail("end-block-never-fails", sig, fmt.Sprintf("block %d (%s) MaxGas=%d: panic=%q err=%v", bi, f.Name, c.MaxGas, br.Panic, br.Err))
			oc = append(oc, "HALT")
			break
		}
		var used uint64
		for _, r := range br.Res.TxResults {
			used += uint64(r.GasUsed)
		}
		mg := c.MaxGas
		if mg == world.MaxGasZero {
			mg = 0
		}
		next := w.App.FeeMarketKeeper.GetBaseFee(w.Ctx()).BigInt()
		if want, ok := refBaseFee(b, used, mg, minFloor); ok {
			if want.Cmp(next) != 0 {
				fail("base-fee-after-block-follows-formula", "", fmt.Sprintf("block %d (%s) MaxGas=%d used=%d: base fee %s -> %s, want %s", bi, f.Name, c.MaxGas, used, b, next, want))
			}
		} else if next.Sign() < 0 || next.Cmp(minFloor) < 0 {
			fail("never-below-min-gas-price", "", fmt.Sprintf("block %d: %s", bi, next))
		}
		oc = append(oc, fmt.Sprintf("%s:%d", f.Name, used))
	}
	return fs, strings.Join(oc, ",")
}

// admission: a tx is executed iff its effective price ≥ max(base fee, ⌊min gas price⌋)
//
// Lane "" is the Ethereum lane: one tx (legacy or dynamic-fee) whose price is an offset from the floor / the base fee; its fee
// is always price × gas. The Cosmos lanes (c09_adm.go) add the fee dimension: fees that are not multiples of the gas limit.
// Mode "" delivers through FinalizeBlock, "check" / "recheck" offer the tx to CheckTx.
type c09AdmCase struct {
	MinGas   string `json:"min_gas_price"`
	AtHeight int    `json:"at_height"` // 1 = first block (base fee may still be below the min gas price), 2 = after one empty block
	Dynamic  bool   `json:"dynamic"`
	CapOff   int64  `json:"cap_offset"` // gas price / fee cap = max(b, m) + CapOff  (or b + CapOff when RelBase)
	RelBase  bool   `json:"relative_to_base_fee"`
	Tip      string `json:"tip"` // eth: "0" | "1" | "cap"; bank-dynext: "0" | "1" | "gap-1" | "gap" | "gap+1" | "floor" (gap = floor − base fee)

	Mode    string   `json:"mode,omitempty"`                // "" deliver | "check" | "recheck"
	Lane    string   `json:"lane,omitempty"`                // "" eth | "bank" | "multi" | "bank-dynext"
	BaseFee string   `json:"genesis_base_fee,omitempty"`    // "" = 1 gwei
	NodeMin string   `json:"node_min_gas_prices,omitempty"` // node-local min-gas-prices (dec coins)
	Gas     uint64   `json:"gas,omitempty"`                 // Cosmos lanes: gas limit
	Fees    []string `json:"fees,omitempty"`                // Cosmos lanes: labels of the fee points (nil = all of c09FeePoints)
}

func c09RunAdm(c c09AdmCase) (fs []ev.Finding, outcome string) {
	if c.Lane != c09LaneEth {
		fs, ts := c09RunAdmCosmos(c)
		if ts == nil && len(fs) == 0 {
			return nil, "skip"
		}
		return fs, c09AdmOutcome(ts)
	}
	fail := func(clause, detail string) {
		fs = append(fs, ev.Finding{Clause: clause, Detail: detail, Replay: map[string]interface{}{"admission": c}})
	}
	if c.Mode != c09ModeDeliver && c.AtHeight < 2 {
		return nil, "skip" // the check state exists only after the first commit
	}
	aw, err := c09AdmNewWorld(c, 2)
	if err != nil {
		fail("world", err.Error())
		return fs, "HALT"
	}
	w, b, m, floor := aw.w, aw.base, aw.minT, aw.fl
	ref := floor
	if c.RelBase {
		ref = b
	}
	capv := new(big.Int).Add(ref, big.NewInt(c.CapOff))
	if capv.Sign() < 0 {
		return nil, "skip"
	}
	a := w.Wallets[0]
	var td ethtypes.TxData
	eff := new(big.Int).Set(capv)
	if c.Dynamic {
		tip := big.NewInt(0)
		switch c.Tip {
		case "1":
			tip = big.NewInt(1)
		case "cap":
			tip = new(big.Int).Set(capv)
		}
		if tip.Cmp(capv) > 0 {
			return nil, "skip"
		}
		eff = new(big.Int).Add(b, tip)
		if eff.Cmp(capv) > 0 {
			eff = new(big.Int).Set(capv)
		}
		td = &ethtypes.DynamicFeeTx{ChainID: big.NewInt(world.EvmChainID), Nonce: 0, GasTipCap: tip, GasFeeCap: capv, Gas: 21000, To: &AddrSink, Value: big.NewInt(1)}
	} else {
		td = &ethtypes.LegacyTx{Nonce: 0, GasPrice: capv, Gas: 21000, To: &AddrSink, Value: big.NewInt(1)}
	}
	raw := w.EthTx(a, td)
	desc := fmt.Sprintf("mode=%s height %d base=%s min=%s eff=%s cap=%s dynamic=%v tip=%s", c09ModeName(c.Mode), c.AtHeight, b, m, eff, capv, c.Dynamic, c.Tip)
	if c.NodeMin != "" {
		desc += " node-min=" + c.NodeMin
	}
	var executed bool
	var log string
	liveFloor := floor
	if c.Mode == c09ModeDeliver {
		br := w.Block([][]byte{raw})
		if br.Panic != "" || br.Err != nil {
			fail("block-executes", fmt.Sprintf("panic=%q err=%v", br.Panic, br.Err))
			return fs, "HALT"
		}
		r := br.Res.TxResults[0]
		executed, log = r.Code == 0, r.Log
	} else {
		typ := abci.CheckTxType_New
		if c.Mode == c09ModeRecheck {
			typ = abci.CheckTxType_Recheck
		} else if aw.nodeT.Cmp(liveFloor) > 0 {
			liveFloor = aw.nodeT // the node-local minimum counts in CheckTx(New) only
		}
		func() {
			defer func() {
				if r := recover(); r != nil {
					log = "panic: " + fmt.Sprint(r)
				}
			}()
			res, err := w.App.CheckTx(&abci.RequestCheckTx{Tx: raw, Type: typ})
			if err != nil || res == nil {
				log = fmt.Sprint("abci error: ", err)
				return
			}
			executed, log = res.Code == 0, res.Log
		}()
	}
	if executed && eff.Cmp(floor) < 0 {
		fail("no-tx-below-base-fee-or-min-gas-price-executes", desc)
	}
	if !executed && eff.Cmp(liveFloor) >= 0 {
		fail("tx-at-or-above-floor-is-admitted", desc+": "+log)
	}
	if executed {
		return fs, "executed"
	}
	return fs, "rejected"
}

func runC09(replay string) int {
	run := ev.NewRun("C09", "model_checking")
	run.Assumptions = []string{
		"the reference formula is the property's sentence transcribed with big integers; MaxGas −1 and 0 both mean an unlimited block (limit 2^64−1, as baseapp and the unchanged keeper treat them); for a gas target of 0 (MaxGas 1) only absence of failure is required",
		"base fees above 2^255 are outside the grid (an increase would not fit the 256-bit integer type)",
		"block gas used is Σ ExecTxResult.GasUsed clamped to the block limit (baseapp's block gas meter)",
	}
	if replay != "" {
		return replayCase(run, replay, func(raw json.RawMessage) []ev.Finding {
			var c struct {
				Grid      *c09GridCase `json:"grid"`
				History   *c09HistCase `json:"history"`
				Admission *c09AdmCase  `json:"admission"`
				Gov       *c09GovCase  `json:"gov"`
			}
			if err := json.Unmarshal(raw, &c); err != nil {
				fmt.Fprintln(os.Stderr, err)
				os.Exit(2)
			}
			switch {
			case c.Grid != nil:
				w := world.New(world.Config{NumWallets: 1})
				got, p := c09GridEval(w, *c.Grid)
				fmt.Println("got:", got, "panic:", p)
				return c09CheckGrid(*c.Grid, got, p)
			case c.History != nil:
				fs, oc := c09RunHist(*c.History)
				fmt.Println("outcome:", oc)
				return fs
			case c.Gov != nil:
				fs, oc := c09RunGov(*c.Gov)
				fmt.Println("outcome:", oc)
				return fs
			case c.Admission != nil:
				fs, oc := c09RunAdm(*c.Admission)
				fmt.Println("outcome:", oc)
				return fs
			}
			return nil
		})
	}
	grid := c09Grid()
	var hists []c09HistCase
	for _, mg := range []int64{-1, world.MaxGasZero, 1, 100_000, 40_000_000} {
		for _, mgp := range []string{"0", "999999999.9"} {
			for _, f1 := range c09Fills {
				hists = append(hists, c09HistCase{MaxGas: mg, MinGas: mgp, Fills: []c09Fill{f1}})
				for _, f2 := range c09Fills {
					if !run.Thorough() && mg != 100_000 {
						continue
					}
					hists = append(hists, c09HistCase{MaxGas: mg, MinGas: mgp, Fills: []c09Fill{f1, f2}})
					if run.Thorough() && mg == 100_000 {
						for _, f3 := range c09Fills {
							hists = append(hists, c09HistCase{MaxGas: mg, MinGas: mgp, Fills: []c09Fill{f1, f2, f3}})
						}
					}
				}
			}
		}
	}
	var adms []c09AdmCase
	type ethCfg struct {
		c09AdmCfg
		h    int
		mode string
	}
	var ecs []ethCfg
	for _, mgp := range []string{"0", "1000000005.7", "900000000"} {
		for _, h := range []int{1, 2} {
			ecs = append(ecs, ethCfg{c09AdmCfg{"", mgp, ""}, h, c09ModeDeliver})
		}
	}
	for _, cf := range []c09AdmCfg{{"", "0", ""}, {"", "1000000005.7", ""}, {"3000000000", "1000000000.5", ""}, {"1000000000", "1000000003.5", "1000000007.5" + world.Denom}} {
		// before the first commit the check state is the empty store (every tx refused): the check modes start at height 2
		ecs = append(ecs, ethCfg{cf, 2, c09ModeCheck}, ethCfg{cf, 2, c09ModeRecheck})
		if cf.BaseFee != "" {
			ecs = append(ecs, ethCfg{cf, 1, c09ModeDeliver}, ethCfg{cf, 2, c09ModeDeliver})
		}
	}
	for _, ec := range ecs {
		offs := []int64{-2, -1, 0, 1}
		if ec.NodeMin != "" {
			offs = []int64{-2, -1, 0, 1, 3, 4, 5} // floor+4 = trunc(node min)
		}
		for _, off := range offs {
			for _, rel := range []bool{false, true} {
				base := c09AdmCase{MinGas: ec.MinGas, BaseFee: ec.BaseFee, NodeMin: ec.NodeMin, AtHeight: ec.h, Mode: ec.mode, CapOff: off, RelBase: rel}
				adms = append(adms, base)
				for _, tip := range []string{"0", "1", "cap"} {
					d := base
					d.Dynamic, d.Tip = true, tip
					adms = append(adms, d)
				}
			}
		}
	}
	nEthAdm := len(adms)
	adms = append(adms, c09CosmosAdmCases(run.Thorough())...)
	run.Sharded(Shards(), func(shard, n int) {
		if shard == 0 {
			w := world.New(world.Config{NumWallets: 1})
			for _, c := range grid {
				got, p := c09GridEval(w, c)
				run.Count("grid_points", 1)
				cls := "value"
				if p != "" {
					cls = "panic"
				} else if b, _ := new(big.Int).SetString(c.BaseFee, 10); got.Cmp(b) > 0 {
					cls = "up"
				} else if got.Cmp(b) < 0 {
					cls = "down"
				} else {
					cls = "same"
				}
				run.Outcome("grid:" + cls)
				run.Distinct(fmt.Sprintf("grid:%s:%d:%d:%s:%s", c.BaseFee, c.MaxGas, c.Used, c.MinGas, cls))
				for _, f := range c09CheckGrid(c, got, p) {
					run.Fail(f)
				}
			}
			run.Sample(map[string]interface{}{"grid_point": grid[len(grid)/2]})
		}
		for i, c := range hists {
			if i%n != shard {
				continue
			}
			fs, oc := c09RunHist(c)
			if i < n {
				if fs2, oc2 := c09RunHist(c); oc2 != oc || len(fs2) != len(fs) {
					fmt.Fprintf(os.Stderr, "HARNESS-NONDETERMINISM in C09 history %d\n", i)
					os.Exit(2)
				}
			}
			run.Count("transitions", int64(len(c.Fills)))
			run.Count("traces_validated_against_impl", 1)
			run.Outcome("hist:" + oc)
			run.Distinct(fmt.Sprintf("hist:%d:%s:%s", c.MaxGas, c.MinGas, oc))
			if i%(len(hists)/2+1) == 0 {
				run.Sample(map[string]interface{}{"history": c, "outcome": oc})
			}
			for _, f := range fs {
				run.Fail(f)
			}
		}
		for i, c := range c09GovCases() {
			if i%n != shard {
				continue
			}
			fs, oc := c09RunGov(c)
			run.Count("transitions", 4)
			run.Count("traces_validated_against_impl", 1)
			run.Count("gov_param_change_histories", 1)
			run.Outcome("gov:" + oc)
			run.Distinct(fmt.Sprintf("gov:%s:%s:%v:%s", c.NewMinGas, c.NewBaseFee, c.WithTx, oc))
			for _, f := range fs {
				run.Fail(f)
			}
		}
		for i, c := range adms {
			if i%n != shard {
				continue
			}
			if c.Lane != c09LaneEth {
				fs, ts := c09RunAdmCosmos(c)
				if i-nEthAdm < n {
					if fs2, ts2 := c09RunAdmCosmos(c); c09AdmOutcome(ts2) != c09AdmOutcome(ts) || len(fs2) != len(fs) {
						fmt.Fprintf(os.Stderr, "HARNESS-NONDETERMINISM in C09 admission group %d\n", i)
						os.Exit(2)
					}
				}
				if ts == nil && len(fs) == 0 {
					run.Outcome("adm:skip")
					continue
				}
				run.Count("transitions", 1)
				run.Count("traces_validated_against_impl", 1)
				run.Count("admission_groups", 1)
				for _, t := range ts {
					run.Count("admission_cases", 1)
					run.Count("admission_cases_cosmos", 1)
					if !t.Multiple {
						run.Count("admission_cases_fee_not_multiple_of_gas", 1)
						if t.Class == "executed" {
							run.Count("admission_executed_fee_not_multiple_of_gas", 1)
						} else {
							run.Count("admission_refused_fee_not_multiple_of_gas", 1)
						}
					}
					cls := t.Class
					if strings.HasPrefix(cls, "refused-other") && t.Want == "refuse" {
						cls = "refused-other" // e.g. the zero fee: no fee coin at all
					}
					run.Outcome(fmt.Sprintf("adm:%s:%s:want-%s:%s", c.Lane, c09ModeName(c.Mode), t.Want, cls))
					run.Distinct(fmt.Sprintf("adm:%s:%s:%s:%s:%s:%d:%s:%s", c.Lane, c.Mode, c.BaseFee, c.MinGas, c.NodeMin, c.AtHeight, t.Point.Label, t.Class))
				}
				if (i-nEthAdm)%((len(adms)-nEthAdm)/2+1) == 0 {
					run.Sample(map[string]interface{}{"admission": c, "outcome": c09AdmOutcome(ts)})
				}
				for _, f := range fs {
					run.Fail(f)
				}
				continue
			}
			fs, oc := c09RunAdm(c)
			run.Count("transitions", 1)
			run.Count("traces_validated_against_impl", 1)
			run.Count("admission_cases", 1)
			run.Outcome("adm:eth:" + c09ModeName(c.Mode) + ":" + oc)
			if i%(nEthAdm/2+1) == 0 {
				run.Sample(map[string]interface{}{"admission": c, "outcome": oc})
			}
			for _, f := range fs {
				run.Fail(f)
			}
		}
	})
	run.Coverage["states"] = int(run.Counter("transitions")) + int(run.Counter("grid_points"))
	run.Coverage["evaluations"] = len(grid) + len(hists) + len(adms) + len(c09GovCases())
	run.Coverage["exhaustive"] = true
	run.Coverage["rule"] = "grid: full product of 11 base fees (0..2^255) × 10 MaxGas values (−1,0,1,2,3,16,21000,100k,40M,2^63−1) × gas used at {0,1,target−1,target,target+1,limit−1,limit,limit+1,…} × 6 min gas prices, each evaluated by the real CalculateBaseFee on a context with that block gas meter; histories: all 1- and 2-block (thorough: 3-block) sequences of 8 fill levels in worlds MaxGas∈{−1,0,1,100k,40M} × 2 min gas prices through FinalizeBlock; admission, Ethereum lane: {legacy, dynamic-fee with tip 0/1/cap} × price offsets {−2,−1,0,+1} (plus +3,+4,+5 = around a node-local minimum) relative to {floor, base fee}, floor = max(base fee, ⌊min gas price⌋), in 3 min gas prices × heights {1,2} through FinalizeBlock and 4 (base fee, min gas price, node min) configurations through FinalizeBlock, CheckTx(New) and CheckTx(Recheck); admission, Cosmos lanes (fee is a free integer, price = fee/gas decided by exact rational arithmetic): lanes {bank MsgSend, 2-message tx, MsgSend with ExtensionOptionDynamicFeeTx and tip ∈ {0,1,gap−1,gap,gap+1,floor}, gap = floor − base fee} × modes {FinalizeBlock at heights 1,2 (thorough: 3), CheckTx(New), CheckTx(Recheck) at height ≥ 2} × 8 (thorough: 14) configurations (base fee above / below / equal to ⌊min gas price⌋, min gas prices x, x.5, x.7, x.999…, tiny and > 2^64 prices, node-local minimum) × gas limits {200000, 199999, 500001, 1234567} (thorough: 11 limits, odd and even) × the fee points R·g, R·g±1, R·g−⌊g/2⌋, R·g−⌊g/2⌋±1, R·g−⌈g/2⌉, (R+1)·g−1 for R ∈ {floor, base fee, ⌊min gas price⌋, ⌊node min⌋}, additionally floor·g−g+1, (floor−1)·g, (floor−1)·g−1, (floor+1)·g, (floor+1)·g−⌊g/2⌋, ⌈D·g⌉, ⌈D·g⌉−1 for the un-truncated min gas price D; every group is one block / one CheckTx series of one tx per wallet; executed ⇒ fee/gas ≥ floor and the price really paid (balance decrease − amount sent)/gas ≥ floor, refused ⇒ sender balance, sequence, recipients unchanged and the whole state (except the fee market store) equals a twin world that got only the executed txs; governance: 18 parameter-change histories (proposal with x/feemarket MsgUpdateParams: 3 new min gas prices × 3 new base fees × execution block empty / with a tx), the base fee is compared with floor(min gas price) at the start of every later block. distinct_nontrivial = distinct (input, direction) grid points plus distinct history outcomes"
	return run.Finish()
}
