package checks

import (
	"crypto/sha256"
	"fmt"
	"math/big"

	"cosmossdk.io/log"
	storetypes "cosmossdk.io/store/types"
	abci "github.com/cometbft/cometbft/abci/types"
	cmtproto "github.com/cometbft/cometbft/proto/tendermint/types"
	cmttypes "github.com/cometbft/cometbft/types"
	sdkdb "github.com/cosmos/cosmos-db"
	"github.com/cosmos/cosmos-sdk/baseapp"
	servertypes "github.com/cosmos/cosmos-sdk/server/types"
	simtestutil "github.com/cosmos/cosmos-sdk/testutil/sims"
	sdk "github.com/cosmos/cosmos-sdk/types"
	ethtypes "github.com/ethereum/go-ethereum/core/types"

	chainapp "github.com/EscanBE/evermint/v12/app"

	"verif/harness/world"
)

type c18AppOpts map[string]interface{}

func (a c18AppOpts) Get(k string) interface{} { return a[k] }

// c18Export runs the application's genesis export (what `evermintd export` calls) with a panic trap.
func c18Export(w *world.World) (exp servertypes.ExportedApp, err error) {
	defer func() {
		if r := recover(); r != nil {
			err = fmt.Errorf("export panic: %v", r)
		}
	}()
	return w.App.ExportAppStateAndValidators(false, nil, nil)
}

// c18Import builds a FRESH application (new in-memory database, same node options and keys as orig) and initialises it
// from an export exactly as CometBFT would after `export` + `start`: InitChain with the exported app state, the exported
// consensus parameters, the exported validator set and initial height = exported height. It mirrors world.NewE, which
// cannot be used because it always builds its own genesis. The returned world's Height is exported height - 1, so that
// w.Block() produces the block at the initial height.
func c18Import(orig *world.World, exp servertypes.ExportedApp) (w *world.World, err error) {
	defer func() {
		if r := recover(); r != nil {
			err = fmt.Errorf("import panic: %v", r)
		}
	}()
	cfg := orig.Cfg
	w = &world.World{Cfg: cfg}
	w.Enc = chainapp.RegisterEncodingConfig()
	w.Validators = orig.Validators
	w.Wallets = orig.Wallets
	w.EthSigner = ethtypes.LatestSignerForChainID(big.NewInt(world.EvmChainID))

	opts := c18AppOpts{}
	for k, v := range simtestutil.NewAppOptionsWithFlagHome(chainapp.DefaultNodeHome).(simtestutil.AppOptionsMap) {
		opts[k] = v
	}
	if cfg.EvmTracer != "" {
		opts["evm.tracer"] = cfg.EvmTracer
	}
	baseOpts := []func(*baseapp.BaseApp){baseapp.SetChainID(world.ChainID)}
	if cfg.NodeMinGasPrices != "" {
		baseOpts = append(baseOpts, baseapp.SetMinGasPrices(cfg.NodeMinGasPrices))
	}
	w.App = chainapp.NewEvermint(log.NewNopLogger(), sdkdb.NewMemDB(), nil, true, map[int64]bool{}, chainapp.DefaultNodeHome, 0, w.Enc, opts, baseOpts...)
	w.Keys = w.App.GetKVStoreKey()
	w.Genesis = exp.AppState
	cp := exp.ConsensusParams
	w.ConsParams = &cp

	var vals []abci.ValidatorUpdate
	for _, gv := range exp.Validators {
		vals = append(vals, cmttypes.TM2PB.ValidatorUpdate(&cmttypes.Validator{PubKey: gv.PubKey, VotingPower: gv.Power}))
	}
	_, err = w.App.InitChain(&abci.RequestInitChain{
		Time:            w.GenesisTime(),
		ChainId:         world.ChainID,
		ConsensusParams: w.ConsParams,
		Validators:      vals,
		AppStateBytes:   exp.AppState,
		InitialHeight:   exp.Height,
	})
	if err != nil {
		return nil, err
	}
	w.Height = exp.Height - 1
	return w, nil
}

// c18GenesisCtx is a read context over the state InitChain wrote (nothing is committed yet, it lives in the finalize-block
// state); a cache layer keeps accidental writes away from the app.
func c18GenesisCtx(w *world.World) sdk.Context {
	h := w.Height + 1
	hh := sha256.Sum256([]byte(fmt.Sprintf("block-hash-%d", h)))
	header := cmtproto.Header{ChainID: world.ChainID, Height: h, Time: w.BlockTime(h), ProposerAddress: w.Validators[0].Cons()}
	ms := w.App.NewContextLegacy(false, header).MultiStore().CacheMultiStore()
	return sdk.NewContext(ms, header, false, log.NewNopLogger()).
		WithChainID(world.ChainID).WithHeaderHash(hh[:]).
		WithConsensusParams(*w.ConsParams).
		WithBlockGasMeter(storetypes.NewInfiniteGasMeter())
}
