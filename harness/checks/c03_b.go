package checks

// C03 part B: contract call trees. Every frame is its own contract; it performs a set of effects (own storage, a log,
// ERC-20 precompile approve and transfer, staking precompile delegate), calls its children, repeats the storage/log
// effect and ends with RETURN, REVERT or INVALID. What survives must be exactly the effects of the frames that returned
// normally together with all their ancestors.

import (
	"bytes"
	"crypto/sha256"
	"errors"
	"fmt"
	"math/big"
	"sort"
	"strings"

	sdkmath "cosmossdk.io/math"
	sdk "github.com/cosmos/cosmos-sdk/types"
	authtypes "github.com/cosmos/cosmos-sdk/x/auth/types"
	banktypes "github.com/cosmos/cosmos-sdk/x/bank/types"
	stakingtypes "github.com/cosmos/cosmos-sdk/x/staking/types"
	"github.com/ethereum/go-ethereum/common"
	ethtypes "github.com/ethereum/go-ethereum/core/types"
	corevm "github.com/ethereum/go-ethereum/core/vm"
	ethcrypto "github.com/ethereum/go-ethereum/crypto"

	evmtypes "github.com/EscanBE/evermint/v12/x/evm/types"

	"verif/harness/asm"
	"verif/harness/ev"
	"verif/harness/world"
)

const (
	c03ESstore   = 1
	c03ELog      = 2
	c03EApprove  = 4
	c03ETransfer = 8
	c03EDelegate = 16
	c03EAll      = 31

	c03EndReturn  = 0
	c03EndRevert  = 1
	c03EndInvalid = 2

	c03ApproveAmt  = 5
	c03DelegateAmt = 7
	c03FrameFunds  = 1000
	c03RootGas     = 8_000_000
)

var (
	c03Spender = common.HexToAddress("0x00000000000000000000000000000000005be4de")
	c03Sink    = common.HexToAddress("0x0000000000000000000000000000000000005141")
	c03Noop    = common.HexToAddress("0x00000000000000000000000000000000f0f0ffff")
	c03EndName = [3]string{"return", "REVERT", "INVALID"}
)

func c03FrameAddr(pos int) common.Address {
	return common.BytesToAddress([]byte{0xf0, 0xf0, 0x00, byte(pos + 1)})
}

// c03Frame is one node of a call tree. The frame at position p calls its j-th child at position 2p+1+j.
type c03Frame struct {
	E    int         `json:"e"`
	End  int         `json:"end"`
	Kids []*c03Frame `json:"kids,omitempty"`
}

func (f *c03Frame) String() string {
	var e []string
	for i, n := range []string{"S", "L", "A", "T", "D"} {
		if f.E&(1<<uint(i)) != 0 {
			e = append(e, n)
		}
	}
	s := "{" + strings.Join(e, "") + ">" + c03EndName[f.End]
	for _, k := range f.Kids {
		s += " " + k.String()
	}
	return s + "}"
}

func (f *c03Frame) clone() *c03Frame {
	n := &c03Frame{E: f.E, End: f.End}
	for _, k := range f.Kids {
		n.Kids = append(n.Kids, k.clone())
	}
	return n
}

func (f *c03Frame) walk(pos, depth int, fn func(f *c03Frame, pos, depth int)) {
	fn(f, pos, depth)
	for j, k := range f.Kids {
		k.walk(2*pos+1+j, depth+1, fn)
	}
}

func (f *c03Frame) anyFailure() bool {
	bad := false
	f.walk(0, 1, func(x *c03Frame, _, _ int) {
		if x.End != c03EndReturn {
			bad = true
		}
	})
	return bad
}

// pruned is the same tree with every failing frame reduced to a bare frame that fails the same way.
func (f *c03Frame) pruned() *c03Frame {
	if f.End != c03EndReturn {
		return &c03Frame{End: f.End}
	}
	n := &c03Frame{E: f.E, End: f.End}
	for _, k := range f.Kids {
		n.Kids = append(n.Kids, k.pruned())
	}
	return n
}

func c03ChildGas(childDepth int) uint64 {
	if childDepth == 2 {
		return 3_000_000
	}
	return 800_000
}

func (cw *c03World) frameCode(f *c03Frame, pos, depth int) []byte {
	c := asm.New()
	if f.E&c03ESstore != 0 {
		c.Sstore(0, 1)
	}
	if f.E&c03ELog != 0 {
		c.Log1(uint64(0x100 + pos))
	}
	if f.E&c03EApprove != 0 {
		c.CallData(asm.KCall, cw.erc20, 0, 60_000, Enc("approve(address,uint256)", AddrWord(c03Spender), Word(big.NewInt(c03ApproveAmt))))
	}
	if f.E&c03ETransfer != 0 {
		c.CallData(asm.KCall, cw.erc20, 0, 60_000, Enc("transfer(address,uint256)", AddrWord(c03Sink), Word(big.NewInt(1))))
	}
	if f.E&c03EDelegate != 0 {
		c.CallData(asm.KCall, cw.staking, 0, 400_000, Enc("delegate(address,uint256)", AddrWord(cw.w.Validators[0].Eth()), Word(big.NewInt(c03DelegateAmt))))
	}
	for j := range f.Kids {
		c.Call(asm.KCall, c03FrameAddr(2*pos+1+j), 0, c03ChildGas(depth+1), 0, 0, 0, 0)
		c.PushU(uint64(2 + j)).Op(asm.SSTORE) // the success flag the parent saw
	}
	if f.E&c03ESstore != 0 {
		c.Sstore(1, 1)
	}
	if f.E&c03ELog != 0 {
		c.Log1(uint64(0x200 + pos))
	}
	switch f.End {
	case c03EndReturn:
		c.Return0()
	case c03EndRevert:
		c.Revert()
	default:
		c.Invalid()
	}
	return c.Bytes()
}

// c03Expect is what must be left behind.
type c03Expect struct {
	Slots     [7][4]int64
	Allow     [7]int64
	Spent     [7]int64 // wei that left the frame's account
	Deleg     [7]int64
	Transfers int64
	Delegated int64
	Logs      []string
	Alive     int
	Dead      int
}

func c03LogString(addr common.Address, topics []common.Hash, data []byte) string {
	var t []string
	for _, x := range topics {
		t = append(t, strings.TrimLeft(x.Hex()[2:], "0"))
	}
	return fmt.Sprintf("%s[%s]%x", strings.TrimLeft(addr.Hex()[2:], "0"), strings.Join(t, ","), data)
}

func (cw *c03World) expect(t *c03Frame) *c03Expect {
	x := &c03Expect{}
	val := cw.w.Validators[0].Eth()
	var rec func(f *c03Frame, pos int, alive bool)
	rec = func(f *c03Frame, pos int, alive bool) {
		alive = alive && f.End == c03EndReturn
		if alive {
			x.Alive++
		} else {
			x.Dead++
		}
		me := c03FrameAddr(pos)
		if alive {
			if f.E&c03ESstore != 0 {
				x.Slots[pos][0], x.Slots[pos][1] = 1, 1
			}
			if f.E&c03ELog != 0 {
				x.Logs = append(x.Logs, c03LogString(me, []common.Hash{h(uint64(0x100 + pos))}, []byte{0xab}))
			}
			if f.E&c03EApprove != 0 {
				x.Allow[pos] = c03ApproveAmt
				x.Logs = append(x.Logs, c03LogString(cw.erc20, []common.Hash{approvalTopic, common.BytesToHash(me.Bytes()), common.BytesToHash(c03Spender.Bytes())}, Word(big.NewInt(c03ApproveAmt))))
			}
			if f.E&c03ETransfer != 0 {
				x.Spent[pos]++
				x.Transfers++
				x.Logs = append(x.Logs, c03LogString(cw.erc20, []common.Hash{transferTopic, common.BytesToHash(me.Bytes()), common.BytesToHash(c03Sink.Bytes())}, Word(big.NewInt(1))))
			}
			if f.E&c03EDelegate != 0 {
				x.Spent[pos] += c03DelegateAmt
				x.Deleg[pos] = c03DelegateAmt
				x.Delegated += c03DelegateAmt
				x.Logs = append(x.Logs, c03LogString(cw.staking, []common.Hash{common.HexToHash("0x510b11bb3f3c799b11307c01ab7db0d335683ef5b2da98f7697de744f465eacc"), common.BytesToHash(me.Bytes()), common.BytesToHash(val.Bytes())}, Word(big.NewInt(c03DelegateAmt))))
			}
		}
		for j, k := range f.Kids {
			rec(k, 2*pos+1+j, alive)
			if alive && k.End == c03EndReturn {
				x.Slots[pos][2+j] = 1
			}
		}
		if alive && f.E&c03ELog != 0 {
			x.Logs = append(x.Logs, c03LogString(me, []common.Hash{h(uint64(0x200 + pos))}, []byte{0xab}))
		}
	}
	rec(t, 0, true)
	return x
}

// install writes the frames' code onto ctx (positions not used by the tree keep the genesis STOP code).
func (cw *c03World) install(ctx sdk.Context, t *c03Frame) {
	k := cw.w.App.EvmKeeper
	t.walk(0, 1, func(f *c03Frame, pos, depth int) {
		code := cw.frameCode(f, pos, depth)
		hash := ethcrypto.Keccak256Hash(code)
		k.SetCode(ctx, hash.Bytes(), code)
		k.SetCodeHash(ctx, c03FrameAddr(pos), hash)
	})
}

// hashNoCode hashes every store except the contract code entries of the evm store (two runs of different programs are
// compared on everything the programs did, not on the programs).
func (cw *c03World) hashNoCode(ctx sdk.Context) [32]byte {
	hh := sha256.New()
	var l [8]byte
	put := func(b []byte) {
		n := len(b)
		for i := 0; i < 8; i++ {
			l[i] = byte(n >> (8 * i))
		}
		hh.Write(l[:])
		hh.Write(b)
	}
	for _, name := range cw.w.StoreNames() {
		put([]byte(name))
		it := ctx.KVStore(cw.w.Keys[name]).Iterator(nil, nil)
		for ; it.Valid(); it.Next() {
			if name == evmtypes.StoreKey && (bytes.HasPrefix(it.Key(), evmtypes.KeyPrefixCode) || bytes.HasPrefix(it.Key(), evmtypes.KeyPrefixCodeHash)) {
				continue
			}
			put(it.Key())
			put(it.Value())
		}
		it.Close()
	}
	var r [32]byte
	copy(r[:], hh.Sum(nil))
	return r
}

func (cw *c03World) dumpNoCode(ctx sdk.Context) map[string][][2][]byte {
	d := cw.w.Dump(ctx)
	var kv [][2][]byte
	for _, e := range d[evmtypes.StoreKey] {
		if bytes.HasPrefix(e[0], evmtypes.KeyPrefixCode) || bytes.HasPrefix(e[0], evmtypes.KeyPrefixCodeHash) {
			continue
		}
		kv = append(kv, e)
	}
	d[evmtypes.StoreKey] = kv
	return d
}

func (cw *c03World) runTree(t *c03Frame) (sdk.Context, CallResult) {
	ctx, _ := cw.root.CacheContext()
	cw.install(ctx, t)
	res := CallEVM(cw.w, ctx, cw.w.Wallets[0].Eth(), c03FrameAddr(0), nil, nil, c03RootGas)
	return ctx, res
}

func c03TreeFinding(clause string, t *c03Frame, detail []string) ev.Finding {
	d := t.String() + " => " + strings.Join(detail, " | ")
	if len(d) > 1200 {
		d = d[:1200] + "…"
	}
	return ev.Finding{Clause: clause, Detail: d, Replay: map[string]interface{}{"part": "B", "tree": t}}
}

func c03ErrClass(err error) string {
	switch {
	case err == nil:
		return "return"
	case errors.Is(err, corevm.ErrExecutionReverted):
		return "REVERT"
	case strings.Contains(err.Error(), "invalid opcode"):
		return "INVALID"
	}
	return "other:" + err.Error()
}

// checkTree runs one tree at keeper level and compares the post-state with the expectation and with the run of the
// pruned tree.
func (cw *c03World) checkTree(t *c03Frame) (fs []ev.Finding, class string, obs string) {
	x := cw.expect(t)
	class = fmt.Sprintf("B/root=%s/alive=%d/dead=%d", c03EndName[t.End], x.Alive, x.Dead)
	ctx, res := cw.runTree(t)
	var bad []string
	fail := func(f string, a ...interface{}) { bad = append(bad, fmt.Sprintf(f, a...)) }
	if res.Panic != "" {
		return []ev.Finding{c03TreeFinding("call-tree-effects", t, []string{"panic: " + res.Panic})}, class, res.Panic
	}
	if got := c03ErrClass(res.Err); got != c03EndName[t.End] {
		fail("top frame ended with %q, built to end with %s", got, c03EndName[t.End])
	}
	app := cw.w.App
	var o strings.Builder
	for pos := 0; pos < 7; pos++ {
		me := c03FrameAddr(pos)
		for s := 0; s < 4; s++ {
			got := c03HashToVal(app.EvmKeeper.GetState(ctx, me, h(uint64(s))))
			fmt.Fprintf(&o, "%d,", got)
			if got != x.Slots[pos][s] {
				fail("frame %d storage[%d]=%d, expected %d", pos, s, got, x.Slots[pos][s])
			}
		}
		if got := app.CPCKeeper.GetErc20CpcAllowance(ctx, me, c03Spender).Int64(); got != x.Allow[pos] {
			fail("allowance(frame %d, spender)=%d, expected %d", pos, got, x.Allow[pos])
		}
		if got := cw.w.Balance(ctx, me, world.Denom).Int64(); got != c03FrameFunds-x.Spent[pos] {
			fail("bank balance of frame %d = %d, expected %d", pos, got, c03FrameFunds-x.Spent[pos])
		} else {
			fmt.Fprintf(&o, "b%d,", got)
		}
		got := int64(0)
		if d, err := app.StakingKeeper.GetDelegation(ctx, me.Bytes(), cw.val); err == nil {
			got = d.Shares.TruncateInt64()
		}
		if got != x.Deleg[pos] {
			fail("delegation(frame %d, val0)=%d, expected %d", pos, got, x.Deleg[pos])
		}
	}
	if got := new(big.Int).Sub(cw.w.Balance(ctx, c03Sink, world.Denom), cw.w.Balance(cw.root, c03Sink, world.Denom)).Int64(); got != x.Transfers {
		fail("sink received %d, expected %d", got, x.Transfers)
	}
	if got := new(big.Int).Sub(cw.w.Balance(ctx, world.ModuleAddr(stakingtypes.BondedPoolName), world.Denom), cw.bonded0).Int64(); got != x.Delegated {
		fail("bonded pool received %d, expected %d", got, x.Delegated)
	}
	if val, err := app.StakingKeeper.GetValidator(ctx, cw.val); err != nil || val.Tokens.Sub(cw.valTok0).Int64() != x.Delegated {
		fail("validator tokens grew by %v, expected %d", val.Tokens.Sub(cw.valTok0), x.Delegated)
	}
	var logs []string
	for _, l := range res.Logs {
		logs = append(logs, c03LogString(l.Address, l.Topics, l.Data))
	}
	if strings.Join(logs, " ") != strings.Join(x.Logs, " ") {
		fail("logs = [%s], expected [%s]", strings.Join(logs, " "), strings.Join(x.Logs, " "))
	}
	o.WriteString(strings.Join(logs, " "))
	if len(bad) > 0 {
		fs = append(fs, c03TreeFinding("call-tree-effects", t, bad))
	}
	if t.anyFailure() {
		p := t.pruned()
		pctx, pres := cw.runTree(p)
		var plogs []string
		for _, l := range pres.Logs {
			plogs = append(plogs, c03LogString(l.Address, l.Topics, l.Data))
		}
		var d []string
		if strings.Join(logs, " ") != strings.Join(plogs, " ") {
			d = append(d, fmt.Sprintf("logs differ from the run without the failed subtrees: [%s] vs [%s]", strings.Join(logs, " "), strings.Join(plogs, " ")))
		}
		if cw.hashNoCode(ctx) != cw.hashNoCode(pctx) {
			var out []string
			for _, e := range world.Diff(cw.dumpNoCode(pctx), cw.dumpNoCode(ctx)) {
				out = append(out, e.String())
			}
			d = append(d, "stores differ from the run in which the failed frames do nothing: "+strings.Join(out, ", "))
		}
		if len(d) > 0 {
			fs = append(fs, c03TreeFinding("failed-subtree-equals-absent-subtree", t, d))
		}
	}
	if t.End != c03EndReturn {
		// a failed top frame at keeper level (no nonce, no fee): nothing at all may change
		base, _ := cw.root.CacheContext()
		cw.install(base, t)
		if cw.w.Hash(ctx) != cw.w.Hash(base) {
			var out []string
			for _, e := range world.Diff(cw.w.Dump(base), cw.w.Dump(ctx)) {
				out = append(out, e.String())
			}
			fs = append(fs, c03TreeFinding("failed-top-frame-changes-nothing", t, []string{strings.Join(out, ", ")}))
		}
	}
	return fs, class, o.String()
}

// ---------------------------------------------------------------------------
// enumeration of trees
// ---------------------------------------------------------------------------

// c03Shapes returns all ordered trees of depth <= depth with at most two children per node (labels unset).
func c03Shapes(depth int) []*c03Frame {
	if depth == 1 {
		return []*c03Frame{{}}
	}
	sub := c03Shapes(depth - 1)
	out := []*c03Frame{{}}
	for _, a := range sub {
		out = append(out, &c03Frame{Kids: []*c03Frame{a.clone()}})
	}
	for _, a := range sub {
		for _, b := range sub {
			out = append(out, &c03Frame{Kids: []*c03Frame{a.clone(), b.clone()}})
		}
	}
	return out
}

func (f *c03Frame) nodes() []*c03Frame {
	var out []*c03Frame
	f.walk(0, 1, func(x *c03Frame, _, _ int) { out = append(out, x) })
	return out
}

// c03Label enumerates all labelings of shape with per-node choices (effect set, end) from the given menus.
func c03Label(shape *c03Frame, effects []int, uniform bool, fn func(t *c03Frame)) {
	t := shape.clone()
	ns := t.nodes()
	var rec func(i int)
	rec = func(i int) {
		if i == len(ns) {
			fn(t.clone())
			return
		}
		for end := 0; end < 3; end++ {
			ns[i].End = end
			if uniform {
				rec(i + 1)
				continue
			}
			for _, e := range effects {
				ns[i].E = e
				rec(i + 1)
			}
		}
	}
	if !uniform {
		rec(0)
		return
	}
	for _, e := range effects {
		for _, n := range ns {
			n.E = e
		}
		rec(0)
	}
}

// c03Trees enumerates the keeper-level cases of a tier, simplest family first.
func c03Trees(thorough bool, fn func(family string, t *c03Frame)) {
	shapes := c03Shapes(3)
	sort.SliceStable(shapes, func(i, j int) bool { return len(shapes[i].nodes()) < len(shapes[j].nodes()) })
	var allSets []int
	for e := 0; e <= c03EAll; e++ {
		allSets = append(allSets, e)
	}
	menu := []int{0, c03ESstore, c03ELog, c03EApprove, c03ETransfer, c03EDelegate, c03EAll}
	// family 1: trees of at most two frames, every effect subset and every ending chosen independently per frame
	for _, s := range shapes {
		if len(s.nodes()) <= 2 {
			c03Label(s, allSets, false, func(t *c03Frame) { fn("independent<=2frames", t) })
		}
	}
	// family 2: every shape, every ending per frame, the same effect set in all frames
	sets := []int{c03EAll, c03ESstore | c03ELog, c03EApprove | c03ETransfer, c03EDelegate}
	if thorough {
		sets = allSets
	}
	for _, s := range shapes {
		if len(s.nodes()) > 2 {
			c03Label(s, sets, true, func(t *c03Frame) { fn("uniform-effects", t) })
		}
	}
	// family 3 (thorough): three-frame shapes, effect set per frame from the menu {none, each single effect, all five}
	if thorough {
		for _, s := range shapes {
			if len(s.nodes()) == 3 {
				c03Label(s, menu, false, func(t *c03Frame) { fn("independent-3frames-menu", t) })
			}
		}
	}
}

// ---------------------------------------------------------------------------
// ABCI level: a failed top frame leaves only the nonce increment and the fee
// ---------------------------------------------------------------------------

func c03Config(t *c03Frame) world.Config {
	coin := func(d string, n int64) sdk.Coin { return sdk.NewCoin(d, sdkmath.NewInt(n)) }
	cfg := world.Config{NumWallets: 2, DeployErc20: true, DeployStaking: true,
		Extra: []world.ExtraAccount{
			{Account: authtypes.NewBaseAccount(c03Addr[1].Bytes(), nil, 0, 0), Coins: sdk.NewCoins(coin(world.Denom, 2), coin("utwo", 2))},
			{Account: authtypes.NewBaseAccount(c03Sink.Bytes(), nil, 0, 0), Coins: sdk.NewCoins(coin(world.Denom, 3))},
		},
		Contracts: []world.Contract{
			{Addr: c03Addr[2], Code: c03Codes[1], Storage: map[common.Hash]common.Hash{h(0): h(7)}, Coins: sdk.NewCoins(coin(world.Denom, 1))},
			{Addr: c03Noop, Code: []byte{asm.STOP}},
		},
	}
	for pos := 0; pos < 7; pos++ {
		cfg.Contracts = append(cfg.Contracts, world.Contract{Addr: c03FrameAddr(pos), Code: []byte{asm.STOP}, Coins: sdk.NewCoins(coin(world.Denom, c03FrameFunds))})
	}
	return cfg
}

// c03AbciWorld builds a world whose genesis already holds the tree's code (the precompile addresses are the same in
// every world, so the code can be assembled with the shared world's addresses).
func (cw *c03World) abciWorld(t *c03Frame, create bool) *world.World {
	cfg := c03Config(t)
	t.walk(0, 1, func(f *c03Frame, pos, depth int) {
		if create && pos == 0 {
			return // the top frame is the init code of a contract creation
		}
		for i := range cfg.Contracts {
			if cfg.Contracts[i].Addr == c03FrameAddr(pos) {
				cfg.Contracts[i].Code = cw.frameCode(f, pos, depth)
			}
		}
	})
	w := world.New(cfg)
	w.Block(nil)
	return w
}

func c03KeySet(d []world.DiffEntry) map[string]world.DiffEntry {
	m := map[string]world.DiffEntry{}
	for _, e := range d {
		m[fmt.Sprintf("%s/%x", e.Store, e.Key)] = e
	}
	return m
}

func (cw *c03World) checkAbci(t *c03Frame, create bool) (fs []ev.Finding, class string, obs string) {
	class = "B-abci/call/root=" + c03EndName[t.End]
	if create {
		class = "B-abci/create/root=" + c03EndName[t.End]
	}
	finding := func(clause string, detail ...string) {
		f := c03TreeFinding(clause, t, detail)
		if create {
			f.Detail = "contract creation whose init code is " + f.Detail
		}
		f.Replay = map[string]interface{}{"part": "B-abci", "tree": t, "create": create}
		fs = append(fs, f)
	}
	w0, w1, w2 := cw.abciWorld(t, create), cw.abciWorld(t, create), cw.abciWorld(t, create)
	sender := w1.Wallets[0]
	price := big.NewInt(1_000_000_000)
	mkTx := func(w *world.World, to common.Address) []byte {
		return w.EthTx(sender, &ethtypes.LegacyTx{Nonce: 0, GasPrice: price, Gas: c03RootGas, To: &to, Value: big.NewInt(0)})
	}
	b0 := w0.Block(nil)
	tx1 := mkTx(w1, c03FrameAddr(0))
	if create {
		tx1 = w1.EthTx(sender, &ethtypes.LegacyTx{Nonce: 0, GasPrice: price, Gas: c03RootGas, To: nil, Value: big.NewInt(0), Data: cw.frameCode(t, 0, 1)})
	}
	b1 := w1.Block([][]byte{tx1})
	b2 := w2.Block([][]byte{mkTx(w2, c03Noop)})
	for i, b := range []*world.BlockResult{b0, b1, b2} {
		if b.Panic != "" || b.Err != nil {
			finding("alphabet-sanity", fmt.Sprintf("block of world %d failed: %v %s", i, b.Err, b.Panic))
			return fs, class, "block failed"
		}
	}
	r1, err1 := world.ParseReceipt(0, b1.Res.TxResults[0])
	r2, err2 := world.ParseReceipt(0, b2.Res.TxResults[0])
	if err1 != nil || err2 != nil || r1.R == nil || r2.R == nil {
		finding("alphabet-sanity", fmt.Sprintf("no receipt: %v %v code=%d log=%s", err1, err2, b1.Res.TxResults[0].Code, b1.Res.TxResults[0].Log))
		return fs, class, "no receipt"
	}
	if r2.R.Status != 1 {
		finding("alphabet-sanity", "the no-op transaction did not succeed")
	}
	if (r1.R.Status == 1) != (t.End == c03EndReturn) {
		finding("alphabet-sanity", fmt.Sprintf("receipt status %d for a top frame built to end with %s", r1.R.Status, c03EndName[t.End]))
	}
	d0 := w0.Dump(w0.Ctx())
	k1 := c03KeySet(world.Diff(d0, w1.Dump(w1.Ctx())))
	k2 := c03KeySet(world.Diff(d0, w2.Dump(w2.Ctx())))
	if len(k2) == 0 {
		finding("alphabet-sanity", "the no-op transaction changed no key")
	}
	var extra []string
	for k, e := range k1 {
		if _, ok := k2[k]; !ok {
			extra = append(extra, e.String())
		}
	}
	sort.Strings(extra)
	obs = fmt.Sprintf("keys1=%d keys2=%d extra=%d gas=%d", len(k1), len(k2), len(extra), r1.GasUsed)
	if t.End != c03EndReturn {
		if len(extra) > 0 {
			finding("failed-tx-leaves-only-nonce-and-fee", "keys changed by the failed transaction that a successful no-op transaction of the same sender does not change: "+strings.Join(extra, ", "))
		}
		// the sender: sequence +1, balance -gasUsed*price; the fee collector: +gasUsed*price; nobody else's balance moves
		fee := new(big.Int).Mul(new(big.Int).SetUint64(r1.GasUsed), price)
		c0, c1 := w0.Ctx(), w1.Ctx()
		if n := w1.Nonce(c1, sender.Eth()); n != w0.Nonce(c0, sender.Eth())+1 {
			finding("failed-tx-leaves-only-nonce-and-fee", fmt.Sprintf("sender nonce %d after the failed transaction", n))
		}
		if paid := new(big.Int).Sub(w0.Balance(c0, sender.Eth(), world.Denom), w1.Balance(c1, sender.Eth(), world.Denom)); paid.Cmp(fee) != 0 {
			finding("failed-tx-leaves-only-nonce-and-fee", fmt.Sprintf("sender paid %s, gas used %d x price = %s", paid, r1.GasUsed, fee))
		}
		fc := world.ModuleAddr(authtypes.FeeCollectorName)
		if got := new(big.Int).Sub(w1.Balance(c1, fc, world.Denom), w0.Balance(c0, fc, world.Denom)); got.Cmp(fee) != 0 {
			finding("failed-tx-leaves-only-nonce-and-fee", fmt.Sprintf("fee collector received %s, gas used %d x price = %s", got, r1.GasUsed, fee))
		}
		for k, e := range k1 {
			if e.Store != banktypes.StoreKey {
				continue
			}
			isBal := bytes.HasPrefix(e.Key, banktypes.BalancesPrefix)
			if isBal && !bytes.Contains(e.Key, sender.Eth().Bytes()) && !bytes.Contains(e.Key, fc.Bytes()) {
				finding("failed-tx-leaves-only-nonce-and-fee", "bank balance of a third party changed: "+k)
			}
		}
		if len(r1.R.Logs) != 0 {
			finding("failed-tx-leaves-only-nonce-and-fee", fmt.Sprintf("receipt of the failed transaction carries %d logs", len(r1.R.Logs)))
		}
	} else if !create {
		// alphabet sanity for the successful variant: the effects are there
		x := cw.expect(t)
		if len(r1.R.Logs) != len(x.Logs) {
			finding("alphabet-sanity", fmt.Sprintf("successful tree produced %d logs at ABCI level, expected %d", len(r1.R.Logs), len(x.Logs)))
		}
		if len(extra) == 0 && x.Alive > 0 && t.E != 0 {
			finding("alphabet-sanity", "successful tree changed no key beyond a no-op transaction")
		}
	}
	return fs, class, obs
}

// c03AbciCases: every shape with all five effects in every frame and all inner frames returning, top frame ending in
// REVERT / INVALID / (one control) return; thorough adds every ending of the inner frames for the complete binary tree.
type c03AbciCase struct {
	Tree   *c03Frame
	Create bool
}

func c03AbciCases(thorough bool) []c03AbciCase {
	var out []c03AbciCase
	for _, t := range c03AbciTrees(thorough) {
		out = append(out, c03AbciCase{Tree: t})
	}
	// the same failing top frames as the init code of a contract creation (all inner frames returning)
	for _, t := range c03AbciTrees(false) {
		if t.End != c03EndReturn {
			out = append(out, c03AbciCase{Tree: t, Create: true})
		}
	}
	return out
}

func c03AbciTrees(thorough bool) []*c03Frame {
	var out []*c03Frame
	shapes := c03Shapes(3)
	sort.SliceStable(shapes, func(i, j int) bool { return len(shapes[i].nodes()) < len(shapes[j].nodes()) })
	for _, s := range shapes {
		for _, end := range []int{c03EndRevert, c03EndInvalid} {
			t := s.clone()
			for _, n := range t.nodes() {
				n.E = c03EAll
			}
			t.End = end
			out = append(out, t)
		}
	}
	ctl := shapes[len(shapes)-1].clone()
	for _, n := range ctl.nodes() {
		n.E = c03EAll
	}
	out = append(out, ctl)
	if thorough {
		full := shapes[len(shapes)-1]
		c03Label(full, []int{c03EAll}, true, func(t *c03Frame) {
			if t.End != c03EndReturn && t.anyInnerFailure() {
				out = append(out, t)
			}
		})
	}
	return out
}

func (f *c03Frame) anyInnerFailure() bool {
	for _, k := range f.Kids {
		if k.anyFailure() {
			return true
		}
	}
	return false
}
