package checks

// C02 - EVM transactions execute exactly as go-ethereum's reference state transition.
//
// Differential exhaustive enumeration: every (pre-state, program, transaction) of a bounded grammar is executed
//   - by evermint: the universe installed on a CacheContext branch of the real application state, then the real
//     Keeper.ApplyMessageWithConfig(commit=true) (keeper passes, zero prices), or a complete FinalizeBlock (block pass,
//     non-zero prices);
//   - by go-ethereum: core.ApplyMessage over core/state on an in-memory database (c02_gethref.go), same block context,
//     same chain config, same message, no custom precompiles;
// and the outcomes (error class, return data, gas used, logs) and the post-state of every account are compared.

import (
	"crypto/sha256"
	"encoding/hex"
	"encoding/json"
	"fmt"
	"math/big"
	"os"
	"sort"
	"strings"
	"time"

	sdkmath "cosmossdk.io/math"
	storetypes "cosmossdk.io/store/types"
	sdk "github.com/cosmos/cosmos-sdk/types"
	"github.com/ethereum/go-ethereum/common"
	"github.com/ethereum/go-ethereum/core"
	ethtypes "github.com/ethereum/go-ethereum/core/types"
	corevm "github.com/ethereum/go-ethereum/core/vm"
	ethcrypto "github.com/ethereum/go-ethereum/crypto"
	ethparams "github.com/ethereum/go-ethereum/params"

	evertypes "github.com/EscanBE/evermint/v12/types"
	cpctypes "github.com/EscanBE/evermint/v12/x/cpc/types"
	evmtypes "github.com/EscanBE/evermint/v12/x/evm/types"
	evmvm "github.com/EscanBE/evermint/v12/x/evm/vm"

	"verif/harness/ev"
	"verif/harness/world"
)

func init() { Registry["C02"] = runC02 }

const c02SigZeroWarm = "C02/zero-address-warm-with-custom-precompiles"

// ---------------------------------------------------------------------------
// cases
// ---------------------------------------------------------------------------

type c02Tx struct {
	Type      string `json:"type"`             // legacy | al-empty | al-sender | al-target | dynfee
	Gas       string `json:"gas"`              // intrinsic | intrinsic+1 | 60k | 1M
	Value     uint64 `json:"value,omitempty"`  // wei
	Create    bool   `json:"create,omitempty"` // contract-creation tx: the root frame is the init code
	Sender    string `json:"sender,omitempty"` // "" (rich) | poor
	NonceSkew int    `json:"nonce_skew,omitempty"`
}

func (t c02Tx) String() string {
	s := fmt.Sprintf("%s/gas=%s/v=%d", t.Type, t.Gas, t.Value)
	if t.Create {
		s += "/create"
	}
	if t.Sender != "" {
		s += "/" + t.Sender
	}
	if t.NonceSkew != 0 {
		s += fmt.Sprintf("/nonce%+d", t.NonceSkew)
	}
	return s
}

type c02Case struct {
	Space   string    `json:"space"`
	Flavour string    `json:"flavour"` // bech32 (genesis default: 1 custom precompile) | cpc3 (erc20+staking+bech32) | nocpc (control: registry wiped on the branch)
	Slot0   uint64    `json:"slot0"`   // committed value of storage slot 0 of the root contract
	X       string    `json:"x"`       // state of the EOA target: absent | empty | funded
	P       *c02Frame `json:"p"`
	Tx      c02Tx     `json:"tx"`
	Q       *c02Frame `json:"q,omitempty"` // second message (from S2, legacy, 1M gas) when set
	// Prefund: the addresses the root contract's next CREATE and every CREATE2 of the grammar will produce already hold 7 wei
	Prefund bool `json:"prefund,omitempty"`
	// ChildBal: every child frame contract, and every address a CREATE / CREATE2 deploying a child frame can produce,
	// holds this many wei before the transaction
	ChildBal uint64 `json:"child_bal,omitempty"`
}

func (c *c02Case) String() string {
	s := fmt.Sprintf("%s/%s slot0=%d x=%s tx=%s p=%s", c.Space, c.Flavour, c.Slot0, c.X, c.Tx, c.P)
	if c.Q != nil {
		s += " q=" + c.Q.String()
	}
	if c.Prefund {
		s += " prefunded-create-addresses"
	}
	if c.ChildBal != 0 {
		s += fmt.Sprintf(" child-frames-hold=%d", c.ChildBal)
	}
	return s
}

// coarse shape for the distinct-cases statistic: ops with kind and target, no numeric parameters
func c02Shape(f *c02Frame) string {
	if f == nil {
		return "-"
	}
	var parts []string
	for _, g := range f.G {
		s := g.Op
		if g.Kind != "" {
			s = g.Kind
		}
		if g.Tgt != "" {
			s += ":" + g.Tgt
		}
		if g.Init != "" {
			s += ":" + g.Init
		}
		if g.Child != nil {
			s += "[" + c02Shape(g.Child) + "]"
		}
		parts = append(parts, s)
	}
	return strings.Join(parts, ";")
}

// ---------------------------------------------------------------------------
// the universe
// ---------------------------------------------------------------------------

var (
	c02Rich = new(big.Int).Exp(big.NewInt(10), big.NewInt(18), nil)
)

func hashN(n uint64) common.Hash { return common.BigToHash(new(big.Int).SetUint64(n)) }

var c02KidCode = func() []byte {
	code, _ := c02Compile(&c02Frame{G: []c02Gadget{{Op: "sstore", K: 1, V: 2}, {Op: "log1"}}})
	return code
}()

// c02FixedUniverse: accounts that are the same for every case of one X variant.
func c02FixedUniverse(x string) []c02UAcct {
	u := []c02UAcct{
		{c02S, c02Acct{Exists: true, Nonce: 5, Balance: new(big.Int).Set(c02Rich)}},
		{c02S2, c02Acct{Exists: true, Nonce: 0, Balance: new(big.Int).Set(c02Rich)}},
		{c02Poor, c02Acct{Exists: true, Nonce: 3, Balance: new(big.Int)}},
		{c02Kid, c02Acct{Exists: true, Nonce: 1, Balance: big.NewInt(3), Code: c02KidCode}},
	}
	switch x {
	case "absent":
		u = append(u, c02UAcct{c02X, c02Acct{}})
	case "empty":
		u = append(u, c02UAcct{c02X, c02Acct{Exists: true, Balance: new(big.Int)}})
	case "funded":
		u = append(u, c02UAcct{c02X, c02Acct{Exists: true, Balance: big.NewInt(10)}})
	default:
		panic("x " + x)
	}
	for _, a := range []common.Address{c02Zero, c02Never, c02Ecrec} {
		u = append(u, c02UAcct{a, c02Acct{}})
	}
	return u
}

// c02Built is a case made concrete: universe, messages, addresses to watch.
type c02Built struct {
	Fixed    []c02UAcct // installed once per X variant
	PerCase  []c02UAcct // root contract and child frames
	Msgs     []ethtypes.Message
	TxTypes  []uint8
	Watch    []common.Address // universe addresses
	Creators []common.Address // contexts that may execute CREATE / CREATE2 (nil when the program has none)
	// FrameCands: every address a CREATE (creator nonce 1) / CREATE2 (salt 0) that deploys a child frame can produce in any creator context
	FrameCands []common.Address
	RootAddr   common.Address
}

func c02Build(c *c02Case) *c02Built {
	b := &c02Built{Fixed: c02FixedUniverse(c.X)}
	rootCode, cc := c02CompileCC(c.P, c.Q)
	children := cc.Children
	if c.ChildBal != 0 {
		for i := range children {
			children[i].Balance = new(big.Int).SetUint64(c.ChildBal)
		}
	}
	sender, nonce := c02S, uint64(5)
	if c.Tx.Sender == "poor" {
		sender, nonce = c02Poor, 3
	}
	var to *common.Address
	var data []byte
	if c.Tx.Create {
		b.RootAddr = ethcrypto.CreateAddress(sender, nonce)
		b.PerCase = append(b.PerCase, c02UAcct{b.RootAddr, c02Acct{}})
		data = rootCode
	} else {
		b.RootAddr = c02T
		root := c02UAcct{c02T, c02Acct{Exists: true, Nonce: 1, Balance: big.NewInt(5), Code: rootCode, Storage: map[common.Hash]common.Hash{}}}
		if c.Slot0 != 0 {
			root.Storage[hashN(0)] = hashN(c.Slot0)
		}
		b.PerCase = append(b.PerCase, root)
		t := c02T
		to = &t
	}
	b.PerCase = append(b.PerCase, children...)
	if c.Prefund {
		for _, a := range c02CreateCandidates([]common.Address{b.RootAddr}, 1)[1:] { // CREATE with nonce 1, CREATE2 with every init variant
			b.PerCase = append(b.PerCase, c02UAcct{a, c02Acct{Exists: true, Balance: big.NewInt(7)}})
		}
	}
	if c.P.hasOp("create", "create2") || c.Q.hasOp("create", "create2") {
		b.Creators = append(b.Creators, b.RootAddr)
		for _, ch := range children {
			b.Creators = append(b.Creators, ch.Addr)
		}
	}
	if len(cc.Inits) > 0 {
		seen := map[common.Address]bool{}
		for _, cr := range b.Creators {
			as := []common.Address{ethcrypto.CreateAddress(cr, 1)}
			for _, init := range cc.Inits {
				as = append(as, ethcrypto.CreateAddress2(cr, [32]byte{}, ethcrypto.Keccak256(init)))
			}
			for _, a := range as {
				if !seen[a] {
					seen[a] = true
					b.FrameCands = append(b.FrameCands, a)
					if c.ChildBal != 0 {
						b.PerCase = append(b.PerCase, c02UAcct{a, c02Acct{Exists: true, Balance: new(big.Int).SetUint64(c.ChildBal)}})
					}
				}
			}
		}
	}
	for _, a := range b.Fixed {
		b.Watch = append(b.Watch, a.Addr)
	}
	for _, a := range b.PerCase {
		b.Watch = append(b.Watch, a.Addr)
	}

	var al ethtypes.AccessList
	var txType uint8
	switch c.Tx.Type {
	case "legacy":
		txType = ethtypes.LegacyTxType
	case "al-empty":
		txType, al = ethtypes.AccessListTxType, ethtypes.AccessList{}
	case "al-sender":
		txType, al = ethtypes.AccessListTxType, ethtypes.AccessList{{Address: sender, StorageKeys: []common.Hash{hashN(0)}}}
	case "al-target":
		txType, al = ethtypes.AccessListTxType, ethtypes.AccessList{{Address: b.RootAddr, StorageKeys: []common.Hash{hashN(0)}}}
	case "dynfee":
		txType = ethtypes.DynamicFeeTxType
	default:
		panic("tx type " + c.Tx.Type)
	}
	intrinsic, err := core.IntrinsicGas(data, al, c.Tx.Create, true, true)
	if err != nil {
		panic(err)
	}
	var gas uint64
	switch c.Tx.Gas {
	case "intrinsic-1":
		gas = intrinsic - 1
	case "intrinsic":
		gas = intrinsic
	case "intrinsic+1":
		gas = intrinsic + 1
	case "60k":
		gas = 60_000
	case "1M":
		gas = 1_000_000
	default:
		panic("gas " + c.Tx.Gas)
	}
	zero := new(big.Int)
	n := uint64(int64(nonce) + int64(c.Tx.NonceSkew))
	// exactly what Transaction.AsMessage produces for a zero price and a zero base fee: gasPrice = feeCap = tipCap = 0, isFake = false
	b.Msgs = append(b.Msgs, ethtypes.NewMessage(sender, to, n, new(big.Int).SetUint64(c.Tx.Value), gas, zero, zero, zero, data, al, false))
	b.TxTypes = append(b.TxTypes, txType)
	if c.Q != nil {
		t := c02T
		b.Msgs = append(b.Msgs, ethtypes.NewMessage(c02S2, &t, 0, zero, 1_000_000, zero, zero, zero, nil, nil, false))
		b.TxTypes = append(b.TxTypes, ethtypes.LegacyTxType)
	}
	return b
}

// ---------------------------------------------------------------------------
// evermint side
// ---------------------------------------------------------------------------

type c02Ev struct {
	w       *world.World
	flavour string
	nCpc    int
	base    sdk.Context
	l1      map[string]sdk.Context
	// accounts of the world itself (validators, wallets, module accounts, precompile accounts): not part of the universe;
	// their sequence and balance must not change at keeper level
	baseSeq map[string]uint64
	baseBal map[string]string
	ethCfg  *ethparams.ChainConfig
	blkCtx  corevm.BlockContext
}

func c02NewEv(flavour string) *c02Ev {
	cfg := world.Config{BaseFee: big.NewInt(0), MinGasPrice: "0"}
	if flavour == "cpc3" {
		cfg.DeployErc20, cfg.DeployStaking = true, true
	}
	w := world.New(cfg)
	if br := w.Block(nil); br.Err != nil || br.Panic != "" {
		panic(fmt.Sprintf("block 1: %v %s", br.Err, br.Panic))
	}
	e := &c02Ev{w: w, flavour: flavour, l1: map[string]sdk.Context{}, baseSeq: map[string]uint64{}, baseBal: map[string]string{}}
	e.base = w.Ctx()
	if flavour == "nocpc" {
		// control world: no custom precompile registered. Genesis always deploys the bech32 precompile, so the registry
		// is emptied on the branch (a synthetic state, used only to show that nothing else differs).
		st := e.base.KVStore(w.Keys[cpctypes.StoreKey])
		it := storetypes.KVStorePrefixIterator(st, cpctypes.KeyPrefixCustomPrecompiledContractMeta)
		var keys [][]byte
		for ; it.Valid(); it.Next() {
			keys = append(keys, append([]byte{}, it.Key()...))
		}
		it.Close()
		for _, k := range keys {
			st.Delete(k)
		}
	}
	e.nCpc = len(w.App.CPCKeeper.GetAllCustomPrecompiledContractsMeta(e.base))
	// evermint's StateDB mints and burns through the x/evm module account, which the SDK creates on first use. It is
	// plumbing of the bank bridge, not an account of the Ethereum state: make it part of the base world.
	_ = w.App.AccountKeeper.GetModuleAccount(e.base, evmtypes.ModuleName)
	w.App.AccountKeeper.IterateAccounts(e.base, func(a sdk.AccountI) bool {
		e.baseSeq[string(a.GetAddress())] = a.GetSequence()
		return false
	})
	w.App.BankKeeper.IterateAllBalances(e.base, func(addr sdk.AccAddress, coin sdk.Coin) bool {
		if coin.Denom == world.Denom {
			e.baseBal[string(addr)] = coin.Amount.String()
		}
		return false
	})
	for _, x := range []string{"absent", "empty", "funded"} {
		ctx, _ := e.base.CacheContext()
		for _, a := range c02FixedUniverse(x) {
			if _, clash := e.baseSeq[string(a.Addr.Bytes())]; clash {
				panic("universe address exists in the base world: " + a.Addr.Hex())
			}
		}
		e.install(ctx, c02FixedUniverse(x))
		e.l1[x] = ctx
	}
	k := w.App.EvmKeeper
	ecfg, err := k.EVMConfig(e.base, nil)
	if err != nil {
		panic(err)
	}
	e.ethCfg = ecfg.ChainConfig
	// the block context exactly as Keeper.NewEVM builds it (x/evm/keeper/state_transition.go)
	e.blkCtx = corevm.BlockContext{
		CanTransfer: core.CanTransfer,
		Transfer:    core.Transfer,
		GetHash:     k.GetHashFn(e.base),
		Coinbase:    ecfg.CoinBase,
		GasLimit:    evertypes.BlockGasLimit(e.base),
		BlockNumber: big.NewInt(e.base.BlockHeight()),
		Time:        big.NewInt(e.base.BlockHeader().Time.Unix()),
		Difficulty:  big.NewInt(0),
		BaseFee:     ecfg.BaseFee,
		Random:      nil,
	}
	if ecfg.BaseFee == nil || ecfg.BaseFee.Sign() != 0 {
		panic("keeper passes expect base fee 0")
	}
	return e
}

// install writes universe accounts through the keepers: auth account (sequence), bank balance (minted through the evm
// module account, as the StateDB does), code hash + code, storage.
func (e *c02Ev) install(ctx sdk.Context, u []c02UAcct) {
	app := e.w.App
	for _, a := range u {
		if !a.Exists {
			continue
		}
		acc := app.AccountKeeper.NewAccountWithAddress(ctx, a.Addr.Bytes())
		if err := acc.SetSequence(a.Nonce); err != nil {
			panic(err)
		}
		app.AccountKeeper.SetAccount(ctx, acc)
		if a.Balance != nil && a.Balance.Sign() > 0 {
			coins := sdk.NewCoins(sdk.NewCoin(world.Denom, sdkmath.NewIntFromBigInt(a.Balance)))
			if err := app.BankKeeper.MintCoins(ctx, evmtypes.ModuleName, coins); err != nil {
				panic(err)
			}
			if err := app.BankKeeper.SendCoinsFromModuleToAccount(ctx, evmtypes.ModuleName, a.Addr.Bytes(), coins); err != nil {
				panic(err)
			}
		}
		if len(a.Code) > 0 {
			hash := ethcrypto.Keccak256Hash(a.Code)
			app.EvmKeeper.SetCode(ctx, hash.Bytes(), a.Code)
			app.EvmKeeper.SetCodeHash(ctx, a.Addr, hash)
		}
		for k, v := range a.Storage {
			app.EvmKeeper.SetState(ctx, a.Addr, k, v.Bytes())
		}
	}
}

// scan reads the Ethereum-visible state out of the stores: every auth account, every balance in the EVM denom, every
// code hash and every storage entry, grouped by address. Accounts of the base world are not returned; a change of
// their sequence or balance is reported in baseChanged.
func (e *c02Ev) scan(ctx sdk.Context) (out map[common.Address]*c02Acct, zeroSlots int, baseChanged string) {
	app := e.w.App
	out = map[common.Address]*c02Acct{}
	get := func(addr []byte) *c02Acct {
		a := common.BytesToAddress(addr)
		x := out[a]
		if x == nil {
			x = &c02Acct{Balance: new(big.Int), Storage: map[common.Hash]common.Hash{}}
			out[a] = x
		}
		return x
	}
	nBase := 0
	app.AccountKeeper.IterateAccounts(ctx, func(a sdk.AccountI) bool {
		if seq, ok := e.baseSeq[string(a.GetAddress())]; ok {
			nBase++
			if seq != a.GetSequence() {
				baseChanged += fmt.Sprintf("sequence of %x: %d -> %d; ", a.GetAddress().Bytes(), seq, a.GetSequence())
			}
			return false
		}
		x := get(a.GetAddress())
		x.Exists = true
		x.Nonce = a.GetSequence()
		return false
	})
	if nBase != len(e.baseSeq) {
		baseChanged += fmt.Sprintf("%d of %d base accounts left; ", nBase, len(e.baseSeq))
	}
	nBal := 0
	app.BankKeeper.IterateAllBalances(ctx, func(addr sdk.AccAddress, coin sdk.Coin) bool {
		if coin.Denom != world.Denom {
			return false
		}
		if _, ok := e.baseSeq[string(addr)]; ok {
			nBal++
			if e.baseBal[string(addr)] != coin.Amount.String() {
				baseChanged += fmt.Sprintf("balance of %x: %s -> %s; ", addr.Bytes(), e.baseBal[string(addr)], coin.Amount)
			}
			return false
		}
		get(addr).Balance = coin.Amount.BigInt()
		return false
	})
	if nBal != len(e.baseBal) {
		baseChanged += fmt.Sprintf("%d of %d base balances left; ", nBal, len(e.baseBal))
	}
	st := ctx.KVStore(e.w.Keys[evmtypes.StoreKey])
	it := storetypes.KVStorePrefixIterator(st, evmtypes.KeyPrefixCodeHash)
	for ; it.Valid(); it.Next() {
		addr := it.Key()[1:]
		if _, ok := e.baseSeq[string(addr)]; ok {
			continue
		}
		get(addr).Code = append([]byte{}, app.EvmKeeper.GetCode(ctx, common.BytesToHash(it.Value()))...)
		if len(get(addr).Code) == 0 {
			get(addr).Code = []byte("<code hash " + hex.EncodeToString(it.Value()) + " without code>")
		}
	}
	it.Close()
	it = storetypes.KVStorePrefixIterator(st, evmtypes.KeyPrefixStorage)
	for ; it.Valid(); it.Next() {
		k := it.Key()
		if len(k) != 1+20+32 {
			baseChanged += fmt.Sprintf("malformed storage key %x; ", k)
			continue
		}
		v := common.BytesToHash(it.Value())
		if v == (common.Hash{}) {
			zeroSlots++ // a slot set to zero stays in the store as 32 zero bytes; as a map it equals an unset slot
			continue
		}
		get(k[1:21]).Storage[common.BytesToHash(k[21:])] = v
	}
	it.Close()
	return out, zeroSlots, baseChanged
}

type c02EvRun struct {
	Outs  []c02Outcome
	Posts []map[common.Address]*c02Acct
	Base  []string
	Zero  int
}

// runEv executes the case on evermint: branch, install, ApplyMessageWithConfig(commit=true) per message, scan.
func (e *c02Ev) run(c *c02Case, b *c02Built) (r c02EvRun) {
	k := e.w.App.EvmKeeper
	ctx, _ := e.l1[c.X].CacheContext()
	e.install(ctx, b.PerCase)
	for i, msg := range b.Msgs {
		var out c02Outcome
		func() {
			defer func() {
				if rec := recover(); rec != nil {
					out.Panic = fmt.Sprint(rec)
				}
			}()
			cfg, err := k.EVMConfig(ctx, nil)
			if err != nil {
				panic(err)
			}
			txType := b.TxTypes[i]
			txConfig := evmvm.TxConfig{BlockHash: common.BytesToHash(ctx.HeaderHash()), TxHash: common.BigToHash(big.NewInt(int64(i + 1))), TxIndex: 0, LogIndex: 0, TxType: &txType}
			res, err := k.ApplyMessageWithConfig(ctx, msg, nil, true, cfg, txConfig)
			if err != nil {
				out.CoreErr = c02CoreErrClass(err)
				return
			}
			out.Ret = append([]byte{}, res.Ret...)
			out.GasUsed = res.GasUsed
			out.VmErr = res.VmError
			var receipt ethtypes.Receipt
			if err := receipt.UnmarshalBinary(res.MarshalledReceipt); err != nil {
				panic(err)
			}
			out.Logs = c02Logs(receipt.Logs)
			if (receipt.Status == ethtypes.ReceiptStatusSuccessful) != (res.VmError == "") {
				panic("receipt status contradicts vm error")
			}
		}()
		r.Outs = append(r.Outs, out)
		post, zero, baseChanged := e.scan(ctx)
		r.Posts = append(r.Posts, post)
		r.Base = append(r.Base, baseChanged)
		r.Zero += zero
	}
	return r
}

// ---------------------------------------------------------------------------
// reference side + comparison
// ---------------------------------------------------------------------------

type c02Diff struct {
	Clause string
	Detail string
}

// compare runs the reference for the case and compares it with the evermint run, message by message.
func (e *c02Ev) compare(c *c02Case, b *c02Built, evr c02EvRun, warm []common.Address) (diffs []c02Diff, refOuts []c02Outcome) {
	u := append(append([]c02UAcct{}, b.Fixed...), b.PerCase...)
	ref := newGethRef(u, e.ethCfg, e.blkCtx, warm)
	var cands []common.Address
	if b.Creators != nil {
		cands = append(c02CreateCandidates(b.Creators, 12), b.FrameCands...)
	}
	for i, msg := range b.Msgs {
		ro := ref.Apply(msg)
		refOuts = append(refOuts, ro)
		eo := evr.Outs[i]
		tag := fmt.Sprintf("msg %d: ", i+1)
		switch {
		case eo.Class() != ro.Class():
			diffs = append(diffs, c02Diff{"outcome-class", tag + fmt.Sprintf("evermint %s, go-ethereum %s", eo, ro)})
		case !c02OutcomeEqualExceptGas(eo, ro):
			cl := "return-data"
			if string(eo.Ret) == string(ro.Ret) {
				cl = "logs"
			}
			diffs = append(diffs, c02Diff{cl, tag + fmt.Sprintf("evermint %s %v, go-ethereum %s %v", eo, eo.Logs, ro, ro.Logs)})
		case eo.GasUsed != ro.GasUsed:
			diffs = append(diffs, c02Diff{"gas-used", tag + fmt.Sprintf("evermint %d, go-ethereum %d (difference %d)", eo.GasUsed, ro.GasUsed, int64(ro.GasUsed)-int64(eo.GasUsed))})
		}
		if evr.Base[i] != "" {
			diffs = append(diffs, c02Diff{"non-universe-account-changed", tag + evr.Base[i]})
		}
		// post-state of: the universe, whatever else evermint holds, and every possible created address the reference holds
		seen := map[common.Address]bool{}
		var addrs []common.Address
		add := func(a common.Address) {
			if !seen[a] {
				seen[a] = true
				addrs = append(addrs, a)
			}
		}
		for _, a := range b.Watch {
			add(a)
		}
		var extra []common.Address
		for a := range evr.Posts[i] {
			if !seen[a] {
				extra = append(extra, a)
			}
		}
		sort.Slice(extra, func(x, y int) bool { return strings.Compare(extra[x].Hex(), extra[y].Hex()) < 0 })
		for _, a := range extra {
			add(a)
		}
		for _, a := range cands {
			if !seen[a] && ref.sdb.Exist(a) {
				add(a)
			}
		}
		for _, a := range addrs {
			ea := c02Acct{Balance: new(big.Int)}
			if p := evr.Posts[i][a]; p != nil {
				ea = *p
			}
			keys := []common.Hash{hashN(0), hashN(1)}
			for k := range ea.Storage {
				if k != hashN(0) && k != hashN(1) {
					keys = append(keys, k)
				}
			}
			ra := ref.Account(a, keys)
			content, existence := c02AcctDiff(ea, ra)
			if content {
				diffs = append(diffs, c02Diff{"post-state", tag + fmt.Sprintf("account %s: evermint %s, go-ethereum %s", a.Hex(), ea, ra)})
			} else if existence {
				diffs = append(diffs, c02Diff{"post-state-existence", tag + fmt.Sprintf("account %s: evermint %s, go-ethereum %s", a.Hex(), ea, ra)})
			}
		}
	}
	return diffs, refOuts
}

var c02Prof [3]time.Duration

// c02Result is the verdict for one case.
type c02Result struct {
	Findings []ev.Finding
	EvOuts   []c02Outcome
	RefOuts  []c02Outcome
	Zero     int
	Agree    bool
	Created  bool // evermint's final state holds an account outside the installed universe
	Deleted  bool // an account of the installed universe is gone from evermint's final state
}

// eval executes one case on both sides and classifies the differences.
func (e *c02Ev) eval(c *c02Case) c02Result {
	t0 := time.Now()
	b := c02Build(c)
	t1 := time.Now()
	evr := e.run(c, b)
	t2 := time.Now()
	diffs, refOuts := e.compare(c, b, evr, nil)
	c02Prof[0] += t1.Sub(t0)
	c02Prof[1] += t2.Sub(t1)
	c02Prof[2] += time.Since(t2)
	res := c02Result{EvOuts: evr.Outs, RefOuts: refOuts, Zero: evr.Zero, Agree: len(diffs) == 0}
	{
		last := evr.Posts[len(evr.Posts)-1]
		inU := map[common.Address]bool{}
		for _, a := range append(append([]c02UAcct{}, b.Fixed...), b.PerCase...) {
			inU[a.Addr] = true
			if a.Exists && (last[a.Addr] == nil || !last[a.Addr].Exists) {
				res.Deleted = true
			}
		}
		for a, x := range last {
			if !inU[a] && x.Exists {
				res.Created = true
			}
		}
	}
	if len(diffs) == 0 {
		return res
	}
	sig := ""
	if e.nCpc >= 1 && (c.P.touchesZero() || c.Q.touchesZero()) {
		// Defect-aware test: GetCustomPrecompiledContractsAddress() of the forked go-ethereum returns n zero addresses
		// followed by the n registered ones, so with n >= 1 address 0 is in the access list from the start. If the
		// reference with exactly that one change (address 0 warm) reproduces evermint completely - outcome, gas, logs
		// and post-state of every account - the difference is this defect and nothing else.
		if d2, _ := e.compare(c, b, evr, []common.Address{c02Zero}); len(d2) == 0 {
			sig = c02SigZeroWarm
		}
	}
	for _, d := range diffs {
		detail := d.Detail + " | case: " + c.String()
		if sig != "" {
			detail = "address 0 is warm on evermint (" + fmt.Sprint(e.nCpc) + " custom precompile(s) registered); identical to go-ethereum once address 0 is warmed there too: " + detail
		}
		res.Findings = append(res.Findings, ev.Finding{Clause: d.Clause, Signature: sig, Detail: detail, Replay: c})
		if sig != "" {
			break // one finding per case for the known defect
		}
	}
	return res
}

// ---------------------------------------------------------------------------
// spaces
// ---------------------------------------------------------------------------

var (
	c02TxTypes = []string{"legacy", "al-empty", "al-sender", "al-target", "dynfee"}
	c02TxGas   = []string{"intrinsic", "intrinsic+1", "60k", "1M"}
	c02Xs      = []string{"absent", "empty", "funded"}
)

var c02StdTx = c02Tx{Type: "legacy", Gas: "1M"}

// c02Prefixes is the prefix set of the two-message space (message 1 runs one of these at the root contract).
func c02Prefixes() []*c02Frame {
	f := func(g ...c02Gadget) *c02Frame { return &c02Frame{G: g} }
	return []*c02Frame{
		f(c02Gadget{Op: "sstore", K: 0, V: 1}),
		f(c02Gadget{Op: "sstore", K: 0, V: 0}),
		f(c02Gadget{Op: "sstore", K: 0, V: 2}, c02Gadget{Op: "revert"}),
		f(c02Gadget{Op: "create2", Init: "rt1"}),
		f(c02Gadget{Op: "create2", Init: "sd"}),
		f(c02Gadget{Op: "create", Init: "rt1"}),
		f(c02Gadget{Op: "selfdestruct", Tgt: "eoa"}),
		f(c02Gadget{Op: "call", Kind: "delegatecall", Tgt: "kid", Gas: "all"}),
		f(c02Gadget{Op: "call", Kind: "call", Tgt: "kid", Val: 1, Gas: "all"}),
		f(c02Gadget{Op: "call", Kind: "call", Tgt: "eoa", Val: 1, Gas: "all"}),
		f(c02Gadget{Op: "call", Kind: "call", Tgt: "never", Val: 1, Gas: "all"}),
		f(c02Gadget{Op: "call", Kind: "call", Tgt: "zero", Val: 1, Gas: "all"}),
		f(c02Gadget{Op: "call", Kind: "call", Tgt: "child", Gas: "all", Child: f(c02Gadget{Op: "sstore", K: 0, V: 1}, c02Gadget{Op: "selfdestruct", Tgt: "eoa"})}),
	}
}

// c02Relevant returns the values of the two pre-state dimensions a program can observe: the state of the EOA target
// (read only by gadgets aimed at "eoa" and by the self-destructing init code, whose beneficiary it is) and the committed
// value of slot 0 of the root contract (read only by SSTORE / SLOAD on key 0). A dimension the program cannot observe is
// fixed (EOA funded, slot0 = 1).
func c02Relevant(fs ...*c02Frame) (xs []string, s0s []uint64) {
	var usesX, usesS0 bool
	var walk func(f *c02Frame)
	walk = func(f *c02Frame) {
		if f == nil {
			return
		}
		for _, g := range f.G {
			if g.Tgt == "eoa" || g.Init == "sd" {
				usesX = true
			}
			if (g.Op == "sstore" || g.Op == "sload") && g.K == 0 {
				usesS0 = true
			}
			walk(g.Child)
		}
	}
	for _, f := range fs {
		walk(f)
	}
	xs, s0s = []string{"funded"}, []uint64{1}
	if usesX {
		xs = c02Xs
	}
	if usesS0 {
		s0s = []uint64{0, 1}
	}
	return
}

// c02Enumerate calls yield for every case of the tier, in a fixed order.
func c02Enumerate(thorough bool, yield func(c *c02Case)) {
	full := c02FullAlphabet(thorough)
	small := c02SmallAlphabet()
	flat1 := c02Frames(full, 1)
	flat2 := c02Frames(full, 2)
	smallSet := map[string]bool{}
	for _, g := range small {
		smallSet[g.Shape()] = true
	}
	prestates := func(all bool, fs ...*c02Frame) ([]string, []uint64) {
		if all {
			return c02Xs, []uint64{0, 1}
		}
		return c02Relevant(fs...)
	}

	// space "flat": every root frame of <= 2 gadgets of the full alphabet, standard tx;
	// pre-states: quick = the observable ones (c02Relevant), thorough = all six
	for _, f := range flat2 {
		xs, s0s := prestates(thorough, f)
		for _, x := range xs {
			for _, s0 := range s0s {
				yield(&c02Case{Space: "flat", Flavour: "bech32", Slot0: s0, X: x, P: f, Tx: c02StdTx})
			}
		}
	}
	// space "control": every single-gadget frame and the two-gadget frames that touch address 0 (quick: partner gadget
	// from the small alphabet), in the world without any custom precompile and in the world with three
	for _, fl := range []string{"nocpc", "cpc3"} {
		for _, f := range flat2 {
			if len(f.G) == 2 {
				if !f.touchesZero() {
					continue
				}
				if !thorough && !((f.G[0].Tgt == "zero" && smallSet[f.G[1].Shape()]) || (f.G[1].Tgt == "zero" && smallSet[f.G[0].Shape()])) {
					continue
				}
			}
			xs := []string{"funded"}
			if thorough {
				xs = []string{"absent", "funded"}
			}
			for _, x := range xs {
				yield(&c02Case{Space: "control", Flavour: fl, Slot0: 1, X: x, P: f, Tx: c02StdTx})
			}
		}
	}
	// space "txgrid": every single-gadget frame x every transaction form (call and contract-creation) x pre-states
	for _, f := range flat1 {
		for _, create := range []bool{false, true} {
			xs, s0s := prestates(thorough, f)
			if create {
				s0s = []uint64{0} // a contract under construction has no committed storage
			}
			for _, ty := range c02TxTypes {
				for _, g := range c02TxGas {
					for _, v := range []uint64{0, 1} {
						for _, x := range xs {
							for _, s0 := range s0s {
								yield(&c02Case{Space: "txgrid", Flavour: "bech32", Slot0: s0, X: x, P: f, Tx: c02Tx{Type: ty, Gas: g, Value: v, Create: create}})
							}
						}
					}
				}
			}
		}
	}
	// space "txedge": consensus-level rejections (intrinsic gas - 1, nonce +-1, sender without funds)
	for _, f := range flat1[:12] {
		for _, create := range []bool{false, true} {
			for _, t := range []c02Tx{
				{Type: "legacy", Gas: "intrinsic-1"}, {Type: "al-target", Gas: "intrinsic-1"},
				{Type: "legacy", Gas: "1M", NonceSkew: 1}, {Type: "legacy", Gas: "1M", NonceSkew: -1},
				{Type: "legacy", Gas: "1M", Sender: "poor"}, {Type: "legacy", Gas: "1M", Sender: "poor", Value: 1},
				{Type: "dynfee", Gas: "60k", Sender: "poor", Value: 1},
			} {
				t.Create = create
				yield(&c02Case{Space: "txedge", Flavour: "bech32", Slot0: 1, X: "funded", P: f, Tx: t})
			}
		}
	}
	// space "tree2": root = [pre] CALL-kind(child frame) [post]; child frames = every frame of <= 2 gadgets of the small alphabet
	gp := func(g c02Gadget) *c02Gadget { return &g }
	type prePost struct{ pre, post *c02Gadget }
	var pps []prePost
	if !thorough {
		pps = []prePost{{nil, nil}, {gp(c02Gadget{Op: "sstore", K: 0, V: 1}), nil}, {nil, gp(c02Gadget{Op: "revert"})},
			{nil, gp(c02Gadget{Op: "sload", K: 0})}, {gp(c02Gadget{Op: "create2", Init: "rt1"}), nil},
			{nil, gp(c02Gadget{Op: "call", Kind: "call", Tgt: "again", Gas: "all"})}, {nil, gp(c02Gadget{Op: "extcodehash", Tgt: "again"})}}
	} else {
		pres := []*c02Gadget{nil, gp(c02Gadget{Op: "sstore", K: 0, V: 1}), gp(c02Gadget{Op: "sstore", K: 0, V: 0}), gp(c02Gadget{Op: "call", Kind: "call", Tgt: "zero", Gas: "all"}),
			gp(c02Gadget{Op: "create2", Init: "rt1"}), gp(c02Gadget{Op: "balance", Tgt: "zero"})}
		posts := []*c02Gadget{nil, gp(c02Gadget{Op: "sload", K: 0}), gp(c02Gadget{Op: "sstore", K: 0, V: 2}), gp(c02Gadget{Op: "revert"}), gp(c02Gadget{Op: "extcodehash", Tgt: "eoa"}),
			gp(c02Gadget{Op: "create2", Init: "sd"}), gp(c02Gadget{Op: "call", Kind: "call", Tgt: "eoa", Val: 1, Gas: "all"}), gp(c02Gadget{Op: "invalid"}),
			gp(c02Gadget{Op: "call", Kind: "call", Tgt: "again", Gas: "all"}), gp(c02Gadget{Op: "extcodehash", Tgt: "again"}), gp(c02Gadget{Op: "balance", Tgt: "again"})}
		for _, a := range pres {
			for _, b := range posts {
				pps = append(pps, prePost{a, b})
			}
		}
	}
	childCalls := c02CallGadgets([]string{"child"}, []string{"all", "2300"})
	childFrames := c02Frames(small, 2)
	mkRoot := func(pre *c02Gadget, call c02Gadget, child *c02Frame, post *c02Gadget) *c02Frame {
		call.Child = child
		fr := &c02Frame{}
		if pre != nil {
			fr.G = append(fr.G, *pre)
		}
		fr.G = append(fr.G, call)
		if post != nil {
			fr.G = append(fr.G, *post)
		}
		return fr
	}
	for _, pp := range pps {
		for _, call := range childCalls {
			for _, ch := range childFrames {
				yield(&c02Case{Space: "tree2", Flavour: "bech32", Slot0: 1, X: "funded", P: mkRoot(pp.pre, call, ch, pp.post), Tx: c02StdTx})
			}
		}
	}
	if thorough {
		for _, call := range c02CallGadgets([]string{"child"}, []string{"0"}) { // gas 0 (only the stipend of a value transfer reaches the child)
			for _, ch := range childFrames {
				yield(&c02Case{Space: "tree2", Flavour: "bech32", Slot0: 1, X: "funded", P: mkRoot(nil, call, ch, nil), Tx: c02StdTx})
			}
		}
	}
	// space "warmth": access-list warmth of storage slots across reverted frames that share the root's storage context
	// (DELEGATECALL / CALLCODE) or re-enter the root (CALL again): pre warms slot a, the child touches slot b and ends in
	// {return, revert, invalid}, post touches slot b again - the EIP-2929 cost of post depends on whether the child's warmth
	// survived; also with the slot pre-warmed by the transaction's access list (al-target).
	{
		touch := func(k uint64) []c02Gadget {
			return []c02Gadget{{Op: "sload", K: k}, {Op: "sstore", K: k, V: 2}}
		}
		ends := []*c02Gadget{nil, gp(c02Gadget{Op: "revert"}), gp(c02Gadget{Op: "invalid"})}
		for _, kind := range []string{"delegatecall", "callcode", "call"} {
			for _, pre := range touch(0) {
				for _, in := range touch(1) {
					for _, end := range ends {
						for _, post := range touch(1) {
							for _, txf := range []c02Tx{c02StdTx, {Type: "al-target", Gas: "1M"}} {
								child := &c02Frame{G: []c02Gadget{in}}
								if end != nil {
									child.G = append(child.G, *end)
								}
								pre, post := pre, post
								root := mkRoot(&pre, c02Gadget{Op: "call", Kind: kind, Tgt: "child", Gas: "all"}, child, &post)
								yield(&c02Case{Space: "warmth", Flavour: "bech32", Slot0: 1, X: "funded", P: root, Tx: txf})
							}
						}
					}
				}
			}
		}
	}
	// a second pre-state and transaction form for the plain depth-2 trees
	for _, call := range childCalls {
		for _, ch := range childFrames {
			yield(&c02Case{Space: "tree2", Flavour: "bech32", Slot0: 0, X: "absent", P: mkRoot(nil, call, ch, nil), Tx: c02Tx{Type: "al-target", Gas: "60k", Value: 1}})
		}
	}
	// space "tree3": root calls a child that (thorough: after one gadget) calls a grandchild frame (quick: 1 gadget, thorough: <= 2)
	{
		grand := c02Frames(small, 1)
		mids := []*c02Gadget{nil}
		outerKinds := []string{"call", "delegatecall"}
		if thorough {
			grand = childFrames
			mids = append(mids, gp(c02Gadget{Op: "sstore", K: 0, V: 2}), gp(c02Gadget{Op: "create2", Init: "rt1"}))
			outerKinds = []string{"call", "staticcall", "delegatecall", "callcode"}
		}
		for _, ok := range outerKinds {
			for _, inner := range c02CallGadgets([]string{"child"}, []string{"all"}) {
				for _, mid := range mids {
					for _, post := range []*c02Gadget{nil, gp(c02Gadget{Op: "revert"})} {
						for _, gf := range grand {
							in := inner
							in.Child = gf
							child := &c02Frame{}
							if mid != nil {
								child.G = append(child.G, *mid)
							}
							child.G = append(child.G, in)
							if post != nil {
								child.G = append(child.G, *post)
							}
							root := &c02Frame{G: []c02Gadget{{Op: "call", Kind: ok, Tgt: "child", Gas: "all", Child: child}, {Op: "sload", K: 0}}}
							yield(&c02Case{Space: "tree3", Flavour: "bech32", Slot0: 1, X: "funded", P: root, Tx: c02StdTx})
						}
					}
				}
			}
		}
	}
	// space "prefund": frames with a CREATE / CREATE2 whose result address already holds a balance (carry-over in
	// CreateAccount, collision rules); quick: partner gadget from the small alphabet
	for _, f := range flat2 {
		if !f.hasOp("create", "create2") {
			continue
		}
		if len(f.G) == 2 && !thorough {
			a, b := f.G[0], f.G[1]
			isC := func(g c02Gadget) bool { return g.Op == "create" || g.Op == "create2" }
			if !((isC(a) && (smallSet[b.Shape()] || isC(b))) || (isC(b) && smallSet[a.Shape()])) {
				continue
			}
		}
		yield(&c02Case{Space: "prefund", Flavour: "bech32", Slot0: 1, X: "funded", P: f, Tx: c02StdTx, Prefund: true})
	}
	// space "second": every program (quick: 1-gadget frames of the full alphabet + <= 2-gadget frames of the small one;
	// thorough: plus every 2-gadget frame of the full alphabet with all-gas calls) as the second message after each program
	// of the prefix set
	seconds := append(append([]*c02Frame{}, flat1...), childFrames...)
	if thorough {
		var noGasVariants []c02Gadget // the full alphabet without the 2300 / 0 gas variants of the calls
		for _, g := range full {
			if g.Op != "call" || g.Gas == "all" {
				noGasVariants = append(noGasVariants, g)
			}
		}
		for _, f := range c02Frames(noGasVariants, 2) {
			if len(f.G) == 2 {
				seconds = append(seconds, f)
			}
		}
	}
	for _, p := range c02Prefixes() {
		for _, q := range seconds {
			_, s0s := prestates(!thorough, p, q)
			for _, s0 := range s0s {
				yield(&c02Case{Space: "second", Flavour: "bech32", Slot0: s0, X: "absent", P: p, Tx: c02StdTx, Q: q})
			}
		}
	}
	if thorough {
		// three gadgets per frame over the small alphabet; the full two-gadget space under two more transaction forms
		for _, f := range c02Frames(small, 3) {
			if len(f.G) < 3 {
				continue
			}
			for _, s0 := range []uint64{0, 1} {
				yield(&c02Case{Space: "flat3", Flavour: "bech32", Slot0: s0, X: "funded", P: f, Tx: c02StdTx})
			}
		}
		for _, f := range flat2 {
			if len(f.G) < 2 {
				continue
			}
			yield(&c02Case{Space: "flat-60k", Flavour: "bech32", Slot0: 1, X: "empty", P: f, Tx: c02Tx{Type: "al-target", Gas: "60k", Value: 1}})
			yield(&c02Case{Space: "flat-create", Flavour: "bech32", Slot0: 0, X: "absent", P: f, Tx: c02Tx{Type: "dynfee", Gas: "1M", Create: true}})
		}
	}
	// spaces "repeat" / "repeat-tree": the same account operated on k times inside one transaction (c02_repeat.go)
	c02EnumerateRepeat(thorough, yield)
}

// ---------------------------------------------------------------------------
// the check
// ---------------------------------------------------------------------------

type c02Sanity struct {
	c     *c02Case
	class string         // expected outcome class on both sides
	words map[int]uint64 // expected 32-byte words of the return data (word index -> value) on both sides
}

// c02WordsOK: ret holds every expected word.
func c02WordsOK(ret []byte, words map[int]uint64) bool {
	for i, v := range words {
		if len(ret) < 32*(i+1) || new(big.Int).SetBytes(ret[32*i:32*i+32]).Cmp(new(big.Int).SetUint64(v)) != 0 {
			return false
		}
	}
	return true
}

func c02SanityCases() []c02Sanity {
	f := func(g ...c02Gadget) *c02Frame { return &c02Frame{G: g} }
	mk := func(p *c02Frame, tx c02Tx, fl string) *c02Case {
		return &c02Case{Space: "sanity", Flavour: fl, Slot0: 0, X: "funded", P: p, Tx: tx}
	}
	return []c02Sanity{
		{c: mk(f(c02Gadget{Op: "sstore", K: 0, V: 1}), c02StdTx, "nocpc"), class: "ok"},
		{c: mk(f(c02Gadget{Op: "revert"}), c02StdTx, "nocpc"), class: "vm:execution reverted"},
		{c: mk(f(c02Gadget{Op: "invalid"}), c02StdTx, "nocpc"), class: "vm:invalid opcode: INVALID"},
		{c: mk(f(c02Gadget{Op: "sstore", K: 0, V: 1}), c02Tx{Type: "legacy", Gas: "intrinsic+1"}, "nocpc"), class: "vm:out of gas"},
		{c: mk(f(c02Gadget{Op: "log1"}), c02Tx{Type: "legacy", Gas: "intrinsic-1"}, "nocpc"), class: "core:intrinsic-gas"},
		{c: mk(f(c02Gadget{Op: "log1"}), c02Tx{Type: "legacy", Gas: "1M", NonceSkew: 1}, "nocpc"), class: "core:nonce-too-high"},
		{c: mk(f(c02Gadget{Op: "log1"}), c02Tx{Type: "legacy", Gas: "1M", Sender: "poor", Value: 1}, "nocpc"), class: "core:insufficient-funds"},
		{c: mk(f(c02Gadget{Op: "create2", Init: "rt1"}), c02Tx{Type: "dynfee", Gas: "1M", Create: true}, "nocpc"), class: "ok"},
	}
}

func runC02(replay string) int {
	run := ev.NewRun("C02", "model_checking")
	worlds := map[string]*c02Ev{}
	getEv := func(fl string) *c02Ev {
		if worlds[fl] == nil {
			worlds[fl] = c02NewEv(fl)
		}
		return worlds[fl]
	}
	if replay != "" {
		return replayCase(run, replay, func(raw json.RawMessage) []ev.Finding {
			var probe struct {
				Space string `json:"space"`
			}
			_ = json.Unmarshal(raw, &probe)
			if probe.Space == "block" {
				var bc c02BlockCase
				if err := json.Unmarshal(raw, &bc); err != nil {
					return []ev.Finding{{Clause: "replay", Detail: err.Error()}}
				}
				return c02BlockReplay(&bc)
			}
			var c c02Case
			if err := json.Unmarshal(raw, &c); err != nil {
				return []ev.Finding{{Clause: "replay", Detail: err.Error()}}
			}
			res := getEv(c.Flavour).eval(&c)
			for i := range res.EvOuts {
				fmt.Printf("msg %d: evermint %s | go-ethereum %s\n", i+1, res.EvOuts[i], res.RefOuts[i])
			}
			return res.Findings
		})
	}
	thorough := run.Thorough()
	if os.Getenv("VERIF_C02_COUNT") != "" {
		counts := map[string]int{}
		c02Enumerate(thorough, func(c *c02Case) { counts[c.Space]++ })
		fmt.Println(counts, "block:", len(c02BlockCases(thorough)))
		return 0
	}
	run.Sharded(Shards(), func(shard, n int) {
		// alphabet sanity + determinism (every shard: cheap)
		for _, s := range append(c02SanityCases(), c02RepeatSanity()...) {
			e := getEv(s.c.Flavour)
			r1 := e.eval(s.c)
			r2 := e.eval(s.c)
			if fmt.Sprint(r1.EvOuts, r1.RefOuts, len(r1.Findings)) != fmt.Sprint(r2.EvOuts, r2.RefOuts, len(r2.Findings)) {
				fmt.Fprintf(os.Stderr, "HARNESS-NONDETERMINISM: C02 sanity case %s: %v vs %v\n", s.c, r1, r2)
				os.Exit(2)
			}
			if shard != 0 {
				continue
			}
			run.Count("sanity_cases", 1)
			if len(r1.Findings) > 0 || r1.EvOuts[0].Class() != s.class || r1.RefOuts[0].Class() != s.class ||
				(len(r1.Findings) == 0 && (!c02WordsOK(r1.EvOuts[0].Ret, s.words) || !c02WordsOK(r1.RefOuts[0].Ret, s.words))) {
				run.Fail(ev.Finding{Clause: "alphabet-sanity", Detail: fmt.Sprintf("%s: expected %s on both sides, evermint %s, go-ethereum %s, %d finding(s)", s.c, s.class, r1.EvOuts[0], r1.RefOuts[0], len(r1.Findings)), Replay: s.c})
			}
		}
		idx := 0
		c02Enumerate(thorough, func(c *c02Case) {
			i := idx
			idx++
			if i%n != shard {
				return
			}
			e := getEv(c.Flavour)
			res := e.eval(c)
			if i/n < 3 {
				again := e.eval(c)
				if fmt.Sprint(res.EvOuts, res.RefOuts, len(res.Findings)) != fmt.Sprint(again.EvOuts, again.RefOuts, len(again.Findings)) {
					fmt.Fprintf(os.Stderr, "HARNESS-NONDETERMINISM: C02 case %s\n", c)
					os.Exit(2)
				}
			}
			c02Account(run, c, res)
		})
		if os.Getenv("VERIF_C02_PROF") != "" {
			fmt.Fprintf(os.Stderr, "shard %d: build %v evermint %v reference+compare %v\n", shard, c02Prof[0], c02Prof[1], c02Prof[2])
		}
		c02BlockPass(run, shard, n, thorough)
	})
	total := int64(0)
	c02Enumerate(thorough, func(*c02Case) { total++ })
	run.Coverage["evaluations"] = run.Counter("pairs_executed")
	run.Coverage["cases_enumerated"] = total
	run.Coverage["exhaustive"] = run.Counter("cases_executed") == total
	run.Coverage["rule"] = c02Rule(thorough)
	run.Coverage["translation_pairs_equal"] = run.Counter("pairs_equal")
	return run.Finish()
}

func c02Account(run *ev.Run, c *c02Case, res c02Result) {
	run.Count("cases_executed", 1)
	run.Count("cases_"+c.Space, 1)
	run.Count("pairs_executed", int64(len(res.EvOuts)))
	run.Count("ev_zero_valued_slots_left_in_store", int64(res.Zero))
	last := res.EvOuts[len(res.EvOuts)-1]
	status := "agree"
	if !res.Agree {
		status = "differ"
		for _, f := range res.Findings {
			if f.Signature == c02SigZeroWarm {
				status = "differ-zero-warm"
			}
		}
	} else {
		run.Count("pairs_equal", int64(len(res.EvOuts)))
	}
	run.Outcome(c.Flavour + "|" + last.Class() + "|" + status)
	if c.Space == "repeat" || c.Space == "repeat-tree" {
		// how many different observation vectors the sequences produce (non-vacuity of the observers)
		h := sha256.Sum256(res.EvOuts[0].Ret)
		run.Distinct("repeat-ret-" + hex.EncodeToString(h[:6]))
		run.Count("cases_repeat_with_deleted_account", map[bool]int64{true: 1}[res.Deleted])
		run.Count("cases_"+c.Space+"_"+res.EvOuts[0].Class(), 1)
	}
	if !res.Agree {
		run.Count("cases_differ_"+c.Space, 1)
	}
	if len(last.Logs) > 0 {
		run.Count("cases_with_logs", 1)
	}
	if res.Created {
		run.Count("cases_with_created_account", 1)
	}
	if res.Deleted {
		run.Count("cases_with_deleted_account", 1)
	}
	h := sha256.Sum256([]byte(c.Space + "|" + c02Shape(c.P) + "|" + c02Shape(c.Q) + "|" + c.Tx.Type + "|" + last.Class()))
	run.Distinct(hex.EncodeToString(h[:6]))
	if len(res.Findings) == 0 && (c.P.depth() > 1 || c.Q != nil) {
		run.Sample(map[string]interface{}{"case": c.String(), "evermint": fmt.Sprint(res.EvOuts), "go-ethereum": fmt.Sprint(res.RefOuts)})
	}
	for _, f := range res.Findings {
		run.Fail(f)
	}
}

func c02Rule(thorough bool) string {
	s := "differential, exhaustive over the stated finite spaces: real Keeper.ApplyMessageWithConfig(commit=true) on a CacheContext branch of the app state vs go-ethereum core.ApplyMessage over core/state (same block context, chain config and message; zero prices, base fee 0); compared: error class, return data, gas used, logs, and existence/nonce/balance/code/storage of every account (universe, anything else evermint's stores hold, every possible CREATE/CREATE2 address). " +
		"Gadgets: SSTORE(k<2,v<3), SLOAD(k<2), LOG0, LOG1, CALL/CALLCODE/DELEGATECALL/STATICCALL x {standing contract, self, EOA, 0x0, unused address, ecrecover 0x1 | child frame | the child called last} x value{0,1} x gas{all,2300,0}, CREATE/CREATE2 x {empty, 1-byte runtime, reverting, self-destructing init}, SELFDESTRUCT x {EOA, self, unused}, REVERT, INVALID, RETURN, BALANCE/EXTCODESIZE/EXTCODEHASH x targets, gas burner; every observation is written to the frame's return data. " +
		"Spaces: flat = all root frames of <=2 gadgets (22k) x pre-states {slot0 committed 0/1} x {EOA absent/empty/funded} (quick: only the dimensions the frame can observe); " +
		"txgrid = all 1-gadget frames x {legacy, access-list empty / sender+slot / target+slot, dynamic-fee} x gas{intrinsic, intrinsic+1, 60k, 1M} x value{0,1} x {message call, contract creation}; txedge = intrinsic-1, nonce+-1, sender without funds; " +
		"tree2 = [pre] CALL-kind(child frame, value, gas) [post] with all child frames of <=2 gadgets of a 26-gadget alphabet (572), post gadgets include calling / inspecting the same child again; tree3 = root -> child -> grandchild; " +
		"prefund = frames with CREATE/CREATE2 whose result addresses already hold a balance; second = 13 prefix programs x every program as the second message (fresh StateDB, committed-vs-current storage, re-created and self-destructed accounts); " +
		"repeat = the same account operated on k in {2,3} times inside one transaction: an orchestrator frame CALLs the same child k times, call i carrying value v_i in {0, (1,2,1)[i]} (all 2^k vectors), child program in {SELFDESTRUCT to EOA / itself / its caller / an unused address / ecrecover, each bare, after SSTORE, after LOG(SELFBALANCE); return SELFBALANCE; LOG(SELFBALANCE) + forward SELFBALANCE by CALL to EOA / caller / unused; forward then SELFDESTRUCT; SELFDESTRUCT through DELEGATECALL to a library; two-contract casts: self-destruct to the sibling in turns, sibling refunds the destroyed contract by CALL} x child {standing, deployed by CREATE / CREATE2 in the same tx} x child {empty, holding 3 wei (for CREATE*: the address holds them before)} x orchestrator {root frame (+ a second tx that observes and pays the child again), sub-frame that returns, sub-frame that REVERTs; after a sub-frame the root observes, pays the child 1 wei and observes again}; after EVERY call the orchestrator stores BALANCE / EXTCODESIZE / EXTCODEHASH of every cast contract and BALANCE of the beneficiary into its return data (new targets CALLER, #i = i-th frame contract, @n = address in result word n, literal; CALL value SELFBALANCE; k-word return capture), so intermediate states are compared; repeat-tree = tree2 with the CALL repeated: every child frame of <=2 gadgets of the small alphabet (572) called k times with every value vector and observed after each call; " +
		"control = frames touching 0x0 in a world without any and with three custom precompiles; block = programs (+SELFBALANCE; + repeat sequences over standing children) through complete FinalizeBlock with non-zero prices (legacy 2x base fee, dynamic-fee with tip, access-list), one fresh world per case"
	if thorough {
		s += "; thorough: all six pre-states everywhere in flat/txgrid, 6x11 pre/post combinations and gas 0 in tree2, depth-3 trees with <=2-gadget grandchildren under 4 outer call kinds, 3-gadget frames of the small alphabet, the 2-gadget space also under a 60k access-list tx with value and as contract-creation tx, as second message (all-gas calls), sstore-in-constructor and value-carrying CREATE variants, 10x more block cases; repeat / repeat-tree with k = 4, sub-frames entered by DELEGATECALL / CALLCODE, all three EOA states, every sequence also under an access-list tx and with 2300-gas calls, second tx everywhere, pre-funded children in repeat-tree"
	}
	return s
}
