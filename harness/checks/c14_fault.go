package checks

// C14 helpers: fault-injecting wrapper around the indexer database (crash points between database writes) and a
// deterministic driver for the real server.EVMIndexerService.

import (
	"encoding/hex"
	"fmt"
	"os"
	"sort"
	"strings"
	"sync"
	"time"

	"cosmossdk.io/log"
	abci "github.com/cometbft/cometbft/abci/types"
	cmtlog "github.com/cometbft/cometbft/libs/log"
	cmttypes "github.com/cometbft/cometbft/types"
	dbm "github.com/cosmos/cosmos-db"
	"github.com/cosmos/cosmos-sdk/client"

	"github.com/EscanBE/evermint/v12/indexer"
	evmserver "github.com/EscanBE/evermint/v12/server"
	evertypes "github.com/EscanBE/evermint/v12/types"
)

// c14CrashSignal is the panic value that stands for "the process died here".
type c14CrashSignal struct {
	K    int
	Mode string
}

const (
	c14Before = "before" // the k-th write is lost, the process dies
	c14After  = "after"  // the k-th write is durable, the process dies before the caller sees the return
)

// c14FaultDB counts the write operations that reach the database (Set/SetSync/Delete/DeleteSync on the DB,
// Write/WriteSync on a batch) and kills the "process" at the chosen one.
type c14FaultDB struct {
	dbm.DB
	mu      sync.Mutex
	writes  int
	ops     []string
	crashAt int // -1: never
	mode    string
	dead    bool
}

func newC14FaultDB(inner dbm.DB, crashAt int, mode string) *c14FaultDB {
	return &c14FaultDB{DB: inner, crashAt: crashAt, mode: mode}
}

func (f *c14FaultDB) point(desc string, do func() error) error {
	f.mu.Lock()
	if f.dead {
		f.mu.Unlock()
		fmt.Fprintln(os.Stderr, "HARNESS: database write after the simulated process death")
		os.Exit(2)
	}
	k := f.writes
	f.writes++
	f.ops = append(f.ops, desc)
	crash := k == f.crashAt
	if crash {
		f.dead = true
	}
	f.mu.Unlock()
	if !crash {
		return do()
	}
	if f.mode == c14After {
		if err := do(); err != nil {
			fmt.Fprintln(os.Stderr, "HARNESS: inner database write failed:", err)
			os.Exit(2)
		}
	}
	panic(c14CrashSignal{K: k, Mode: f.mode})
}

func (f *c14FaultDB) Set(k, v []byte) error {
	return f.point("Set", func() error { return f.DB.Set(k, v) })
}

func (f *c14FaultDB) SetSync(k, v []byte) error {
	return f.point("SetSync", func() error { return f.DB.SetSync(k, v) })
}

func (f *c14FaultDB) Delete(k []byte) error {
	return f.point("Delete", func() error { return f.DB.Delete(k) })
}

func (f *c14FaultDB) DeleteSync(k []byte) error {
	return f.point("DeleteSync", func() error { return f.DB.DeleteSync(k) })
}
func (f *c14FaultDB) NewBatch() dbm.Batch { return &c14FaultBatch{Batch: f.DB.NewBatch(), f: f} }
func (f *c14FaultDB) NewBatchWithSize(n int) dbm.Batch {
	return &c14FaultBatch{Batch: f.DB.NewBatchWithSize(n), f: f}
}

type c14FaultBatch struct {
	dbm.Batch
	f *c14FaultDB
	n int
}

func (b *c14FaultBatch) Set(k, v []byte) error { b.n++; return b.Batch.Set(k, v) }
func (b *c14FaultBatch) Delete(k []byte) error { b.n++; return b.Batch.Delete(k) }
func (b *c14FaultBatch) Write() error {
	return b.f.point(fmt.Sprintf("Batch.Write(%d ops)", b.n), b.Batch.Write)
}

func (b *c14FaultBatch) WriteSync() error {
	return b.f.point(fmt.Sprintf("Batch.WriteSync(%d ops)", b.n), b.Batch.WriteSync)
}

// c14Dump renders the whole database, sorted by key.
func c14Dump(db dbm.DB) string {
	it, err := db.Iterator(nil, nil)
	if err != nil {
		panic(err)
	}
	defer it.Close()
	var sb strings.Builder
	for ; it.Valid(); it.Next() {
		sb.WriteString(hex.EncodeToString(it.Key()))
		sb.WriteString("=")
		sb.WriteString(hex.EncodeToString(it.Value()))
		sb.WriteString("\n")
	}
	return sb.String()
}

// c14Load creates a MemDB holding exactly the dumped content.
func c14Load(dump string) dbm.DB {
	db := dbm.NewMemDB()
	for _, line := range strings.Split(dump, "\n") {
		if line == "" {
			continue
		}
		kv := strings.SplitN(line, "=", 2)
		k, _ := hex.DecodeString(kv[0])
		v, _ := hex.DecodeString(kv[1])
		if err := db.Set(k, v); err != nil {
			panic(err)
		}
	}
	return db
}

func c14DumpFromMap(m map[string]string) string {
	keys := make([]string, 0, len(m))
	for k := range m {
		keys = append(keys, k)
	}
	sort.Strings(keys)
	var sb strings.Builder
	for _, k := range keys {
		sb.WriteString(hex.EncodeToString([]byte(k)))
		sb.WriteString("=")
		sb.WriteString(hex.EncodeToString([]byte(m[k])))
		sb.WriteString("\n")
	}
	return sb.String()
}

// c14Idx decorates the real KVIndexer so that the driver can observe "block h has been handed to IndexBlock and the
// call returned" and "the service declared the indexer ready" without looking at a clock.
type c14Idx struct {
	*indexer.KVIndexer
	mu      sync.Mutex
	cur     int64
	indexed chan int64
	ready   chan struct{}
	once    sync.Once
}

var _ evertypes.EVMTxIndexer = (*c14Idx)(nil)

func (d *c14Idx) IndexBlock(b *cmttypes.Block, r []*abci.ExecTxResult) error {
	d.mu.Lock()
	d.cur = b.Height
	d.mu.Unlock()
	err := d.KVIndexer.IndexBlock(b, r)
	d.indexed <- b.Height
	return err
}

func (d *c14Idx) Ready() {
	d.KVIndexer.Ready()
	d.once.Do(func() { close(d.ready) })
}

// c14SvcRun is what one life of the indexer service did.
type c14SvcRun struct {
	Crashed     bool
	CrashHeight int64 // block being indexed when the process died
	Indexed     []int64
	StartErr    string
}

const c14Watchdog = 120 * time.Second

func c14Stall(what string) {
	fmt.Fprintln(os.Stderr, "HARNESS-STALL in C14:", what)
	os.Exit(2)
}

// c14DriveService runs one life of the real EVMIndexerService over db: the node is at height start when the service
// starts; after the service declared the indexer ready, blocks start+1..end are published one at a time (NewBlockHeader
// event), each after the previous one went through IndexBlock. Returns when block `end` was indexed or when the fault
// database killed the process.
func c14DriveService(ch *c14Chain, clientCtx client.Context, db dbm.DB, start, end int64) c14SvcRun {
	node := newC14Node(ch, start, false)
	idx := &c14Idx{KVIndexer: indexer.NewKVIndexer(db, log.NewNopLogger(), clientCtx), indexed: make(chan int64, 256), ready: make(chan struct{})}
	svc := evmserver.NewEVMIndexerService(idx, node)
	svc.SetLogger(cmtlog.NewNopLogger())
	crashed := make(chan c14CrashSignal, 1)
	startErr := make(chan error, 1)
	go func() {
		defer func() {
			if r := recover(); r != nil {
				if cs, ok := r.(c14CrashSignal); ok {
					crashed <- cs
					return
				}
				fmt.Fprintln(os.Stderr, "HARNESS: indexer service panicked:", r)
				os.Exit(2)
			}
		}()
		if err := svc.Start(); err != nil { // blocks until the service is stopped, like in server/start.go
			startErr <- err
		}
	}()
	defer func() { _ = svc.Stop() }()

	var run c14SvcRun
	crash := func() c14SvcRun {
		run.Crashed = true
		idx.mu.Lock()
		run.CrashHeight = idx.cur
		idx.mu.Unlock()
		return run
	}
	// phase 1: catch-up until ready
	for ready := false; !ready; {
		select {
		case <-crashed:
			return crash()
		case err := <-startErr:
			run.StartErr = err.Error()
			return run
		case h := <-idx.indexed:
			run.Indexed = append(run.Indexed, h)
		case <-idx.ready:
			ready = true
		case <-time.After(c14Watchdog):
			c14Stall("service never became ready")
		}
	}
	// IndexBlock calls of the catch-up all happened before Ready(): drain what is buffered
	for drained := false; !drained; {
		select {
		case h := <-idx.indexed:
			run.Indexed = append(run.Indexed, h)
		default:
			drained = true
		}
	}
	// phase 2: live blocks
	for h := start + 1; h <= end; h++ {
		node.publish(h)
		for done := false; !done; {
			select {
			case <-crashed:
				return crash()
			case got := <-idx.indexed:
				run.Indexed = append(run.Indexed, got)
				done = got == h
			case <-time.After(c14Watchdog):
				c14Stall(fmt.Sprintf("block %d never indexed", h))
			}
		}
	}
	return run
}
