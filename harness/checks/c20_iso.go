package checks

// C20 part (d): a failure inside one transaction never alters the results of the other transactions in the block.
//
// Two identically configured worlds advance in lockstep. At every height the main world executes [t1, X1..Xk, t2] and the twin
// [t1, t2] with byte-identical t1 (wallet A calls the log-emitting gadget) and t2 (wallet B creates a contract whose constructor
// logs); X are inputs offered by wallet C or sender-less garbage. The complete ExecTxResult of t1 must be byte-identical in both
// worlds; that of t2 must be identical after removing what legitimately depends on the position in the block:
//
//   * ethereum_tx.txIndex, tx_receipt.txIdx         + number of X that passed the ante handler (they are counted as block txs:
//                                                     app/antedl/evmlane/991e_setup_exec_ctx.go -> IncreaseTxCountTransient)
//   * receipt.CumulativeGasUsed (in the tx_receipt   + gas accounted for those X in the transient store (x/evm/keeper/
//     event and in MsgEthereumTxResponse)              state_transition.go: gas used when X committed, its gas limit otherwise)
//   * tx_receipt.logIdx                              + logs of committed X (0 for every failing X)
//
// Everything else — code, codespace, log, gas wanted, gas used, return data, contract address, logs, bloom, fee events — must agree.

import (
	"bytes"
	"fmt"
	"strconv"

	abci "github.com/cometbft/cometbft/abci/types"
	"github.com/cosmos/gogoproto/proto"
	"github.com/ethereum/go-ethereum/common/hexutil"
	ethtypes "github.com/ethereum/go-ethereum/core/types"

	sdk "github.com/cosmos/cosmos-sdk/types"

	evmtypes "github.com/EscanBE/evermint/v12/x/evm/types"

	"verif/harness/world"
)

// c20Shift is what the X of one block legitimately add to the position-dependent fields of a later transaction.
type c20Shift struct {
	Txs  uint64
	Gas  uint64
	Logs uint64
}

func c20ShiftOf(w *world.World, xs []*abci.ExecTxResult) (s c20Shift, err error) {
	for i, r := range xs {
		if !c20HasEthTxEvent(r) {
			continue
		}
		s.Txs++
		if r.Code != 0 {
			s.Gas += uint64(r.GasWanted) // the assume-failed bookkeeping keeps the gas limit
			continue
		}
		rc, e := world.ParseReceipt(i, r)
		if e != nil || !rc.HasReceipt {
			return s, fmt.Errorf("committed X %d has no parsable receipt: %v", i, e)
		}
		s.Gas += rc.GasUsed
		s.Logs += uint64(len(rc.R.Logs))
	}
	return s, nil
}

func c20SubReceipt(hexOrBin []byte, gas uint64) ([]byte, error) {
	rc := &ethtypes.Receipt{}
	if err := rc.UnmarshalBinary(hexOrBin); err != nil {
		return nil, err
	}
	if rc.CumulativeGasUsed < gas {
		return nil, fmt.Errorf("cumulative gas %d is smaller than the gas of the preceding X (%d)", rc.CumulativeGasUsed, gas)
	}
	rc.CumulativeGasUsed -= gas
	return rc.MarshalBinary()
}

func c20SubAttr(v string, d uint64) (string, error) {
	n, err := strconv.ParseUint(v, 10, 64)
	if err != nil {
		return "", err
	}
	if n < d {
		return "", fmt.Errorf("%d is smaller than the expected shift %d", n, d)
	}
	return strconv.FormatUint(n-d, 10), nil
}

// c20Normalize returns a copy of r with the position-dependent fields shifted back by s.
func c20Normalize(r *abci.ExecTxResult, s c20Shift) (*abci.ExecTxResult, error) {
	out := proto.Clone(r).(*abci.ExecTxResult)
	for ei := range out.Events {
		e := &out.Events[ei]
		for ai := range e.Attributes {
			a := &e.Attributes[ai]
			var err error
			switch {
			case e.Type == evmtypes.EventTypeEthereumTx && a.Key == evmtypes.AttributeKeyTxIndex,
				e.Type == evmtypes.EventTypeTxReceipt && a.Key == evmtypes.AttributeKeyReceiptTxIndex:
				a.Value, err = c20SubAttr(a.Value, s.Txs)
			case e.Type == evmtypes.EventTypeTxReceipt && a.Key == evmtypes.AttributeKeyReceiptStartLogIndex:
				a.Value, err = c20SubAttr(a.Value, s.Logs)
			case e.Type == evmtypes.EventTypeTxReceipt && a.Key == evmtypes.AttributeKeyReceiptMarshalled:
				var bz []byte
				if bz, err = hexutil.Decode(a.Value); err == nil {
					if bz, err = c20SubReceipt(bz, s.Gas); err == nil {
						a.Value = hexutil.Encode(bz)
					}
				}
			}
			if err != nil {
				return nil, fmt.Errorf("event %s.%s: %v", e.Type, a.Key, err)
			}
		}
	}
	if len(out.Data) > 0 {
		var data sdk.TxMsgData
		if err := proto.Unmarshal(out.Data, &data); err != nil {
			return nil, fmt.Errorf("tx data: %v", err)
		}
		for _, any := range data.MsgResponses {
			var resp evmtypes.MsgEthereumTxResponse
			if any.TypeUrl != "/"+proto.MessageName(&resp) {
				continue
			}
			if err := proto.Unmarshal(any.Value, &resp); err != nil {
				return nil, fmt.Errorf("tx response: %v", err)
			}
			bz, err := c20SubReceipt(resp.MarshalledReceipt, s.Gas)
			if err != nil {
				return nil, fmt.Errorf("tx response receipt: %v", err)
			}
			resp.MarshalledReceipt = bz
			if any.Value, err = proto.Marshal(&resp); err != nil {
				return nil, err
			}
		}
		bz, err := proto.Marshal(&data)
		if err != nil {
			return nil, err
		}
		out.Data = bz
	}
	return out, nil
}

func c20ResultBytes(r *abci.ExecTxResult) []byte {
	bz, err := proto.Marshal(r)
	if err != nil {
		panic(err)
	}
	return bz
}

// c20DiffResults names the first differing field of two results.
func c20DiffResults(a, b *abci.ExecTxResult) string {
	switch {
	case a.Code != b.Code || a.Codespace != b.Codespace:
		return fmt.Sprintf("code %s:%d vs %s:%d", a.Codespace, a.Code, b.Codespace, b.Code)
	case a.GasUsed != b.GasUsed:
		return fmt.Sprintf("gas used %d vs %d", a.GasUsed, b.GasUsed)
	case a.GasWanted != b.GasWanted:
		return fmt.Sprintf("gas wanted %d vs %d", a.GasWanted, b.GasWanted)
	case a.Log != b.Log:
		return fmt.Sprintf("log %q vs %q", a.Log, b.Log)
	case !bytes.Equal(a.Data, b.Data):
		return fmt.Sprintf("data %x vs %x", a.Data, b.Data)
	case len(a.Events) != len(b.Events):
		return fmt.Sprintf("%d events vs %d: %s | %s", len(a.Events), len(b.Events), world.EventsString(a.Events), world.EventsString(b.Events))
	}
	for i := range a.Events {
		ea, eb := a.Events[i], b.Events[i]
		if ea.Type != eb.Type || len(ea.Attributes) != len(eb.Attributes) {
			return fmt.Sprintf("event %d: %s vs %s", i, world.EventsString([]abci.Event{ea}), world.EventsString([]abci.Event{eb}))
		}
		for j := range ea.Attributes {
			if ea.Attributes[j].Key != eb.Attributes[j].Key || ea.Attributes[j].Value != eb.Attributes[j].Value || ea.Attributes[j].Index != eb.Attributes[j].Index {
				return fmt.Sprintf("event %d (%s) attribute %s=%s vs %s=%s", i, ea.Type, ea.Attributes[j].Key, ea.Attributes[j].Value, eb.Attributes[j].Key, eb.Attributes[j].Value)
			}
		}
	}
	return "info/other field"
}

func c20RunD(u c20Unit, rec *c20Rec) {
	fam := c20MustFamily(u)
	batch := u.Batch
	if batch <= 0 {
		batch = 1
	}
	kind := c20FamilyKind(fam.Name)
	main, twin := c20World(), c20World()
	pending := u.indices()
	var history []int
	for len(pending) > 0 {
		var items []c20Item
		items, pending = c20NextBatch(main, fam, pending, batch)
		if len(items) == 0 {
			continue
		}
		var idxs []int
		for _, it := range items {
			idxs = append(idxs, it.idx)
		}
		history = append(history, idxs...)
		report := func(clause, problem string) {
			c20ReportBatch(u, rec, clause, problem, history, idxs, func(sub c20Unit, r *c20Rec) { c20RunD(sub, r) })
			main, twin = c20World(), c20World()
		}
		ctx := main.Ctx()
		nA, nB := main.Nonce(ctx, main.Wallets[c20A].Eth()), main.Nonce(ctx, main.Wallets[c20B].Eth())
		tctx := twin.Ctx()
		if tA, tB := twin.Nonce(tctx, twin.Wallets[c20A].Eth()), twin.Nonce(tctx, twin.Wallets[c20B].Eth()); tA != nA || tB != nB || main.Height != twin.Height {
			report("isolation-twin-in-step", fmt.Sprintf("nonces of A/B differ between the worlds before the block: main %d/%d height %d, twin %d/%d height %d", nA, nB, main.Height, tA, tB, twin.Height))
			continue
		}
		t1 := BuildTx(main, TxSpec{Kind: KLog1, Sender: c20A, Nonce: nA}, Gwei)
		t2 := BuildTx(main, TxSpec{Kind: KCreateOK, Sender: c20B, Nonce: nB}, Gwei)
		txs := [][]byte{t1}
		for _, it := range items {
			txs = append(txs, it.tx)
		}
		txs = append(txs, t2)
		brM := main.Block(txs)
		brT := twin.Block([][]byte{t1, t2})
		rec.count("abci_calls", 4)
		rec.count("blocks", 2)
		if prob := c20BlockProblem(brM, len(txs)); prob != "" {
			report("block-executes", prob)
			continue
		}
		if prob := c20BlockProblem(brT, 2); prob != "" {
			rec.fail("block-executes", c20Signature(prob), "twin block [t1, t2]: "+prob, u)
			return
		}
		m1, m2 := brM.Res.TxResults[0], brM.Res.TxResults[len(txs)-1]
		w1, w2 := brT.Res.TxResults[0], brT.Res.TxResults[1]
		xs := brM.Res.TxResults[1 : len(txs)-1]
		if w1.Code != 0 || w2.Code != 0 || c20Failing(twin, w1) || c20Failing(twin, w2) {
			rec.fail("alphabet-sanity", "", fmt.Sprintf("t1/t2 must succeed in the twin block: %d %q / %d %q", w1.Code, w1.Log, w2.Code, w2.Log), u)
			return
		}
		shift, err := c20ShiftOf(main, xs)
		if err != nil {
			report("isolation-x-bookkeeping", err.Error())
			continue
		}
		problem := ""
		if !bytes.Equal(c20ResultBytes(m1), c20ResultBytes(w1)) {
			problem = "result of t1 (before X) differs from the twin block: " + c20DiffResults(m1, w1)
		} else if n2, err := c20Normalize(m2, shift); err != nil {
			problem = fmt.Sprintf("result of t2 (after X) cannot be shifted back by %+v: %v", shift, err)
		} else if nw2, err := c20Normalize(w2, c20Shift{}); err != nil { // same decode/encode round trip on the twin side
			problem = fmt.Sprintf("result of t2 in the twin block cannot be re-encoded: %v", err)
		} else if !bytes.Equal(c20ResultBytes(n2), c20ResultBytes(nw2)) {
			problem = fmt.Sprintf("result of t2 (after X) differs from the twin block after shifting tx index / cumulative gas / log index back by %+v: %s", shift, c20DiffResults(n2, nw2))
		}
		// which X were failing (the subject of the property), which succeeded (controls)
		stale := c20StaleFrom(items, xs)
		var requeue []int
		nFailing := 0
		for k, it := range items {
			if k >= stale && it.in.usesNonce() && problem == "" {
				requeue = append(requeue, it.idx)
				continue
			}
			failing := c20Failing(main, xs[k])
			if failing {
				nFailing++
			}
			cls := fmt.Sprintf("d: X %s failing=%v", c20TxClass(main, xs[k]), failing)
			rec.outcome(cls)
			rec.distinct("d|" + kind + "|" + cls)
			rec.count("inputs", 1)
			if failing {
				rec.count("isolation_failing_x", 1)
			} else {
				rec.count("isolation_nonfailing_x_controls", 1)
			}
		}
		rec.count("isolation_blocks_compared", 1)
		if problem != "" {
			report("failing-tx-leaves-other-results-unchanged", fmt.Sprintf("block [t1, %d X of %s, t2] (%d failing): %s", len(items), fam.Name, nFailing, problem))
			continue
		}
		pending = append(requeue, pending...)
	}
}
