package checks

import (
	"bytes"
	"fmt"
	"math/big"

	"github.com/ethereum/go-ethereum/core"

	"verif/harness/ev"
)

// c05Oracle: exact charge = gas used × effective price + value moved, in every outcome.
func c05Oracle(c ledgerCase, blocks []*blockObs) []ev.Finding {
	var out []ev.Finding
	fail := func(clause, sig, detail string) {
		out = append(out, ev.Finding{Clause: clause, Signature: sig, Detail: detail, Replay: c})
	}
	needTwin := false
	for bi, b := range blocks {
		if b.Panic != "" || b.Err != nil {
			fail("block-executes", "", fmt.Sprintf("block %d: panic=%q err=%v", bi, b.Panic, b.Err))
			return out
		}
		want := map[int]*big.Int{} // wallet -> expected Δ of the evm denom
		skip := map[int]bool{}
		add := func(wi int, x *big.Int) {
			if want[wi] == nil {
				want[wi] = new(big.Int)
			}
			want[wi].Add(want[wi], x)
		}
		cum := uint64(0)
		for i := range b.Txs {
			t := &b.Txs[i]
			where := fmt.Sprintf("block %d tx %d (%s)", bi, i, t.Spec)
			switch t.Class {
			case "cosmos-ok":
				fee := new(big.Int).Mul(new(big.Int).SetUint64(DefaultGas(KCosmosSend)), b.BaseFee)
				add(t.Spec.Sender, new(big.Int).Neg(new(big.Int).Add(fee, big.NewInt(5))))
				add((t.Spec.Sender+1)%4, big.NewInt(5))
				continue
			case "cosmos-fail":
				skip[t.Spec.Sender] = true
				continue
			case "not-admitted":
				needTwin = true
				continue
			}
			p := price(t, b.BaseFee)
			limit := t.Eth.Gas()
			if uint64(t.GasWanted) != limit {
				fail("gas-wanted-is-limit", "", fmt.Sprintf("%s: GasWanted=%d limit=%d", where, t.GasWanted, limit))
			}
			var g uint64
			if t.Class == "failed-after-admission" {
				g = limit
			} else {
				g = t.Rc.GasUsed
				if uint64(t.GasUsedR) != g {
					fail("consensus-gas-used-equals-receipt", "", fmt.Sprintf("%s: ExecTxResult.GasUsed=%d receipt=%d", where, t.GasUsedR, g))
				}
				intrinsic, err := core.IntrinsicGas(t.Eth.Data(), t.Eth.AccessList(), t.Eth.To() == nil, true, true)
				if err != nil {
					fail("intrinsic", "", where+": "+err.Error())
				}
				if g < intrinsic || g > limit {
					fail("intrinsic-le-gas-used-le-limit", "", fmt.Sprintf("%s: used=%d intrinsic=%d limit=%d", where, g, intrinsic, limit))
				}
				if t.Rc.R.CumulativeGasUsed != cum+g {
					fail("cumulative-gas-running-sum", "", fmt.Sprintf("%s: cumulative=%d want %d", where, t.Rc.R.CumulativeGasUsed, cum+g))
				}
				if t.Rc.EffPrice == nil || t.Rc.EffPrice.Cmp(p) != 0 {
					fail("receipt-effective-price", "", fmt.Sprintf("%s: receipt says %v, fee fields give %s", where, t.Rc.EffPrice, p))
				}
			}
			cum += g
			charge := new(big.Int).Mul(new(big.Int).SetUint64(g), p)
			if t.Class == "committed-ok" {
				charge.Add(charge, t.Eth.Value())
				switch t.Spec.Kind { // value moved by the precompile call on behalf of the sender
				case KErc20Burn:
					charge.Add(charge, big.NewInt(Erc20BurnAmount))
				case KErc20Transfer:
					charge.Add(charge, big.NewInt(Erc20TransferAmount))
				}
			}
			add(t.Spec.Sender, new(big.Int).Neg(charge))
		}
		for wi, wnt := range want {
			if skip[wi] {
				continue
			}
			// wallets are only paid by the cosmos send of the alphabet
			got := delta(b, walletAddr(wi), ledgerDenoms[0])
			if got.Cmp(wnt) != 0 {
				fail("sender-charged-gas-used-times-price-plus-value", "", fmt.Sprintf("block %d (%s): wallet %d Δ=%s want %s", bi, b.outcome(), wi, got, wnt))
			}
		}
		for wi := 0; wi < 4; wi++ {
			if _, touched := want[wi]; touched || skip[wi] {
				continue
			}
			if d := delta(b, walletAddr(wi), ledgerDenoms[0]); d.Sign() != 0 {
				fail("uninvolved-wallet-untouched", "", fmt.Sprintf("block %d: wallet %d Δ=%s", bi, wi, d))
			}
		}
	}
	if needTwin {
		// a tx that was not admitted costs nothing and changes nothing: the history without it reaches the same AppHashes
		twin := ledgerCase{MaxGas: c.MaxGas, BaseFee: c.BaseFee, MinGas: c.MinGas}
		for bi, b := range blocks {
			var keep []TxSpec
			for i, t := range b.Txs {
				if t.Class != "not-admitted" {
					keep = append(keep, c.Blocks[bi][i])
				}
			}
			twin.Blocks = append(twin.Blocks, keep)
		}
		_, tb := ledgerRun(twin)
		for bi := range blocks {
			if bi >= len(tb) || !bytes.Equal(tb[bi].AppHash, blocks[bi].AppHash) {
				fail("not-admitted-tx-changes-nothing", "", fmt.Sprintf("block %d (%s): AppHash differs from the block without the non-admitted txs", bi, blocks[bi].outcome()))
				break
			}
		}
	}
	return out
}
