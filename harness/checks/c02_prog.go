package checks

// Program grammar of C02: frame trees over a gadget alphabet, compiled to EVM byte code with the asm package.
//
// Every gadget is stack-neutral; gadgets that observe something (SLOAD, BALANCE, EXTCODE*, the success flag and the
// first return word of a call, the address returned by CREATE) store it into a result word in memory and a frame ends
// by RETURNing all its result words, so that an observation that differs between the two sides shows up in the
// return data (and, for a creation transaction, in the deployed code), not only in the gas.

import (
	"fmt"
	"math/big"
	"strconv"
	"strings"

	"github.com/ethereum/go-ethereum/common"
	ethcrypto "github.com/ethereum/go-ethereum/crypto"

	"verif/harness/asm"
)

// fixed addresses of the universe
var (
	c02S     = common.HexToAddress("0x00000000000000000000000000000000c2000051") // sender of message 1 (EOA, nonce 5, rich)
	c02S2    = common.HexToAddress("0x00000000000000000000000000000000c2000052") // sender of message 2 (EOA, nonce 0, rich)
	c02Poor  = common.HexToAddress("0x00000000000000000000000000000000c2000053") // existing EOA with balance 0
	c02T     = common.HexToAddress("0x00000000000000000000000000000000c2000001") // root frame contract
	c02Kid   = common.HexToAddress("0x00000000000000000000000000000000c20000aa") // standing contract: SSTORE(1,2); LOG1(7)
	c02X     = common.HexToAddress("0x00000000000000000000000000000000c20000e0") // "EOA" target: absent / empty / funded
	c02Never = common.HexToAddress("0x00000000000000000000000000000000c20000ff") // never-used address
	c02Zero  = common.Address{}
	c02Ecrec = common.BytesToAddress([]byte{1})
)

func c02ChildAddr(i int) common.Address {
	return common.BigToAddress(new(big.Int).Add(new(big.Int).SetBytes(common.HexToAddress("0x00000000000000000000000000000000c2000100").Bytes()), big.NewInt(int64(i))))
}

type c02Gadget struct {
	Op   string `json:"op"`
	K    uint64 `json:"k,omitempty"`
	V    uint64 `json:"v,omitempty"`
	Kind string `json:"kind,omitempty"` // call | callcode | delegatecall | staticcall
	// Tgt: child | again (the child called last by this frame) | kid | self | eoa | zero | never | ecrec |
	// caller (CALLER) | #i (the i-th child frame contract of the program, pre-order) | @n (the address held in result
	// word n of this frame, e.g. what a CREATE returned) | 0x.. (literal address)
	Tgt    string    `json:"tgt,omitempty"`
	Val    uint64    `json:"val,omitempty"`
	ValBal bool      `json:"valbal,omitempty"` // CALL / CALLCODE: the value is SELFBALANCE (forward everything the frame holds)
	Out    uint64    `json:"out,omitempty"`    // call: number of return words copied into the result words (0 = 1)
	Gas    string    `json:"gas,omitempty"`    // all | 2300 | 0
	Init   string    `json:"init,omitempty"`   // empty | rt1 | revert | sd | sstore-rt ; "" with Child: init code deploying the child frame as runtime
	Child  *c02Frame `json:"child,omitempty"`
}

type c02Frame struct {
	G []c02Gadget `json:"g"`
}

func (g c02Gadget) terminator() bool {
	switch g.Op {
	case "selfdestruct", "revert", "invalid", "return":
		return true
	}
	return false
}

// Shape renders a gadget without its child frame.
func (g c02Gadget) Shape() string {
	switch g.Op {
	case "sstore":
		return fmt.Sprintf("sstore(%d,%d)", g.K, g.V)
	case "sload":
		return fmt.Sprintf("sload(%d)", g.K)
	case "log1":
		return "log1"
	case "call":
		v := fmt.Sprintf("v%d", g.Val)
		if g.ValBal {
			v = "vSELFBALANCE"
		}
		s := fmt.Sprintf("%s(%s,%s,g%s)", g.Kind, g.Tgt, v, g.Gas)
		if g.Out > 1 {
			s += fmt.Sprintf("/out%d", g.Out)
		}
		return s
	case "create", "create2":
		if g.Init == "" && g.Child != nil {
			return fmt.Sprintf("%s(frame,v%d)", g.Op, g.Val)
		}
		return fmt.Sprintf("%s(%s,v%d)", g.Op, g.Init, g.Val)
	case "selfdestruct", "balance", "extcodesize", "extcodehash":
		return fmt.Sprintf("%s(%s)", g.Op, g.Tgt)
	}
	return g.Op
}

func (f *c02Frame) String() string {
	if f == nil {
		return "-"
	}
	var parts []string
	for _, g := range f.G {
		s := g.Shape()
		if g.Child != nil {
			s += "[" + g.Child.String() + "]"
		}
		parts = append(parts, s)
	}
	return strings.Join(parts, ";")
}

func (f *c02Frame) hasOp(ops ...string) bool {
	if f == nil {
		return false
	}
	for _, g := range f.G {
		for _, o := range ops {
			if g.Op == o {
				return true
			}
		}
		if g.Child.hasOp(ops...) {
			return true
		}
	}
	return false
}

func (f *c02Frame) touchesZero() bool {
	if f == nil {
		return false
	}
	for _, g := range f.G {
		if g.Tgt == "zero" || g.Child.touchesZero() {
			return true
		}
	}
	return false
}

func (f *c02Frame) depth() int {
	if f == nil {
		return 0
	}
	d := 1
	for _, g := range f.G {
		if c := 1 + g.Child.depth(); g.Child != nil && c > d {
			d = c
		}
	}
	return d
}

// memory layout of a frame: result words from 0, then the scratch area (init code of CREATE, LOG data) at 0x200 or,
// for a frame with more than 16 result words, right behind them
const (
	c02Scratch = 0x200
)

// c02GadgetWords is the number of result words a gadget occupies.
func c02GadgetWords(g c02Gadget) uint64 {
	switch g.Op {
	case "sload", "create", "create2", "balance", "extcodesize", "extcodehash", "selfbalance":
		return 1
	case "call":
		if g.Out > 1 {
			return 1 + g.Out
		}
		return 2
	}
	return 0
}

func c02FrameWords(f *c02Frame) (n uint64) {
	for _, g := range f.G {
		n += c02GadgetWords(g)
	}
	return n
}

func c02InitCode(kind string) []byte {
	switch kind {
	case "empty":
		return nil
	case "rt1":
		return asm.InitCode([]byte{asm.STOP})
	case "revert":
		return asm.New().Revert().Bytes()
	case "sd":
		return asm.New().SelfDestruct(c02X).Bytes()
	case "sstore-rt":
		return asm.InitCodeWith(asm.New().Sstore(0, 1).Bytes(), []byte{asm.STOP})
	}
	panic("init kind " + kind)
}

var c02InitKinds = []string{"empty", "rt1", "revert", "sd", "sstore-rt"}

// c02Compiler assigns child addresses in pre-order and collects the compiled child contracts.
type c02Compiler struct {
	next     int
	Children []c02UAcct
	Inits    [][]byte // init code of every CREATE / CREATE2 that deploys a child frame
}

func (cc *c02Compiler) target(c *asm.Code, g c02Gadget, childAddr common.Address) {
	switch g.Tgt {
	case "child", "again":
		c.PushAddr(childAddr)
	case "kid":
		c.PushAddr(c02Kid)
	case "self":
		c.Op(asm.ADDRESS)
	case "eoa":
		c.PushAddr(c02X)
	case "zero":
		c.PushU(0)
	case "never":
		c.PushAddr(c02Never)
	case "ecrec":
		c.PushU(1)
	case "caller":
		c.Op(asm.CALLER)
	default:
		switch {
		case strings.HasPrefix(g.Tgt, "#"):
			i, err := strconv.Atoi(g.Tgt[1:])
			if err != nil || i < 0 {
				panic("target " + g.Tgt)
			}
			c.PushAddr(c02ChildAddr(i))
		case strings.HasPrefix(g.Tgt, "@"):
			n, err := strconv.ParseUint(g.Tgt[1:], 10, 32)
			if err != nil {
				panic("target " + g.Tgt)
			}
			c.PushU(32 * n).Op(asm.MLOAD)
		case strings.HasPrefix(g.Tgt, "0x") && common.IsHexAddress(g.Tgt):
			c.PushAddr(common.HexToAddress(g.Tgt))
		default:
			panic("target " + g.Tgt)
		}
	}
}

// emit appends the code of frame f to c (c may already hold code: jump targets are absolute positions in c).
func (cc *c02Compiler) emit(c *asm.Code, f *c02Frame) {
	// recursion guard: a frame entered with 2 or more bytes of call data stops at once. Calls to a child frame pass the
	// caller's CALLDATASIZE on, calls to "self" pass CALLDATASIZE+1, calls to "caller" CALLDATASIZE+2, top-level messages carry no data - so a frame body
	// is re-entered at most twice along any call chain and every program terminates after a bounded number of frames.
	c.Op(asm.CALLDATASIZE).PushU(2).Op(asm.GT) // 2 > size
	pos := len(c.B)
	dest := pos + 3 + 1 + 1
	c.Op(0x61, byte(dest>>8), byte(dest)).Op(asm.JUMPI).Op(asm.STOP).Op(asm.JUMPDEST)

	scratch := uint64(c02Scratch)
	if n := 32 * c02FrameWords(f); n > scratch {
		scratch = n
	}
	word := uint64(0)            // next free result word
	var lastChild common.Address // target "again": the child frame contract most recently called by this frame
	store := func() { c.PushU(32 * word).Op(asm.MSTORE); word++ }
	for _, g := range f.G {
		switch g.Op {
		case "sstore":
			c.Sstore(g.K, g.V)
		case "sload":
			c.PushU(g.K).Op(asm.SLOAD)
			store()
		case "log0":
			c.PushU(0).PushU(scratch).Op(asm.LOG0)
		case "log1":
			c.PushU(0xab).PushU(scratch).Op(asm.MSTORE8)
			c.PushU(7).PushU(1).PushU(scratch).Op(asm.LOG1)
		case "logbal": // LOG1(topic 8, data = SELFBALANCE): the frame's own balance becomes part of the receipt even when the frame ends in SELFDESTRUCT
			c.Op(asm.SELFBALANCE).PushU(scratch).Op(asm.MSTORE)
			c.PushU(8).PushU(32).PushU(scratch).Op(asm.LOG1)
		case "call":
			var childAddr common.Address
			if g.Tgt == "child" {
				if g.Child == nil {
					panic("call to child without a child frame")
				}
				childAddr = c02ChildAddr(cc.next)
				cc.next++
				idx := len(cc.Children)
				cc.Children = append(cc.Children, c02UAcct{Addr: childAddr})
				sub := asm.New()
				cc.emit(sub, g.Child)
				cc.Children[idx].c02Acct = c02Acct{Exists: true, Nonce: 1, Balance: new(big.Int), Code: sub.Bytes(), Storage: map[common.Hash]common.Hash{}}
				lastChild = childAddr
			}
			if g.Tgt == "again" {
				if lastChild == (common.Address{}) {
					panic("target again without an earlier child call in the frame")
				}
				childAddr = lastChild
			}
			flagWord, outWord := word, word+1
			nOut := uint64(1)
			if g.Out > 1 {
				nOut = g.Out
			}
			c.PushU(32 * nOut).PushU(32 * outWord) // outLen, outOff
			c.Op(asm.CALLDATASIZE)                 // inLen
			if g.Tgt == "self" {
				c.PushU(1).Op(asm.ADD)
			}
			if g.Tgt == "caller" {
				c.PushU(2).Op(asm.ADD) // the calling frame is not re-entered: it stops at once (a plain receive)
			}
			c.PushU(0) // inOff
			var op byte
			switch g.Kind {
			case "call", "callcode":
				op = asm.CALL
				if g.Kind == "callcode" {
					op = asm.CALLCODE
				}
				if g.ValBal {
					c.Op(asm.SELFBALANCE)
				} else {
					c.PushU(g.Val)
				}
			case "delegatecall":
				op = asm.DELEGATECALL
			case "staticcall":
				op = asm.STATICCALL
			default:
				panic("call kind " + g.Kind)
			}
			cc.target(c, g, childAddr)
			switch g.Gas {
			case "all":
				c.Op(asm.GAS)
			case "2300":
				c.PushU(2300)
			case "0":
				c.PushU(0)
			default:
				panic("gas " + g.Gas)
			}
			c.Op(op)
			c.PushU(32 * flagWord).Op(asm.MSTORE)
			word += 1 + nOut
		case "create", "create2":
			var init []byte
			if g.Init == "" && g.Child != nil {
				sub := asm.New()
				cc.emit(sub, g.Child)
				init = asm.InitCode(sub.Bytes())
				cc.Inits = append(cc.Inits, init)
			} else {
				init = c02InitCode(g.Init)
			}
			if len(init) > 0 {
				c.MstoreBytes(scratch, init)
			}
			if g.Op == "create2" {
				c.PushU(0) // salt
			}
			c.PushU(uint64(len(init))).PushU(scratch).PushU(g.Val)
			if g.Op == "create2" {
				c.Op(asm.CREATE2)
			} else {
				c.Op(asm.CREATE)
			}
			store()
		case "selfdestruct":
			cc.target(c, g, common.Address{})
			c.Op(asm.SELFDESTRUCT)
		case "revert":
			c.PushU(32 * word).PushU(0).Op(asm.REVERT)
		case "return":
			c.PushU(32 * word).PushU(0).Op(asm.RETURN)
		case "invalid":
			c.Op(asm.INVALID)
		case "balance", "extcodesize", "extcodehash":
			if g.Tgt == "again" && lastChild == (common.Address{}) {
				panic("target again without an earlier child call in the frame")
			}
			cc.target(c, g, lastChild)
			c.Op(map[string]byte{"balance": asm.BALANCE, "extcodesize": asm.EXTCODESIZE, "extcodehash": asm.EXTCODEHASH}[g.Op])
			store()
		case "selfbalance":
			c.Op(asm.SELFBALANCE)
			store()
		case "burn":
			c.BurnGas(300)
		default:
			panic("gadget " + g.Op)
		}
	}
	c.PushU(32 * word).PushU(0).Op(asm.RETURN)
}

// c02Compile compiles one frame tree; children are returned as universe accounts (nonce 1, balance 0).
func c02Compile(f *c02Frame) (root []byte, children []c02UAcct) {
	root, cc := c02CompileCC(f, nil)
	return root, cc.Children
}

// c02CompileCC compiles p (and, when q is set, the two-message dispatcher) and returns the compiler with everything it collected.
func c02CompileCC(p, q *c02Frame) (root []byte, cc *c02Compiler) {
	cc = &c02Compiler{}
	if q == nil {
		c := asm.New()
		cc.emit(c, p)
		return c.Bytes(), cc
	}
	pc := asm.NewProg()
	pc.Op(asm.ORIGIN).PushAddr(c02S2).Op(asm.EQ)
	pc.JumpIf("q")
	cc.emit(&pc.Code, p)
	pc.Label("q")
	cc.emit(&pc.Code, q)
	return pc.Assemble(), cc
}

// c02CompileTwo compiles the dispatcher used by two-message cases: ORIGIN == S2 runs q, everything else runs p.
func c02CompileTwo(p, q *c02Frame) (root []byte, children []c02UAcct) {
	root, cc := c02CompileCC(p, q)
	return root, cc.Children
}

// c02CreateCandidates lists every address a CREATE / CREATE2 of the grammar can produce when executed in one of the
// given contexts (creator nonces 0..maxNonce; salt 0 and every init variant).
func c02CreateCandidates(creators []common.Address, maxNonce uint64) []common.Address {
	var out []common.Address
	for _, a := range creators {
		for n := uint64(0); n <= maxNonce; n++ {
			out = append(out, ethcrypto.CreateAddress(a, n))
		}
		for _, k := range c02InitKinds {
			out = append(out, ethcrypto.CreateAddress2(a, [32]byte{}, ethcrypto.Keccak256(c02InitCode(k))))
		}
	}
	return out
}

// ---------------------------------------------------------------------------
// alphabets (ordered simplest first)
// ---------------------------------------------------------------------------

var c02FlatTargets = []string{"kid", "self", "eoa", "zero", "never", "ecrec"}

func c02CallGadgets(targets, gases []string) []c02Gadget {
	var out []c02Gadget
	for _, kind := range []string{"call", "staticcall", "delegatecall", "callcode"} {
		vals := []uint64{0}
		if kind == "call" || kind == "callcode" {
			vals = []uint64{0, 1}
		}
		for _, t := range targets {
			for _, v := range vals {
				for _, gs := range gases {
					out = append(out, c02Gadget{Op: "call", Kind: kind, Tgt: t, Val: v, Gas: gs})
				}
			}
		}
	}
	return out
}

// c02FullAlphabet is Σ_g over the flat target set (no child frames).
func c02FullAlphabet(thorough bool) []c02Gadget {
	var out []c02Gadget
	for _, k := range []uint64{0, 1} {
		for _, v := range []uint64{0, 1, 2} {
			out = append(out, c02Gadget{Op: "sstore", K: k, V: v})
		}
	}
	out = append(out, c02Gadget{Op: "sload", K: 0}, c02Gadget{Op: "sload", K: 1}, c02Gadget{Op: "log0"}, c02Gadget{Op: "log1"})
	for _, t := range c02FlatTargets {
		for _, op := range []string{"balance", "extcodesize", "extcodehash"} {
			out = append(out, c02Gadget{Op: op, Tgt: t})
		}
	}
	out = append(out, c02CallGadgets(c02FlatTargets, []string{"all", "2300", "0"})...)
	inits := []string{"empty", "rt1", "revert", "sd"}
	if thorough {
		inits = c02InitKinds
	}
	for _, op := range []string{"create", "create2"} {
		for _, in := range inits {
			out = append(out, c02Gadget{Op: op, Init: in})
		}
		if thorough {
			out = append(out, c02Gadget{Op: op, Init: "rt1", Val: 1}, c02Gadget{Op: op, Init: "sd", Val: 1})
		}
	}
	out = append(out, c02Gadget{Op: "burn"})
	for _, t := range []string{"eoa", "self", "never"} {
		out = append(out, c02Gadget{Op: "selfdestruct", Tgt: t})
	}
	out = append(out, c02Gadget{Op: "revert"}, c02Gadget{Op: "invalid"}, c02Gadget{Op: "return"})
	return out
}

// c02SmallAlphabet is the reduced alphabet used inside child frames and as the pre/post gadgets around a child call.
func c02SmallAlphabet() []c02Gadget {
	return []c02Gadget{
		{Op: "sstore", K: 0, V: 0}, {Op: "sstore", K: 0, V: 1}, {Op: "sstore", K: 0, V: 2}, {Op: "sstore", K: 1, V: 1},
		{Op: "sload", K: 0}, {Op: "log1"},
		{Op: "balance", Tgt: "zero"}, {Op: "balance", Tgt: "self"}, {Op: "extcodehash", Tgt: "never"}, {Op: "extcodehash", Tgt: "eoa"},
		{Op: "call", Kind: "call", Tgt: "kid", Gas: "all"},
		{Op: "call", Kind: "call", Tgt: "eoa", Val: 1, Gas: "all"},
		{Op: "call", Kind: "call", Tgt: "zero", Gas: "all"},
		{Op: "call", Kind: "call", Tgt: "never", Val: 1, Gas: "0"},
		{Op: "call", Kind: "call", Tgt: "self", Gas: "all"},
		{Op: "call", Kind: "staticcall", Tgt: "kid", Gas: "all"},
		{Op: "call", Kind: "delegatecall", Tgt: "kid", Gas: "all"},
		{Op: "create", Init: "rt1"}, {Op: "create2", Init: "rt1"}, {Op: "create2", Init: "sd"},
		{Op: "burn"},
		{Op: "selfdestruct", Tgt: "eoa"}, {Op: "selfdestruct", Tgt: "self"},
		{Op: "revert"}, {Op: "invalid"}, {Op: "return"},
	}
}

// c02Frames enumerates every frame of 1..maxLen gadgets over alpha (shorter frames first); terminators only in the
// last position.
func c02Frames(alpha []c02Gadget, maxLen int) []*c02Frame {
	var out []*c02Frame
	for l := 1; l <= maxLen; l++ {
		var gen func(prefix []c02Gadget)
		gen = func(prefix []c02Gadget) {
			if len(prefix) == l-1 {
				for _, g := range alpha {
					out = append(out, &c02Frame{G: append(append([]c02Gadget{}, prefix...), g)})
				}
				return
			}
			for _, g := range alpha {
				if g.terminator() {
					continue
				}
				gen(append(append([]c02Gadget{}, prefix...), g))
			}
		}
		gen(nil)
	}
	return out
}
