package checks

// C11 — staking precompile acts only for its caller and mirrors native staking.
// Twin-branch explicit-state BFS: from every state two children are produced from the SAME parent context,
// P (operation through evm.Call on the precompile) and N (the corresponding native messages through the SDK
// message servers); P and N are compared, the search continues from P.
//
// This file: world, operation alphabet, ABI / EIP-712 encoding, execution of P and N.

import (
	"crypto/ecdsa"
	"fmt"
	"math/big"
	"sort"
	"strings"
	"time"

	sdkmath "cosmossdk.io/math"
	abci "github.com/cometbft/cometbft/abci/types"
	cmtproto "github.com/cometbft/cometbft/proto/tendermint/types"
	sdk "github.com/cosmos/cosmos-sdk/types"
	authtypes "github.com/cosmos/cosmos-sdk/x/auth/types"
	distr "github.com/cosmos/cosmos-sdk/x/distribution"
	distrkeeper "github.com/cosmos/cosmos-sdk/x/distribution/keeper"
	distrtypes "github.com/cosmos/cosmos-sdk/x/distribution/types"
	stakingkeeper "github.com/cosmos/cosmos-sdk/x/staking/keeper"
	stakingtypes "github.com/cosmos/cosmos-sdk/x/staking/types"
	gethabi "github.com/ethereum/go-ethereum/accounts/abi"
	"github.com/ethereum/go-ethereum/common"
	cmath "github.com/ethereum/go-ethereum/common/math"
	ethcrypto "github.com/ethereum/go-ethereum/crypto"
	"github.com/ethereum/go-ethereum/signer/core/apitypes"

	cpcabi "github.com/EscanBE/evermint/v12/x/cpc/abi"
	cpctypes "github.com/EscanBE/evermint/v12/x/cpc/types"

	"verif/harness/asm"
	"verif/harness/world"
)

var (
	c11C      = common.HexToAddress("0x00000000000000000000000000000000c11c0c0c") // forwarder contract
	c11D      = common.HexToAddress("0x00000000000000000000000000000000c11d0d0d") // contract calling the precompile twice per call
	c11U      = common.HexToAddress("0x00000000000000000000000000000000c11d0001") // account that never existed
	c11VX     = common.HexToAddress("0x00000000000000000000000000000000c11e0001") // not a validator
	c11E18    = new(big.Int).Exp(big.NewInt(10), big.NewInt(18), nil)
	c11Reward = new(big.Int).Mul(big.NewInt(3), c11E18) // one reward allocation
)

const c11Gas = 5_000_000

// c11Op is one letter of the alphabet. Everything is symbolic so that a path is self-contained JSON.
type c11Op struct {
	M      string `json:"m"`                // delegate undelegate redelegate withdrawReward withdrawRewards transfer delegateByActionMessage withdrawRewardsByMessage | env-reward env-fees env-block env-time native
	Caller string `json:"caller,omitempty"` // A | B | C-call | C-deleg
	V      string `json:"v,omitempty"`      // validator (source validator for redelegate; "all" for withdrawRewardsByMessage)
	W      string `json:"w,omitempty"`      // destination validator (redelegate)
	Amt    string `json:"amt,omitempty"`    // 0 | 1 | 1e18 | <n>e<k> | max | max+1; env-reward: "" (3e18) | odd | odd2; env-fees: a | b | u
	To     string `json:"to,omitempty"`     // transfer receiver: self | other
	Act    string `json:"act,omitempty"`    // Delegate | Undelegate | Redelegate (signed variant; native env step)
	Sig    string `json:"sig,omitempty"`    // valid | wrong-signer | other-delegator | other-delegator-caller-signs | chain+1 | tampered | relay | unsigned-self
}

func (o c11Op) String() string {
	var p []string
	for _, s := range []string{o.Act, o.V, o.W, o.Amt, o.To, o.Sig} {
		if s != "" {
			p = append(p, s)
		}
	}
	s := o.M + "(" + strings.Join(p, ",") + ")"
	if o.Caller != "" {
		s += "@" + o.Caller
	}
	return s
}

func (o c11Op) isEnv() bool { return strings.HasPrefix(o.M, "env-") || o.M == "native" }

type c11World struct {
	w         *world.World
	root      sdk.Context
	slashed   bool
	A, B      *world.Acct
	funder    *world.Acct
	stk       common.Address
	abi       gethabi.ABI
	threshold sdkmath.Int
	unbonding time.Duration
	tracked   []common.Address
	names     map[common.Address]string
	viewCache map[[32]byte][]string
	viewsRun  int
	shapes    map[string]int // shape of the native DelegationTotalRewards answer per (state, account) the views were compared in
	sMsg      stakingtypes.MsgServer
	dMsg      distrtypes.MsgServer
	sQ        stakingkeeper.Querier
	dQ        distrkeeper.Querier
}

// c11TwiceCode: forwards its whole call data to the staking precompile by CALL two times in a row; reverts (passing the
// revert data on) when either call fails. Two precompile calls inside one transaction.
func c11TwiceCode(stk common.Address) []byte {
	p := asm.NewProg()
	p.Op(asm.CALLDATASIZE).PushU(0).PushU(0).Op(asm.CALLDATACOPY)
	for i := 0; i < 2; i++ {
		p.PushU(0).PushU(0).Op(asm.CALLDATASIZE).PushU(0).PushU(0).PushAddr(stk).Op(asm.GAS, asm.CALL)
		p.Op(asm.ISZERO)
		p.JumpIf("fail")
	}
	p.PushU(0).PushU(0).Op(asm.RETURN)
	p.Label("fail")
	p.Op(asm.RETURNDATASIZE).PushU(0).PushU(0).Op(asm.RETURNDATACOPY)
	p.Op(asm.RETURNDATASIZE).PushU(0).Op(asm.REVERT)
	return p.Assemble()
}

func c11Coins(n *big.Int) sdk.Coins {
	return sdk.NewCoins(sdk.NewCoin(world.Denom, sdkmath.NewIntFromBigInt(n)))
}

// c11Setup builds the world. Root state: 3 bonded validators (1e18 self stake each, commission 0); with slashed=true V2 was
// slashed by 50 % before the exploration starts (1 share = 0.5 token, so that shares and tokens are different numbers);
// EOAs A (3e18) and B (2e18) with sequence 1 and known keys, forwarder contract C (3e18); A has delegated 1e18 to V1 and C
// 1e18 to V2, D 1e18 to V1, A one wei to V2; one block later 3e18 of rewards were allocated to V1 and to V2.
func c11Setup(slashed bool) *c11World {
	cw := &c11World{slashed: slashed, A: world.NewAcct("c11-A"), B: world.NewAcct("c11-B"), viewCache: map[[32]byte][]string{}, shapes: map[string]int{}}
	mul := func(n int64) *big.Int { return new(big.Int).Mul(big.NewInt(n), c11E18) }
	w := world.New(world.Config{
		NumValidators: 3, NumWallets: 1, DeployStaking: true,
		WalletBalance: mul(1_000_000),
		ExtraDenoms:   []string{"utwo"},
		Extra: []world.ExtraAccount{
			{Account: authtypes.NewBaseAccount(cw.A.Acc(), cw.A.Priv.PubKey(), 0, 1), Coins: c11Coins(mul(3))},
			{Account: authtypes.NewBaseAccount(cw.B.Acc(), cw.B.Priv.PubKey(), 0, 1), Coins: c11Coins(mul(2))},
		},
		Contracts: []world.Contract{
			{Addr: c11C, Code: asm.Forwarder(false), Coins: c11Coins(mul(3))},
			{Addr: c11D, Code: c11TwiceCode(cpctypes.CpcStakingFixedAddress), Coins: c11Coins(mul(4))},
		},
	})
	w.Block(nil)
	cw.w, cw.funder, cw.stk = w, w.Wallets[0], cpctypes.CpcStakingFixedAddress
	cw.abi = cpcabi.StakingCpcInfo.ABI
	cw.threshold = sdkmath.NewIntFromBigInt(new(big.Int).Exp(big.NewInt(10), big.NewInt(15), nil)) // 0.001 coin of 18 decimals
	cw.sMsg = stakingkeeper.NewMsgServerImpl(w.App.StakingKeeper)
	cw.dMsg = distrkeeper.NewMsgServerImpl(w.App.DistrKeeper)
	cw.sQ = stakingkeeper.NewQuerier(w.App.StakingKeeper)
	cw.dQ = distrkeeper.NewQuerier(w.App.DistrKeeper)
	root := w.Ctx()
	must := func(err error) {
		if err != nil {
			panic(err)
		}
	}
	ub, err := w.App.StakingKeeper.UnbondingTime(root)
	must(err)
	cw.unbonding = ub
	if slashed {
		_, err := w.App.StakingKeeper.Slash(root, w.Validators[1].Cons(), root.BlockHeight(), 1, sdkmath.LegacyNewDecWithPrec(5, 1))
		must(err)
	}
	_, err = cw.sMsg.Delegate(root, stakingtypes.NewMsgDelegate(cw.A.Bech(), w.Validators[0].Val().String(), sdk.NewCoin(world.Denom, sdkmath.NewIntFromBigInt(c11E18))))
	must(err)
	_, err = cw.sMsg.Delegate(root, stakingtypes.NewMsgDelegate(sdk.AccAddress(c11C.Bytes()).String(), w.Validators[1].Val().String(), sdk.NewCoin(world.Denom, sdkmath.NewIntFromBigInt(c11E18))))
	must(err)
	// one wei of A on V2: its reward stays far below the precompile's 0.001-coin "withdraw all" threshold
	_, err = cw.sMsg.Delegate(root, stakingtypes.NewMsgDelegate(cw.A.Bech(), w.Validators[1].Val().String(), sdk.NewCoin(world.Denom, sdkmath.NewInt(1))))
	must(err)
	_, err = cw.sMsg.Delegate(root, stakingtypes.NewMsgDelegate(sdk.AccAddress(c11D.Bytes()).String(), w.Validators[0].Val().String(), sdk.NewCoin(world.Denom, sdkmath.NewIntFromBigInt(c11E18))))
	must(err)
	// delegations earn from the height after the one they were made at: move the root to the next block
	_, err = w.App.StakingKeeper.EndBlocker(root)
	must(err)
	root = root.WithBlockHeight(root.BlockHeight() + 1).WithBlockTime(root.BlockTime().Add(time.Hour))
	cw.root = root
	must(cw.allocate(root, 0, ""))
	must(cw.allocate(root, 1, ""))
	// the root must not carry the set-up events
	cw.root = root.WithEventManager(sdk.NewEventManager())
	cw.names = map[common.Address]string{cw.A.Eth(): "A", cw.B.Eth(): "B", c11C: "C", c11D: "D", c11U: "U", cw.funder.Eth(): "funder"}
	cw.tracked = []common.Address{cw.A.Eth(), cw.B.Eth(), c11C, c11D, c11U, cw.funder.Eth()}
	for i, v := range w.Validators {
		cw.names[v.Eth()] = fmt.Sprintf("V%d", i+1)
		cw.tracked = append(cw.tracked, v.Eth())
	}
	cw.names[c11VX] = "VX"
	return cw
}

// c11RewardCoins is the amount of one direct reward allocation: "" = 3e18 of the bond denom (the round amount of the
// original alphabet), "odd"/"odd2" = amounts that are no multiple of anything in sight, in two denoms.
func c11RewardCoins(kind string) sdk.Coins {
	n := func(s string) sdkmath.Int {
		v, ok := sdkmath.NewIntFromString(s)
		if !ok {
			panic(s)
		}
		return v
	}
	switch kind {
	case "":
		return c11Coins(c11Reward)
	case "odd":
		return sdk.NewCoins(sdk.NewCoin(world.Denom, n("2718281828459045235")), sdk.NewCoin("utwo", n("1000003")))
	case "odd2":
		return sdk.NewCoins(sdk.NewCoin(world.Denom, n("1414213562373095049")), sdk.NewCoin("utwo", n("777777777")))
	}
	panic("reward kind " + kind)
}

// c11FeeCoins is what the fee collector holds when a block begins: a = both denoms, b = both denoms (other amounts),
// u = only the denom that is not the bond denom.
func c11FeeCoins(kind string) sdk.Coins {
	n := func(s string) sdkmath.Int {
		v, ok := sdkmath.NewIntFromString(s)
		if !ok {
			panic(s)
		}
		return v
	}
	switch kind {
	case "a":
		return sdk.NewCoins(sdk.NewCoin(world.Denom, n("9000000000000000011")), sdk.NewCoin("utwo", n("123456789")))
	case "b":
		return sdk.NewCoins(sdk.NewCoin(world.Denom, n("5141592653589793238")), sdk.NewCoin("utwo", n("31")))
	case "u":
		return sdk.NewCoins(sdk.NewCoin("utwo", n("999999937")))
	}
	panic("fee kind " + kind)
}

// allocate is the environment step "the chain distributes an amount (3e18 by default) to validator i".
func (cw *c11World) allocate(ctx sdk.Context, i int, kind string) error {
	app := cw.w.App
	coins := c11RewardCoins(kind)
	if err := app.BankKeeper.SendCoinsFromAccountToModule(ctx, cw.funder.Acc(), distrtypes.ModuleName, coins); err != nil {
		return err
	}
	val, err := app.StakingKeeper.Validator(ctx, cw.w.Validators[i].Val())
	if err != nil {
		return err
	}
	return app.DistrKeeper.AllocateTokensToValidator(ctx, val, sdk.NewDecCoinsFromCoins(coins...))
}

// fees is the environment step "a block ends and the next one begins with fees in the fee collector": staking
// EndBlocker, next height (+1 h), then the real x/distribution BeginBlocker with the votes of every validator of the
// last validator set (power as recorded by the staking module) — community tax, power fractions, truncations and all;
// the validators' shares are fractional DecCoins in every denom the fee collector held.
func (cw *c11World) fees(ctx sdk.Context, kind string) (sdk.Context, error) {
	app := cw.w.App
	ctx, err := cw.nextBlock(ctx)
	if err != nil {
		return ctx, err
	}
	if err := app.BankKeeper.SendCoinsFromAccountToModule(ctx, cw.funder.Acc(), authtypes.FeeCollectorName, c11FeeCoins(kind)); err != nil {
		return ctx, err
	}
	var votes []abci.VoteInfo
	for _, v := range cw.w.Validators {
		p, err := app.StakingKeeper.GetLastValidatorPower(ctx, v.Val())
		if err != nil || p <= 0 {
			continue
		}
		votes = append(votes, abci.VoteInfo{Validator: abci.Validator{Address: v.Cons(), Power: p}, BlockIdFlag: cmtproto.BlockIDFlagCommit})
	}
	if len(votes) == 0 {
		return ctx, fmt.Errorf("no validator has voting power")
	}
	return ctx, distr.BeginBlocker(ctx.WithVoteInfos(votes), app.DistrKeeper)
}

// nextBlock is the environment step "one block passes" (staking EndBlocker, next height, + 1 h): delegations made at the
// current height start earning.
func (cw *c11World) nextBlock(ctx sdk.Context) (sdk.Context, error) {
	ctx = ctx.WithBlockHeight(ctx.BlockHeight() + 1).WithBlockTime(ctx.BlockTime().Add(time.Hour))
	_, err := cw.w.App.StakingKeeper.EndBlocker(ctx)
	return ctx, err
}

// passTime is the environment step "the unbonding period elapses": next height, block time + unbonding time + 1 h, real
// staking EndBlocker (matures unbonding and redelegation entries).
func (cw *c11World) passTime(ctx sdk.Context) (sdk.Context, error) {
	ctx = ctx.WithBlockHeight(ctx.BlockHeight() + 1).WithBlockTime(ctx.BlockTime().Add(cw.unbonding + time.Hour))
	_, err := cw.w.App.StakingKeeper.EndBlocker(ctx)
	return ctx, err
}

func (cw *c11World) name(a common.Address) string {
	if n, ok := cw.names[a]; ok {
		return n
	}
	return a.Hex()
}

// val returns the 20-byte validator address for a symbolic name.
func (cw *c11World) val(n string) common.Address {
	switch n {
	case "V1", "V2", "V3":
		return cw.w.Validators[int(n[1]-'1')].Eth()
	case "VX":
		return c11VX
	}
	panic("validator " + n)
}

func c11ValStr(a common.Address) string { return sdk.ValAddress(a.Bytes()).String() }
func c11AccStr(a common.Address) string { return sdk.AccAddress(a.Bytes()).String() }

// effective returns the immediate caller as the precompile sees it (CALL and DELEGATECALL from C both present C: the
// fork's DelegateCall hands the precompile the calling contract, not the contract's own caller) and the key holder.
func (cw *c11World) effective(caller string) common.Address {
	switch caller {
	case "A":
		return cw.A.Eth()
	case "B":
		return cw.B.Eth()
	case "C-call", "C-deleg":
		return c11C
	case "D-twice":
		return c11D
	}
	panic("caller " + caller)
}

func (cw *c11World) other(e common.Address) *world.Acct {
	if e == cw.A.Eth() {
		return cw.B
	}
	return cw.A
}

func (cw *c11World) keyOf(e common.Address) *world.Acct {
	switch e {
	case cw.A.Eth():
		return cw.A
	case cw.B.Eth():
		return cw.B
	}
	return nil
}

// delegated returns the token value of e's delegation to v by the native query (0 when there is none).
func (cw *c11World) delegated(ctx sdk.Context, e, v common.Address) *big.Int {
	c, _ := ctx.CacheContext()
	r, err := cw.sQ.Delegation(c, &stakingtypes.QueryDelegationRequest{DelegatorAddr: c11AccStr(e), ValidatorAddr: c11ValStr(v)})
	if err != nil || r.DelegationResponse == nil {
		return new(big.Int)
	}
	return r.DelegationResponse.Balance.Amount.BigInt()
}

// amount resolves the symbolic amount against the parent state: max = everything the operation can move.
func (cw *c11World) amount(parent sdk.Context, op c11Op, e common.Address) *big.Int {
	var max *big.Int
	switch {
	case op.M == "undelegate" || op.M == "redelegate" || op.Act == "Undelegate" || op.Act == "Redelegate":
		max = cw.delegated(parent, e, cw.val(op.V))
	default:
		max = cw.w.Balance(parent, e, world.Denom)
	}
	switch op.Amt {
	case "0":
		return new(big.Int)
	case "1":
		return big.NewInt(1)
	case "1e18":
		return new(big.Int).Set(c11E18)
	case "max":
		return max
	case "max+1":
		return new(big.Int).Add(max, bigOne)
	}
	// <n>e<k>: n·10^k
	if i := strings.IndexByte(op.Amt, 'e'); i > 0 {
		n, ok1 := new(big.Int).SetString(op.Amt[:i], 10)
		k, ok2 := new(big.Int).SetString(op.Amt[i+1:], 10)
		if ok1 && ok2 && k.IsInt64() && k.Int64() <= 30 {
			return n.Mul(n, new(big.Int).Exp(big.NewInt(10), k, nil))
		}
	}
	panic("amount " + op.Amt)
}

// --- EIP-712 (built here from the go-ethereum typed-data library, not from the repository's helper) ---

func c11Domain(stk common.Address, chainID *big.Int) (apitypes.TypedDataDomain, []apitypes.Type) {
	return apitypes.TypedDataDomain{
			Name: "EVERMINT", Version: "1.0.0", ChainId: (*cmath.HexOrDecimal256)(chainID),
			VerifyingContract: stk.Hex(), Salt: fmt.Sprintf("0x%x", stk.Bytes()[19]),
		}, []apitypes.Type{
			{Name: "name", Type: "string"}, {Name: "version", Type: "string"}, {Name: "chainId", Type: "uint256"},
			{Name: "verifyingContract", Type: "address"}, {Name: "salt", Type: "string"},
		}
}

func c11Hash(td apitypes.TypedData) []byte {
	mh, err := td.HashStruct(td.PrimaryType, td.Message)
	if err != nil {
		panic(err)
	}
	dh, err := td.HashStruct("EIP712Domain", td.Domain.Map())
	if err != nil {
		panic(err)
	}
	return ethcrypto.Keccak256(append(append([]byte{0x19, 0x01}, dh...), mh...))
}

type c11StakingMsg struct {
	Action       string
	Delegator    common.Address
	Validator    string
	Amount       *big.Int
	Denom        string
	OldValidator string
}

type c11WithdrawMsg struct {
	Delegator     common.Address
	FromValidator string
}

func (cw *c11World) sign(key *world.Acct, hash []byte) (r, s [32]byte, v uint8) {
	var k *ecdsa.PrivateKey
	k, err := ethcrypto.ToECDSA(key.Priv.Key)
	if err != nil {
		panic(err)
	}
	sig, err := ethcrypto.Sign(hash, k)
	if err != nil {
		panic(err)
	}
	copy(r[:], sig[:32])
	copy(s[:], sig[32:64])
	return r, s, sig[64] + 27
}

func (cw *c11World) hashStaking(m c11StakingMsg, chainID *big.Int) []byte {
	d, dt := c11Domain(cw.stk, chainID)
	return c11Hash(apitypes.TypedData{
		Types: apitypes.Types{"EIP712Domain": dt, "StakingMessage": {
			{Name: "action", Type: "string"}, {Name: "delegator", Type: "address"}, {Name: "validator", Type: "string"},
			{Name: "amount", Type: "uint256"}, {Name: "denom", Type: "string"}, {Name: "oldValidator", Type: "string"}}},
		PrimaryType: "StakingMessage", Domain: d,
		Message: apitypes.TypedDataMessage{"action": m.Action, "delegator": m.Delegator.Hex(), "validator": m.Validator,
			"amount": (*cmath.HexOrDecimal256)(m.Amount), "denom": m.Denom, "oldValidator": m.OldValidator},
	})
}

func (cw *c11World) hashWithdraw(m c11WithdrawMsg, chainID *big.Int) []byte {
	d, dt := c11Domain(cw.stk, chainID)
	return c11Hash(apitypes.TypedData{
		Types: apitypes.Types{"EIP712Domain": dt, "WithdrawRewardMessage": {
			{Name: "delegator", Type: "address"}, {Name: "fromValidator", Type: "string"}}},
		PrimaryType: "WithdrawRewardMessage", Domain: d,
		Message: apitypes.TypedDataMessage{"delegator": m.Delegator.Hex(), "fromValidator": m.FromValidator},
	})
}

func (cw *c11World) pack(method string, args ...interface{}) []byte {
	bz, err := cw.abi.Pack(method, args...)
	if err != nil {
		panic(fmt.Sprintf("pack %s: %v", method, err))
	}
	return bz
}

// signedParts decides, for a signature variant, who the message names as delegator, who signs, on which chain id, and
// whether the submitted message differs from the signed one.
func (cw *c11World) signedParts(op c11Op, e common.Address) (delegator common.Address, signer *world.Acct, chain *big.Int, tamper bool) {
	chain = big.NewInt(world.EvmChainID)
	switch op.Sig {
	case "valid":
		return e, cw.keyOf(e), chain, false
	case "wrong-signer":
		return e, cw.other(e), chain, false
	case "other-delegator":
		o := cw.other(e)
		return o.Eth(), o, chain, false
	case "other-delegator-caller-signs": // the message names somebody else's stake, the caller signs it with its own key
		return cw.other(e).Eth(), cw.keyOf(e), chain, false
	case "chain+1":
		return e, cw.keyOf(e), new(big.Int).Add(chain, bigOne), false
	case "tampered":
		return e, cw.keyOf(e), chain, true
	case "relay": // contract C submits A's correctly signed message
		return cw.A.Eth(), cw.A, chain, false
	case "unsigned-self": // contract C names itself, A signs
		return c11C, cw.A, chain, false
	}
	panic("sig " + op.Sig)
}

// calldata builds the precompile input of a state-changing operation.
func (cw *c11World) calldata(parent sdk.Context, op c11Op, e common.Address) []byte {
	switch op.M {
	case "delegate":
		return cw.pack("delegate", cw.val(op.V), cw.amount(parent, op, e))
	case "undelegate":
		return cw.pack("undelegate", cw.val(op.V), cw.amount(parent, op, e))
	case "redelegate":
		return cw.pack("redelegate", cw.val(op.V), cw.val(op.W), cw.amount(parent, op, e))
	case "withdrawReward":
		return cw.pack("withdrawReward", cw.val(op.V))
	case "withdrawRewards":
		return cw.pack("withdrawRewards")
	case "transfer":
		to := e
		if op.To == "other" {
			to = cw.other(e).Eth()
		}
		return cw.pack("transfer", to, cw.amount(parent, op, e))
	case "delegateByActionMessage":
		del, signer, chain, tamper := cw.signedParts(op, e)
		m := c11StakingMsg{Action: op.Act, Delegator: del, Validator: c11ValStr(cw.val(op.V)), Amount: cw.amount(parent, op, e), Denom: world.Denom, OldValidator: "-"}
		if op.Act == "Redelegate" {
			m.Validator, m.OldValidator = c11ValStr(cw.val(op.W)), c11ValStr(cw.val(op.V))
		}
		r, s, v := cw.sign(signer, cw.hashStaking(m, chain))
		if tamper {
			m.Amount = new(big.Int).Add(m.Amount, bigOne)
		}
		return cw.pack("delegateByActionMessage", m, r, s, v)
	case "withdrawRewardsByMessage":
		del, signer, chain, tamper := cw.signedParts(op, e)
		from := "all"
		if op.V != "all" {
			from = c11ValStr(cw.val(op.V))
		}
		m := c11WithdrawMsg{Delegator: del, FromValidator: from}
		r, s, v := cw.sign(signer, cw.hashWithdraw(m, chain))
		if tamper {
			if from == "all" {
				m.FromValidator = c11ValStr(cw.val("V1"))
			} else {
				m.FromValidator = "all"
			}
		}
		return cw.pack("withdrawRewardsByMessage", m, r, s, v)
	}
	panic("method " + op.M)
}

// --- native twins ---

func c11Coin(a *big.Int) sdk.Coin {
	return sdk.Coin{Denom: world.Denom, Amount: sdkmath.NewIntFromBigInt(a)}
}

// withdrawable lists, by the native distribution query on the parent state, the validators whose pending reward of e
// reaches the precompile's 0.001-coin threshold (guard from the DESIGN: below it "withdraw all" is only required to leave
// the state unchanged). skipped counts delegations with a non-zero reward below the threshold.
func (cw *c11World) withdrawable(parent sdk.Context, e common.Address) (vals []string, skipped int) {
	c, _ := parent.CacheContext()
	r, err := cw.dQ.DelegationTotalRewards(c, &distrtypes.QueryDelegationTotalRewardsRequest{DelegatorAddress: c11AccStr(e)})
	if err != nil {
		return nil, 0
	}
	for _, x := range r.Rewards {
		a := x.Reward.AmountOf(world.Denom).TruncateInt()
		if a.GTE(cw.threshold) {
			vals = append(vals, x.ValidatorAddress)
		} else if !x.Reward.IsZero() {
			skipped++
		}
	}
	return vals, skipped
}

// transferTarget re-states the documented selection rule of transfer(self): no delegation to a bonded validator → the
// middle one of all bonded validators by (tokens, operator); one → that one; several → the one with the fewest tokens.
func (cw *c11World) transferTarget(parent sdk.Context, e common.Address) string {
	sk := cw.w.App.StakingKeeper
	dels, _ := sk.GetAllDelegatorDelegations(parent, e.Bytes())
	var mine []stakingtypes.Validator
	for _, d := range dels {
		va, _ := sdk.ValAddressFromBech32(d.ValidatorAddress)
		v, err := sk.GetValidator(parent, va)
		if err == nil && v.IsBonded() {
			mine = append(mine, v)
		}
	}
	less := func(l []stakingtypes.Validator) func(i, j int) bool {
		return func(i, j int) bool {
			if c := l[i].Tokens.BigInt().Cmp(l[j].Tokens.BigInt()); c != 0 {
				return c < 0
			}
			return l[i].OperatorAddress < l[j].OperatorAddress
		}
	}
	switch len(mine) {
	case 0:
		all, _ := sk.GetAllValidators(parent)
		var bonded []stakingtypes.Validator
		for _, v := range all {
			if v.IsBonded() {
				bonded = append(bonded, v)
			}
		}
		sort.Slice(bonded, less(bonded))
		return bonded[len(bonded)/2].OperatorAddress
	case 1:
		return mine[0].OperatorAddress
	}
	sort.Slice(mine, less(mine))
	return mine[0].OperatorAddress
}

// c11Twin is the native counterpart of an operation.
type c11Twin struct {
	Msgs     []sdk.Msg
	MustFail bool // the property demands a failure, there is no native counterpart (forged message, transfer to someone else)
	Why      string
	Skipped  int // sub-threshold rewards left alone by "withdraw all"
}

func (cw *c11World) twin(parent sdk.Context, op c11Op, e common.Address) c11Twin {
	del := c11AccStr(e)
	withdrawAll := func() (t c11Twin) {
		vals, sk := cw.withdrawable(parent, e)
		t.Skipped = sk
		for _, v := range vals {
			t.Msgs = append(t.Msgs, distrtypes.NewMsgWithdrawDelegatorReward(del, v))
		}
		return t
	}
	staking := func(act, v, w string, amt *big.Int) sdk.Msg {
		switch act {
		case "Delegate":
			return &stakingtypes.MsgDelegate{DelegatorAddress: del, ValidatorAddress: c11ValStr(cw.val(v)), Amount: c11Coin(amt)}
		case "Undelegate":
			return &stakingtypes.MsgUndelegate{DelegatorAddress: del, ValidatorAddress: c11ValStr(cw.val(v)), Amount: c11Coin(amt)}
		case "Redelegate":
			return &stakingtypes.MsgBeginRedelegate{DelegatorAddress: del, ValidatorSrcAddress: c11ValStr(cw.val(v)), ValidatorDstAddress: c11ValStr(cw.val(w)), Amount: c11Coin(amt)}
		}
		panic("act " + act)
	}
	switch op.M {
	case "delegate":
		return c11Twin{Msgs: []sdk.Msg{staking("Delegate", op.V, "", cw.amount(parent, op, e))}}
	case "undelegate":
		return c11Twin{Msgs: []sdk.Msg{staking("Undelegate", op.V, "", cw.amount(parent, op, e))}}
	case "redelegate":
		return c11Twin{Msgs: []sdk.Msg{staking("Redelegate", op.V, op.W, cw.amount(parent, op, e))}}
	case "withdrawReward":
		return c11Twin{Msgs: []sdk.Msg{distrtypes.NewMsgWithdrawDelegatorReward(del, c11ValStr(cw.val(op.V)))}}
	case "withdrawRewards":
		return withdrawAll()
	case "transfer":
		if op.To != "self" {
			return c11Twin{MustFail: true, Why: "transfer to another account"}
		}
		t := withdrawAll()
		// ERC-20 precondition of transfer: the bank balance after the (threshold-filtered) withdrawals covers the amount.
		// A native MsgDelegate can still succeed just above it, because delegating to a validator pays out the pending reward
		// of that delegation first — also one below the threshold; the interface's "insufficient balance" is not a native
		// message, so such a call is only required to fail and change nothing.
		if sc, err := cw.runNative(parent, t.Msgs); err == nil && cw.w.Balance(sc, e, world.Denom).Cmp(cw.amount(parent, op, e)) < 0 {
			return c11Twin{MustFail: true, Why: "ERC-20 insufficient balance", Skipped: t.Skipped}
		}
		t.Msgs = append(t.Msgs, &stakingtypes.MsgDelegate{DelegatorAddress: del, ValidatorAddress: cw.transferTarget(parent, e), Amount: c11Coin(cw.amount(parent, op, e))})
		return t
	case "delegateByActionMessage":
		if op.Sig != "valid" {
			return c11Twin{MustFail: true, Why: "forged signed message: " + op.Sig}
		}
		return c11Twin{Msgs: []sdk.Msg{staking(op.Act, op.V, op.W, cw.amount(parent, op, e))}}
	case "withdrawRewardsByMessage":
		if op.Sig != "valid" {
			return c11Twin{MustFail: true, Why: "forged signed message: " + op.Sig}
		}
		if op.V == "all" {
			return withdrawAll()
		}
		return c11Twin{Msgs: []sdk.Msg{distrtypes.NewMsgWithdrawDelegatorReward(del, c11ValStr(cw.val(op.V)))}}
	}
	panic("twin " + op.M)
}

// runNative applies the messages atomically (like one transaction) on a branch of parent.
func (cw *c11World) runNative(parent sdk.Context, msgs []sdk.Msg) (ctx sdk.Context, err error) {
	ctx, _ = parent.CacheContext()
	defer func() {
		if r := recover(); r != nil {
			err = fmt.Errorf("panic: %v", r)
		}
		if err != nil {
			ctx, _ = parent.CacheContext()
		}
	}()
	for _, m := range msgs {
		switch x := m.(type) {
		case *stakingtypes.MsgDelegate:
			_, err = cw.sMsg.Delegate(ctx, x)
		case *stakingtypes.MsgUndelegate:
			_, err = cw.sMsg.Undelegate(ctx, x)
		case *stakingtypes.MsgBeginRedelegate:
			_, err = cw.sMsg.BeginRedelegate(ctx, x)
		case *distrtypes.MsgWithdrawDelegatorReward:
			_, err = cw.dMsg.WithdrawDelegatorReward(ctx, x)
		default:
			panic("msg")
		}
		if err != nil {
			return ctx, err
		}
	}
	return ctx, nil
}

// c11Step is everything observed on one transition.
type c11Step struct {
	Op     c11Op
	E      common.Address // effective caller
	Twin   c11Twin
	P, N   sdk.Context
	Res    CallResult
	POK    bool
	NErr   error
	PEv    sdk.Events
	NEv    sdk.Events
	EnvErr error
}

// exec produces the children of parent for op: P (precompile) and N (native) for operations, one child for env steps.
func (cw *c11World) exec(parent sdk.Context, op c11Op) *c11Step {
	st := &c11Step{Op: op}
	if op.isEnv() {
		ctx, _ := parent.CacheContext()
		switch op.M {
		case "env-reward":
			st.EnvErr = cw.allocate(ctx, int(op.V[1]-'1'), op.Amt)
		case "env-fees":
			ctx, st.EnvErr = cw.fees(ctx, op.Amt)
		case "env-time":
			ctx, st.EnvErr = cw.passTime(ctx)
		case "env-block":
			ctx, st.EnvErr = cw.nextBlock(ctx)
		case "native":
			e := cw.effective(op.Caller)
			var m sdk.Msg
			amt := cw.amount(parent, c11Op{M: strings.ToLower(op.Act), Act: op.Act, V: op.V, Amt: op.Amt}, e)
			switch op.Act {
			case "Delegate":
				m = &stakingtypes.MsgDelegate{DelegatorAddress: c11AccStr(e), ValidatorAddress: c11ValStr(cw.val(op.V)), Amount: c11Coin(amt)}
			case "Undelegate":
				m = &stakingtypes.MsgUndelegate{DelegatorAddress: c11AccStr(e), ValidatorAddress: c11ValStr(cw.val(op.V)), Amount: c11Coin(amt)}
			}
			ctx, st.EnvErr = cw.runNative(parent, []sdk.Msg{m})
		}
		if st.EnvErr != nil {
			ctx, _ = parent.CacheContext()
		}
		st.P = ctx.WithEventManager(sdk.NewEventManager())
		return st
	}
	e := cw.effective(op.Caller)
	st.E = e
	st.Twin = cw.twin(parent, op, e)
	data := cw.calldata(parent, op, e)
	st.P, _ = parent.CacheContext()
	switch op.Caller {
	case "A", "B":
		st.Res = CallEVM(cw.w, st.P, e, cw.stk, data, nil, c11Gas)
	case "C-call":
		st.Res = CallEVM(cw.w, st.P, cw.A.Eth(), c11C, asm.ForwardData(asm.KCall, cw.stk, data), nil, c11Gas)
	case "C-deleg":
		st.Res = CallEVM(cw.w, st.P, cw.A.Eth(), c11C, asm.ForwardData(asm.KDelegateCall, cw.stk, data), nil, c11Gas)
	case "D-twice":
		// the same call data reaches the precompile twice: the native counterpart is the message list twice
		st.Res = CallEVM(cw.w, st.P, cw.A.Eth(), c11D, data, nil, c11Gas)
		st.Twin.Msgs = append(append([]sdk.Msg{}, st.Twin.Msgs...), st.Twin.Msgs...)
	}
	st.POK = st.Res.Err == nil && st.Res.Panic == ""
	st.PEv = st.P.EventManager().Events()
	if st.Twin.MustFail {
		st.N, _ = parent.CacheContext()
		st.NErr = fmt.Errorf("no native counterpart")
		return st
	}
	st.N, st.NErr = cw.runNative(parent, st.Twin.Msgs)
	st.NEv = st.N.EventManager().Events()
	return st
}
