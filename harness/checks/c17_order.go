package checks

import (
	"crypto/sha256"
	"fmt"
	"os"
	"sort"
	"strings"

	sdk "github.com/cosmos/cosmos-sdk/types"

	"verif/harness/ev"
	"verif/harness/world"
)

// Deployer × whitelist dimension of C17 ("order pass").
//
// N candidate accounts (fixed keys) are named D0 … D(N-1) by the rank of their bech32 strings, so that for every
// whitelist that is a proper subset of the candidates there are outsiders whose address string sorts below, between and
// above the whitelisted ones. From a world without any contract at genesis (so that both kinds of deployment are valid)
// and a whitelist at genesis of {}, {median} or {min, max}:
//
//   level 0: every candidate and the governance account attempt DeployErc20Contract and DeployStakingContract;
//   level 1: governance sets EVERY subset of the candidates as whitelist through the real UpdateParams message, in
//            ascending, descending and rotated order; a candidate attempts UpdateParams itself; then every candidate and
//            governance attempt both deployments;
//   level 2: from those states a second UpdateParams shrinks / reorders / grows / replaces the list (family stated in the
//            rule), then again everybody attempts both deployments (a formerly whitelisted address must now be refused).
//
// Reference: the set of exact address strings of the last accepted UpdateParams (or of the genesis configuration); it is
// cross-checked, as a set, with the parameters read straight from the KV store. Oracle: a deployment is accepted only if
// its authority string is an element of that set; a refused operation leaves the state hash untouched; an accepted
// deployment adds exactly one record; a whitelisted deployer is accepted (alphabet sanity: every deployment here is valid).

type c17Bad = struct{ clause, sig, detail string }

// c17Cands returns the bech32 strings of n candidate accounts in ascending string order.
func c17Cands(n int) []string {
	var out []string
	for i := 0; i < n; i++ {
		out = append(out, world.NewAcct(fmt.Sprintf("c17-deployer-candidate-%d", i)).Bech())
	}
	sort.Strings(out)
	return out
}

func c17CandName(i int) string { return fmt.Sprintf("D%d", i) }

func c17OrderGenesisWhitelists(n int) [][]string {
	return [][]string{{}, {c17CandName(n / 2)}, {c17CandName(n - 1), c17CandName(0)}}
}

func c17OrderCase(n int, genWl []string) c17Case {
	return c17Case{Cands: n, GenWl: append([]string{}, genWl...)}
}

func c17Subset(n, mask int) (names []string) {
	for i := 0; i < n; i++ {
		if mask&(1<<i) != 0 {
			names = append(names, c17CandName(i))
		}
	}
	return names
}

func c17Reverse(s []string) []string {
	out := make([]string, len(s))
	for i := range s {
		out[len(s)-1-i] = s[i]
	}
	return out
}

// c17Orderings: the list in ascending, descending and rotated order (without repetitions).
func c17Orderings(asc []string) [][]string {
	out := [][]string{append([]string{}, asc...)}
	add := func(l []string) {
		for _, o := range out {
			if strings.Join(o, ",") == strings.Join(l, ",") {
				return
			}
		}
		out = append(out, l)
	}
	add(c17Reverse(asc))
	if len(asc) > 2 {
		add(append(append([]string{}, asc[1:]...), asc[0]))
	}
	return out
}

// c17SecondLists: the whitelists of the second update after the list cur (names in the order given to UpdateParams).
func c17SecondLists(n int, cur []string, allSubsets bool) [][]string {
	in := map[string]bool{}
	for _, c := range cur {
		in[c] = true
	}
	var out [][]string
	seen := map[string]bool{strings.Join(cur, ","): true} // the unchanged list is not a second update
	add := func(l []string) {
		k := strings.Join(l, ",")
		if !seen[k] {
			seen[k] = true
			out = append(out, l)
		}
	}
	// shrink: every element removed in turn, the rest in reversed order (shrinks and reorders at once) and in place
	for i := range cur {
		rest := append(append([]string{}, cur[:i]...), cur[i+1:]...)
		add(rest)
		add(c17Reverse(rest))
	}
	add(c17Reverse(cur))
	add([]string{})
	var comp []string
	for i := 0; i < n; i++ {
		if !in[c17CandName(i)] {
			comp = append(comp, c17CandName(i))
		}
	}
	add(comp)
	// grow: one outsider appended at the end (the list given is then not in address order), or put in front
	for _, c := range comp {
		add(append(append([]string{}, cur...), c))
		add(append([]string{c}, cur...))
	}
	if allSubsets {
		for mask := 0; mask < 1<<n; mask++ {
			add(c17Subset(n, mask))
		}
	}
	return out
}

func c17OrderDeployOps(n int) (ops []c17Op) {
	auths := []string{}
	for i := 0; i < n; i++ {
		auths = append(auths, c17CandName(i))
	}
	auths = append(auths, "gov")
	for _, au := range auths {
		ops = append(ops, c17Op{Kind: "deploy-erc20", Authority: au, Denom: "utwo", Name: "Tok", Symbol: "TK", Decimals: 6})
		ops = append(ops, c17Op{Kind: "deploy-staking", Authority: au, Symbol: "STK", Decimals: 18})
	}
	return ops
}

func (cw *c17World) bechs(names []string) []string {
	out := []string{}
	for _, n := range names {
		out = append(out, cw.auth(n))
	}
	return out
}

func c17SameSet(a, b []string) bool {
	x, y := append([]string{}, a...), append([]string{}, b...)
	sort.Strings(x)
	sort.Strings(y)
	return strings.Join(x, ",") == strings.Join(y, ",")
}

// orderStep executes op on a branch of parent and evaluates the oracle against the reference whitelist model (exact
// address strings). mustSucceed: the deployment is valid in itself, so a whitelisted authority must be accepted.
func (cw *c17World) orderStep(parent sdk.Context, parentKey [32]byte, model []string, op c17Op, mustSucceed bool) (nctx sdk.Context, ok bool, newModel []string, class string, bad []c17Bad) {
	fail := func(clause, f string, a ...interface{}) { bad = append(bad, c17Bad{clause, "", fmt.Sprintf(f, a...)}) }
	newModel = model
	if stored := cw.storedParams(parent).WhitelistedDeployers; !c17SameSet(stored, model) {
		fail("stored-whitelist-is-what-governance-set", "the store holds %v, governance / genesis set %v", stored, model)
	}
	nctx, ok, errMsg := cw.exec(parent, op)
	if !ok && CanonKey(cw.w, nctx) != parentKey {
		fail("refused-operation-changes-nothing", "%s (%s)", op, errMsg)
	}
	switch op.Kind {
	case "update-params":
		switch {
		case ok && op.Authority != "gov":
			fail("only-governance-updates-params", "%s", op.Authority)
			class = "update-params/outsider-ACCEPTED"
		case ok:
			newModel = cw.bechs(op.Whitelist)
			if stored := cw.storedParams(nctx).WhitelistedDeployers; !c17SameSet(stored, newModel) {
				fail("stored-whitelist-is-what-governance-set", "UpdateParams was given %v, the store holds %v", newModel, stored)
			}
			class = "update-params/gov-ok"
		case op.Authority == "gov":
			fail("alphabet-sanity", "valid UpdateParams of governance refused: %s", errMsg)
			class = "update-params/gov-refused"
		default:
			class = "update-params/outsider-refused"
		}
	case "deploy-erc20", "deploy-staking":
		a := cw.auth(op.Authority)
		allowed := false
		sorted := append([]string{}, model...)
		sort.Strings(sorted)
		for _, m := range model {
			if m == a {
				allowed = true
			}
		}
		where := "whitelisted"
		if !allowed {
			switch {
			case op.Authority == "gov":
				where = "gov"
			case len(sorted) == 0:
				where = "outsider-of-empty-list"
			case a < sorted[0]:
				where = "outsider-below"
			case a > sorted[len(sorted)-1]:
				where = "outsider-above"
			default:
				where = "outsider-between"
			}
		}
		switch {
		case ok && !allowed:
			fail("only-whitelisted-deployers", "%s (%s, %s: its address string sorts there relative to the whitelist) deployed while the whitelist set by governance was %v", op.Authority, a, where, model)
			class = op.Kind + "/" + where + "-ACCEPTED"
		case ok:
			if before, after := len(cw.metas(parent)), len(cw.metas(nctx)); after != before+1 {
				fail("accepted-deployment-registers-one-contract", "%s: %d -> %d records", op, before, after)
			}
			class = op.Kind + "/" + where + "-ok"
		case allowed && mustSucceed:
			fail("alphabet-sanity", "valid deployment of whitelisted %s refused: %s", op.Authority, errMsg)
			class = op.Kind + "/" + where + "-refused"
		default:
			class = op.Kind + "/" + where + "-refused"
		}
	default:
		panic("order pass: kind " + op.Kind)
	}
	return nctx, ok, newModel, class, bad
}

// c17OrderUnit explores everything below one first-level whitelist (subset mask of the candidates) in one world; with
// mask < 0 it evaluates level 0 (the genesis whitelist). rec == nil: dry run for the determinism comparison. The digest
// covers every outcome class and finding in order.
func c17OrderUnit(run *ev.Run, cw *c17World, c c17Case, mask int, thorough bool) (digest [32]byte) {
	n := c.Cands
	h := sha256.New()
	deploys := c17OrderDeployOps(n)
	version := cw.storedParams(cw.root).ProtocolVersion
	note := func(path []c17Op, class string, bad []c17Bad) {
		h.Write([]byte(class + ";"))
		for _, b := range bad {
			h.Write([]byte(b.clause + "|" + b.detail + ";"))
		}
		if run == nil {
			return
		}
		run.Count("transitions", 1)
		run.Count("order_transitions", 1)
		run.Outcome("order-" + class)
		switch {
		case strings.Contains(class, "/outsider-below"):
			run.Count("order_outsider_below", 1)
		case strings.Contains(class, "/outsider-between"):
			run.Count("order_outsider_between", 1)
		case strings.Contains(class, "/outsider-above"):
			run.Count("order_outsider_above", 1)
		case strings.Contains(class, "/whitelisted-ok"):
			run.Count("order_whitelisted_ok", 1)
		}
		c17Report(run, c, path, bad)
	}
	everybody := func(ctx sdk.Context, key [32]byte, model []string, path []c17Op) {
		if run != nil {
			run.Count("order_states", 1)
			run.Distinct(fmt.Sprintf("order/%x", key[:12]))
		}
		for _, d := range deploys {
			_, _, _, class, bad := cw.orderStep(ctx, key, model, d, true)
			note(append(append([]c17Op{}, path...), d), class, bad)
		}
	}
	rootKey := CanonKey(cw.w, cw.root)
	genesis := cw.bechs(c.GenWl)
	if mask < 0 {
		everybody(cw.root, rootKey, genesis, nil)
		return
	}
	for oi, first := range c17Orderings(c17Subset(n, mask)) {
		u1 := c17Op{Kind: "update-params", Authority: "gov", Whitelist: first, Version: version}
		ctx1, ok1, model1, class, bad := cw.orderStep(cw.root, rootKey, genesis, u1, false)
		note([]c17Op{u1}, class, bad)
		if !ok1 {
			continue
		}
		key1 := CanonKey(cw.w, ctx1)
		everybody(ctx1, key1, model1, []c17Op{u1})
		// a candidate (whitelisted when the list is not empty) tries to set the whitelist itself
		for _, au := range []string{c17CandName(0), c17CandName(n - 1)} {
			ux := c17Op{Kind: "update-params", Authority: au, Whitelist: c17Subset(n, 1<<n-1), Version: version}
			_, _, _, class, bad := cw.orderStep(ctx1, key1, model1, ux, false)
			note([]c17Op{u1, ux}, class, bad)
		}
		if oi > 0 && !thorough {
			continue
		}
		for _, second := range c17SecondLists(n, first, thorough && oi == 0) {
			u2 := c17Op{Kind: "update-params", Authority: "gov", Whitelist: second, Version: version}
			ctx2, ok2, model2, class, bad := cw.orderStep(ctx1, key1, model1, u2, false)
			note([]c17Op{u1, u2}, class, bad)
			if !ok2 {
				continue
			}
			everybody(ctx2, CanonKey(cw.w, ctx2), model2, []c17Op{u1, u2})
		}
	}
	copy(digest[:], h.Sum(nil))
	return digest
}

func c17OrderCands(thorough bool) int {
	if thorough {
		return 7
	}
	return 6
}

// c17OrderPass runs the units (genesis whitelist × first-level subset) of this shard.
func c17OrderPass(run *ev.Run, shard, nShards int, thorough bool) {
	n := c17OrderCands(thorough)
	u := 0
	checked := 0
	for _, g := range c17OrderGenesisWhitelists(n) {
		c := c17OrderCase(n, g)
		var cw *c17World
		for mask := -1; mask < 1<<n; mask++ {
			u++
			if u%nShards != shard {
				continue
			}
			if cw == nil {
				cw = c17Setup(c)
			}
			d := c17OrderUnit(run, cw, c, mask, thorough)
			if checked < 2 && mask >= 0 {
				// determinism: the same unit executed again gives the same outcomes and findings
				checked++
				if d2 := c17OrderUnit(nil, cw, c, mask, thorough); d2 != d {
					fmt.Fprintf(os.Stderr, "HARNESS-NONDETERMINISM: C17 order unit genesis=%v mask=%d\n", g, mask)
					os.Exit(2)
				}
			}
		}
	}
}

// c17OrderSanity (after the shards have been merged): the alphabet produced outsiders on every side of a whitelist and
// successful whitelisted deployers.
func c17OrderSanity(run *ev.Run, thorough bool) {
	n := c17OrderCands(thorough)
	for _, name := range []string{"order_outsider_below", "order_outsider_between", "order_outsider_above", "order_whitelisted_ok"} {
		if run.Counter(name) == 0 {
			run.Fail(ev.Finding{Clause: "alphabet-sanity", Detail: "order pass: no case counted as " + name, Replay: c17OrderCase(n, nil)})
		}
	}
}

func c17OrderRule(thorough bool) string {
	n := c17OrderCands(thorough)
	second := "every list with one element removed (in place and reversed), the reversed list, the empty list, the complement, every list grown by one outsider (appended / put in front)"
	from := "the ascending ordering"
	if thorough {
		second += ", and (from the ascending ordering) every subset of the candidates"
		from = "every ordering"
	}
	return fmt.Sprintf("order pass: %d candidate deployers named by the rank of their bech32 strings + the governance account; worlds without contracts at genesis × genesis whitelist {} / {median} / {max,min}; governance sets every one of the %d subsets of the candidates through UpdateParams in ascending / descending / rotated order, from %s a second UpdateParams sets %s; in the genesis state and after every accepted update every candidate and governance attempt DeployErc20Contract and DeployStakingContract (accepted only if the authority string is an element of the set last given to UpdateParams / genesis, which must equal, as a set, the whitelist in the KV store; a refused operation leaves the state hash unchanged; a whitelisted deployer is accepted), and candidates attempt UpdateParams themselves", n, 1<<n, from, second)
}

// c17OrderReplay re-executes the path of an order-pass finding with the reference model.
func c17OrderReplay(c c17Case) (fs []ev.Finding) {
	cw := c17Setup(c)
	ctx := cw.root
	model := cw.bechs(c.GenWl)
	deployed := false
	for i, op := range c.Path {
		if op.Kind != "update-params" && op.Kind != "deploy-erc20" && op.Kind != "deploy-staking" {
			fs = append(fs, ev.Finding{Clause: "alphabet-sanity", Detail: "order replay: kind " + op.Kind})
			return fs
		}
		nctx, ok, nm, class, bad := cw.orderStep(ctx, CanonKey(cw.w, ctx), model, op, !deployed)
		fmt.Printf("step %d %s -> ok=%v %s\n", i, op, ok, class)
		for _, b := range bad {
			fs = append(fs, ev.Finding{Clause: b.clause, Signature: b.sig, Detail: b.detail})
		}
		if ok && op.Kind != "update-params" {
			deployed = true
		}
		ctx, model = nctx, nm
	}
	return fs
}
