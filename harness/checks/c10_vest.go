package checks

// C10, holder-kind dimension: holders whose auth account is a vesting account of every kind the SDK has, with coins of both
// token denominations that are still locked at the block time. They are view subjects in every reached state of every search
// (balanceOf must equal the bank balance whatever part of it is locked), recipients (ERC-20 transfer and native bank send into
// them) and senders (amount <= spendable must work, spendable < amount <= balance must fail and change nothing because x/bank
// refuses to move locked coins). The locked amount is the SDK's own VestingAccount.LockedCoins(block time), read from the
// account record — never from the precompile or from the bank keeper's SpendableCoin.

import (
	"fmt"
	"math/big"
	"os"

	sdkmath "cosmossdk.io/math"
	sdk "github.com/cosmos/cosmos-sdk/types"
	authtypes "github.com/cosmos/cosmos-sdk/x/auth/types"
	vestexported "github.com/cosmos/cosmos-sdk/x/auth/vesting/exported"
	vestingtypes "github.com/cosmos/cosmos-sdk/x/auth/vesting/types"
	"github.com/ethereum/go-ethereum/common"

	"verif/harness/world"
)

var c10VestNames = []string{"V1", "V2", "V3", "V4"}

// V1 delayed, V2 continuous (half way through its schedule), V3 periodic (first period over), V4 permanently locked.
var c10V = map[string]common.Address{
	"V1": common.HexToAddress("0x00000000000000000000000000000000000f1001"),
	"V2": common.HexToAddress("0x00000000000000000000000000000000000f2002"),
	"V3": common.HexToAddress("0x00000000000000000000000000000000000f3003"),
	"V4": common.HexToAddress("0x00000000000000000000000000000000000f4004"),
}

const (
	c10VestBalance = 3 // bank balance of every vesting holder, per denomination
	c10VestLocked  = 2 // of which locked at the block time of the branch states (so 1 is spendable)
)

// c10VestExtras builds the genesis accounts. The branch states live at the time of block 2 (one block is committed before the
// root context is taken); every schedule is placed relative to that time.
func c10VestExtras() []world.ExtraAccount {
	T := world.BlockTime(2).Unix()
	const hour = int64(3600)
	both := func(n int64) sdk.Coins {
		return sdk.NewCoins(sdk.NewCoin(world.Denom, sdkmath.NewInt(n)), sdk.NewCoin("utwo", sdkmath.NewInt(n)))
	}
	base := func(n string) *authtypes.BaseAccount { return authtypes.NewBaseAccount(c10V[n].Bytes(), nil, 0, 1) }
	must := func(err error) {
		if err != nil {
			panic(err)
		}
	}
	delayed, err := vestingtypes.NewDelayedVestingAccount(base("V1"), both(c10VestLocked), T+1000*hour)
	must(err)
	// 4 coins vest linearly over [T-4h, T+4h]: 2 are vested and 2 still locked at T; the holder has spent 1 of the vested ones
	continuous, err := vestingtypes.NewContinuousVestingAccount(base("V2"), both(2*c10VestLocked), T-4*hour, T+4*hour)
	must(err)
	// 1 coin vested 2h after the start (T-3h), 2 coins vest 1000h later
	periodic, err := vestingtypes.NewPeriodicVestingAccount(base("V3"), both(c10VestLocked+1), T-3*hour, vestingtypes.Periods{
		{Length: 2 * hour, Amount: both(1)}, {Length: 1000 * hour, Amount: both(c10VestLocked)},
	})
	must(err)
	permanent, err := vestingtypes.NewPermanentLockedAccount(base("V4"), both(c10VestLocked))
	must(err)
	var out []world.ExtraAccount
	for _, a := range []authtypes.GenesisAccount{delayed, continuous, periodic, permanent} {
		must(a.Validate())
		out = append(out, world.ExtraAccount{Account: a, Coins: both(c10VestBalance)})
	}
	return out
}

// sdkLocked is the reference value: the vesting account's own schedule evaluated at the context's block time.
func (cw *c10World) sdkLocked(ctx sdk.Context, a common.Address) (sdk.Coins, string) {
	acc := cw.w.App.AccountKeeper.GetAccount(ctx, a.Bytes())
	va, ok := acc.(vestexported.VestingAccount)
	if !ok {
		return nil, fmt.Sprintf("%T", acc)
	}
	return va.LockedCoins(ctx.BlockTime()), fmt.Sprintf("%T", acc)
}

// initVesting adds the vesting holders to the tracked holders and to the allowance pairs, and records what the SDK keeps locked.
func (cw *c10World) initVesting() {
	wantKind := map[string]string{"V1": "*types.DelayedVestingAccount", "V2": "*types.ContinuousVestingAccount", "V3": "*types.PeriodicVestingAccount", "V4": "*types.PermanentLockedAccount"}
	for t := range c10Den {
		cw.locked[t] = map[common.Address]*big.Int{}
	}
	for _, n := range c10VestNames {
		a := c10V[n]
		cw.tracked = append(cw.tracked, a)
		cw.allowPairs = append(cw.allowPairs, [2]common.Address{a, c10B})
		locked, kind := cw.sdkLocked(cw.root, a)
		for t, d := range c10Den {
			l := locked.AmountOf(d).BigInt()
			cw.locked[t][a] = l
			// alphabet sanity: every vesting holder has 0 < locked < balance in both denominations, of the intended account kind
			if bal := cw.w.Balance(cw.root, a, d); kind != wantKind[n] || l.Cmp(big.NewInt(c10VestLocked)) != 0 || bal.Cmp(big.NewInt(c10VestBalance)) != 0 {
				fmt.Fprintf(os.Stderr, "HARNESS: C10 vesting holder %s (%s) has balance %s, locked %s of %s at %s; wanted %s with %d/%d\n", n, kind, bal, l, d, cw.root.BlockTime(), wantKind[n], c10VestBalance, c10VestLocked)
				os.Exit(2)
			}
		}
	}
}

func (cw *c10World) lockedOf(t int, a common.Address) *big.Int {
	if v := cw.locked[t][a]; v != nil {
		return v
	}
	return new(big.Int)
}

// spendable = max(balance − locked, 0) with the reference balance and the SDK's locked amount.
func (cw *c10World) spendable(m *c10Model, t int, a common.Address) *big.Int {
	s := new(big.Int).Sub(m.bal(t, a), cw.lockedOf(t, a))
	if s.Sign() < 0 {
		return new(big.Int)
	}
	return s
}

// vestingUnchanged: no operation of the alphabet touches a vesting schedule — the account record must keep locking the same
// amount in every reached state (all branch states share one block time).
func (cw *c10World) vestingUnchanged(ctx sdk.Context) (bad []string) {
	for _, n := range c10VestNames {
		locked, kind := cw.sdkLocked(ctx, c10V[n])
		for t, d := range c10Den {
			if l := locked.AmountOf(d).BigInt(); l.Cmp(cw.lockedOf(t, c10V[n])) != 0 {
				bad = append(bad, fmt.Sprintf("vesting holder %s (%s) locks %s of T%d, %s before", n, kind, l, t, cw.lockedOf(t, c10V[n])))
			}
		}
	}
	return bad
}

// c10VestAlphabet: per token and vesting holder V (balance 3, locked 2): coins into V by ERC-20 transfer and by native bank
// send; V sends 1 (<= spendable), 2 (> spendable, <= balance) and 4 (> balance) by transfer, burn and bank send; V approves B,
// B pulls / burns 1 and 2 of V's coins.
func c10VestAlphabet() []c10Op {
	var ops []c10Op
	for t := 0; t < 2; t++ {
		for _, v := range c10VestNames {
			ops = append(ops,
				c10Op{Token: t, Caller: "A", Method: "transfer", X: v, Amt: "1"},
				c10Op{Token: t, Method: "bank-send", X: "A", Y: v, Amt: "1"},
				c10Op{Token: t, Caller: v, Method: "transfer", X: "B", Amt: "1"},
				c10Op{Token: t, Caller: v, Method: "transfer", X: "B", Amt: "2"},
				c10Op{Token: t, Caller: v, Method: "transfer", X: "B", Amt: "4"},
				c10Op{Token: t, Caller: v, Method: "burn", Amt: "1"},
				c10Op{Token: t, Caller: v, Method: "burn", Amt: "2"},
				c10Op{Token: t, Method: "bank-send", X: v, Y: "B", Amt: "1"},
				c10Op{Token: t, Method: "bank-send", X: v, Y: "B", Amt: "2"},
				c10Op{Token: t, Caller: v, Method: "approve", X: "B", Amt: "2"},
				c10Op{Token: t, Caller: "B", Method: "transferFrom", X: v, Y: "B", Amt: "1"},
				c10Op{Token: t, Caller: "B", Method: "transferFrom", X: v, Y: "B", Amt: "2"},
				c10Op{Token: t, Caller: "B", Method: "burnFrom", X: v, Amt: "2"},
			)
		}
	}
	return ops
}
