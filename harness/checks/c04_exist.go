package checks

import (
	"fmt"
	"math/big"

	sdkmath "cosmossdk.io/math"
	sdk "github.com/cosmos/cosmos-sdk/types"
	authtypes "github.com/cosmos/cosmos-sdk/x/auth/types"
	banktypes "github.com/cosmos/cosmos-sdk/x/bank/types"
	"github.com/ethereum/go-ethereum/common"
	"github.com/ethereum/go-ethereum/crypto"

	chainapp "github.com/EscanBE/evermint/v12/app"
	"github.com/EscanBE/evermint/v12/app/params"

	"verif/harness/asm"
	"verif/harness/ev"
	"verif/harness/world"
)

// ---------------------------------------------------------------------------------------------------------------------
// C04, account-existence dimension: whether an address that receives or holds value has an x/auth account record is an alphabet
// dimension of its own. In the basic worlds every funded address has an account record and every address without one is empty.
// Here the addresses that the txs of the block are going to touch - the address of the NEXT contract creation of wallet 0 (nonce 0
// and 1) and wallet 1, the CREATE / CREATE2 addresses of gadget contracts, and AddrSink (recipient of the plain transfer, of the
// forwarding gadget, of the ERC-20 precompile transfer and beneficiary of every SELFDESTRUCT gadget) - are put into one of the states
//
//	"none"       empty, no account record (control: the gadgets of this part work)
//	"bank-only"  hold the EVM denom and a second denom in x/bank (bank genesis balances, supply raised accordingly), NO account record
//	"account"    hold the same balances and have a plain base account record (sequence 0, no public key)
//
// and the creation / transfer / self-destruct kinds run against them. The ledger oracle (c04Oracle) is unchanged: a creation on a
// pre-funded address keeps ("carries over") the balance - nothing is minted or burnt net, the supply of every denom stays.
// ---------------------------------------------------------------------------------------------------------------------

const (
	ExistNone     = "none"
	ExistBankOnly = "bank-only"
	ExistAccount  = "account"
)

var c04ExistModes = []string{ExistNone, ExistBankOnly, ExistAccount}

// Gadgets of this part (installed only in worlds with ledgerCase.Exist set): contracts that CREATE / CREATE2 a child with an
// endowment of c04ExistEndow out of their own funds.
var (
	AddrGCreate      = common.HexToAddress("0x00000000000000000000000000000000000c0301") // CREATE(createOKInit)
	AddrGCreate2     = common.HexToAddress("0x00000000000000000000000000000000000c0302") // CREATE2(createOKInit, salt 7)
	AddrGCreate2Fail = common.HexToAddress("0x00000000000000000000000000000000000c0303") // CREATE2(init code that reverts, salt 7)
)

const (
	c04ExistEndow      = 5
	c04ExistSalt       = 7
	c04ExistGadgetFund = 100
)

const (
	// KGadgetCreate / KGadgetCreate2 / KGadgetCreate2Fail call the gadgets above; KCreateEndowed is a top-level creation with an endowment.
	KGadgetCreate      TxKind = "gadget-create"
	KGadgetCreate2     TxKind = "gadget-create2"
	KGadgetCreate2Fail TxKind = "gadget-create2-reverting-init"
	KCreateEndowed     TxKind = "create-endowed"
)

func init() {
	callTo := func(a common.Address) func(*world.World, TxSpec) (*common.Address, []byte, *big.Int) {
		return func(*world.World, TxSpec) (*common.Address, []byte, *big.Int) { x := a; return &x, nil, big.NewInt(0) }
	}
	ExtraKinds[KGadgetCreate] = callTo(AddrGCreate)
	ExtraKinds[KGadgetCreate2] = callTo(AddrGCreate2)
	ExtraKinds[KGadgetCreate2Fail] = callTo(AddrGCreate2Fail)
	ExtraKinds[KCreateEndowed] = func(*world.World, TxSpec) (*common.Address, []byte, *big.Int) {
		return nil, createOKInit(), big.NewInt(c04ExistEndow)
	}
}

func c04ExistContracts() []world.Contract {
	fund := sdk.NewCoins(sdk.NewCoin(world.Denom, sdkmath.NewInt(c04ExistGadgetFund)))
	return []world.Contract{
		{Addr: AddrGCreate, Code: asm.New().Create(createOKInit(), c04ExistEndow).Stop().Bytes(), Coins: fund},
		{Addr: AddrGCreate2, Code: asm.New().Create2(createOKInit(), c04ExistEndow, c04ExistSalt).Stop().Bytes(), Coins: fund},
		{Addr: AddrGCreate2Fail, Code: asm.New().Create2(createFailInit(), c04ExistEndow, c04ExistSalt).Stop().Bytes(), Coins: fund},
	}
}

// c04ExistTarget is one address of the existence dimension.
type c04ExistTarget struct {
	Name string
	Addr common.Address
}

func c04Create2Addr(gadget common.Address, init []byte) common.Address {
	return crypto.CreateAddress2(gadget, common.BigToHash(big.NewInt(c04ExistSalt)), crypto.Keccak256(init))
}

// c04ExistTargets: (a) next creation addresses of wallet 0 (nonce 0, and nonce 1 for the second tx of a same-sender block) and of
// wallet 1, (b) the CREATE address (genesis contracts have nonce 1) and the CREATE2 addresses of the gadgets, (c)+(d) the sink.
func c04ExistTargets() []c04ExistTarget {
	return []c04ExistTarget{
		{"create(wallet0,nonce0)", crypto.CreateAddress(walletAddr(0), 0)},
		{"create(wallet0,nonce1)", crypto.CreateAddress(walletAddr(0), 1)},
		{"create(wallet1,nonce0)", crypto.CreateAddress(walletAddr(1), 0)},
		{"create(gadget,nonce1)", crypto.CreateAddress(AddrGCreate, 1)},
		{"create2(gadget,ok-init)", c04Create2Addr(AddrGCreate2, createOKInit())},
		{"create2(gadget,reverting-init)", c04Create2Addr(AddrGCreate2Fail, createFailInit())},
		{"sink", AddrSink},
	}
}

// c04ExistFunds: what target i holds in the funded modes (distinct per address, EVM denom and a second denom).
func c04ExistFunds(i int) sdk.Coins {
	return sdk.NewCoins(sdk.NewCoin(world.Denom, sdkmath.NewInt(int64(7_000_000+i))), sdk.NewCoin("utwo", sdkmath.NewInt(int64(5_000_000+i))))
}

// c04ExistConfig (called by ledgerWorld) installs the gadgets and puts the targets into the state of the mode.
func c04ExistConfig(cfg *world.Config, mode string) {
	cfg.Contracts = append(append([]world.Contract{}, cfg.Contracts...), c04ExistContracts()...)
	switch mode {
	case ExistNone:
	case ExistAccount:
		for i, t := range c04ExistTargets() {
			cfg.Extra = append(cfg.Extra, world.ExtraAccount{Account: authtypes.NewBaseAccountWithAddress(t.Addr.Bytes()), Coins: c04ExistFunds(i)})
		}
	case ExistBankOnly:
		prev := cfg.GenesisMutator
		cfg.GenesisMutator = func(enc params.EncodingConfig, gs chainapp.GenesisState) {
			if prev != nil {
				prev(enc, gs)
			}
			var bg banktypes.GenesisState
			enc.Codec.MustUnmarshalJSON(gs[banktypes.ModuleName], &bg)
			for i, t := range c04ExistTargets() {
				bg.Balances = append(bg.Balances, banktypes.Balance{Address: sdk.AccAddress(t.Addr.Bytes()).String(), Coins: c04ExistFunds(i)})
				bg.Supply = bg.Supply.Add(c04ExistFunds(i)...)
			}
			gs[banktypes.ModuleName] = enc.Codec.MustMarshalJSON(&bg)
		}
	default:
		panic("unknown existence mode " + mode)
	}
}

// c04ExistKinds: the creation kinds (top-level, CREATE, CREATE2; succeeding, reverting, empty code, endowed, unaffordable endowment), the
// kinds that move value to the sink (transfer, CALL from a contract, bank precompile, SELFDESTRUCT with one and two denoms, repeated
// SELFDESTRUCT) and a neutral one.
var c04ExistKinds = []TxKind{
	KCreateOK, KCreateEndowed, KCreateEmpty, KCreateFail, KCreateValueHigh, KGadgetCreate, KGadgetCreate2, KGadgetCreate2Fail,
	KTransfer, KRecipient(ModeForward, RcpSink), KRecipient(ModeSuicide, RcpSink), KSuicide, KSuicide2, KKillPayKill, KErc20Transfer, KSstore,
}

const c04ExistPilotGas = 300_000

// c04ExistCreation describes the creation kinds for the sanity pass: where the child of the first such tx of `sender` lands, its endowment.
func c04ExistCreation(k TxKind, sender int) (target common.Address, endow int64, ok bool) {
	switch k {
	case KCreateOK, KCreateEmpty:
		return crypto.CreateAddress(walletAddr(sender), 0), 0, true
	case KCreateEndowed:
		return crypto.CreateAddress(walletAddr(sender), 0), c04ExistEndow, true
	case KGadgetCreate:
		return crypto.CreateAddress(AddrGCreate, 1), c04ExistEndow, true
	case KGadgetCreate2:
		return c04Create2Addr(AddrGCreate2, createOKInit()), c04ExistEndow, true
	}
	return common.Address{}, 0, false
}

func c04ExistIsCreationKind(k TxKind) bool {
	switch k {
	case KCreateOK, KCreateEndowed, KCreateEmpty, KCreateFail, KCreateValueHigh, KGadgetCreate, KGadgetCreate2, KGadgetCreate2Fail:
		return true
	}
	return false
}

// c04ExistCases enumerates the existence part.
func c04ExistCases(thorough bool) []ledgerCase {
	var cases []ledgerCase
	// pilot: gas used per (mode, kind) - it depends on the mode (a funded recipient is not "new")
	used := map[string]map[TxKind]uint64{}
	for _, m := range c04ExistModes {
		used[m] = map[TxKind]uint64{}
		for _, k := range c04ExistKinds {
			_, bl := ledgerRun(ledgerCase{MaxGas: 40_000_000, Exist: m, Blocks: [][]TxSpec{{{Kind: k, Sender: 0, Fee: FLegacyB, GasLimit: c04ExistPilotGas}}}})
			t := bl[0].Txs[0]
			if t.Rc != nil && t.Rc.HasReceipt {
				used[m][k] = t.Rc.GasUsed
			} else {
				used[m][k] = c04ExistPilotGas
			}
		}
	}
	gasVariants := func(m string, k TxKind) []uint64 {
		u := used[m][k]
		return []uint64{u, u + 1, 2 * u, 6_000_000}
	}
	// single-tx blocks: modes x kinds x fee shapes x gas limits x sender {wallet 0, wallet 1}
	fees := []FeeKind{FLegacyB, FDynTip1Cap}
	if thorough {
		fees = ledgerFees
	}
	for _, m := range c04ExistModes {
		for _, k := range c04ExistKinds {
			for _, f := range fees {
				for _, g := range gasVariants(m, k) {
					for _, s := range []int{0, 1} {
						cases = append(cases, ledgerCase{MaxGas: 40_000_000, Exist: m, Blocks: [][]TxSpec{{{Kind: k, Sender: s, Fee: f, GasLimit: g}}}})
					}
				}
			}
		}
	}
	// two-tx blocks: funded modes x kinds^2 x {different, same sender} (thorough: x 2 fee/gas combos of the second tx)
	type fg struct {
		f FeeKind
		g int
	}
	combos := []fg{{FLegacyB, 2}}
	if thorough {
		combos = []fg{{FLegacyB, 2}, {FDynTip1Cap, 1}}
	}
	for _, m := range []string{ExistBankOnly, ExistAccount} {
		for _, k1 := range c04ExistKinds {
			for _, k2 := range c04ExistKinds {
				for _, c2 := range combos {
					for _, s2 := range []int{1, 0} {
						cases = append(cases, ledgerCase{MaxGas: 40_000_000, Exist: m, Blocks: [][]TxSpec{{
							{Kind: k1, Sender: 0, Fee: FLegacyB, GasLimit: gasVariants(m, k1)[2]},
							{Kind: k2, Sender: s2, Fee: c2.f, GasLimit: gasVariants(m, k2)[c2.g]},
						}}})
					}
				}
			}
		}
	}
	// two-block histories: the first block gives the sink an account record (transfer) / uses up creation nonce 0 of wallet 0
	for _, m := range c04ExistModes {
		for _, first := range [][]TxSpec{{{Kind: KTransfer, Sender: 2, Fee: FLegacyB}}, {{Kind: KCreateOK, Sender: 0, Fee: FLegacyB, GasLimit: c04ExistPilotGas}}} {
			for _, k := range c04ExistKinds {
				cases = append(cases, ledgerCase{MaxGas: 40_000_000, Exist: m, Blocks: [][]TxSpec{first, {{Kind: k, Sender: 0, Fee: FDynTip1Cap, GasLimit: gasVariants(m, k)[2]}}}})
			}
		}
	}
	return cases
}

// c04ExistObserve counts what the existence cases reached (non-vacuity).
func c04ExistObserve(run *ev.Run, c ledgerCase, blocks []*blockObs) {
	run.Count("exist_cases_"+c.Exist, 1)
	for _, b := range blocks {
		for _, t := range b.Txs {
			part := "value"
			if c04ExistIsCreationKind(t.Spec.Kind) {
				part = "creation"
			}
			run.Count("exist_"+c.Exist+"_"+part+"_txs_"+t.Class, 1)
		}
	}
}

// c04ExistSanity: the existence alphabet is what it claims to be. (1) Before the first tx every target is in the state of the mode
// (balance, account record); (2) every succeeding creation kind, sent by wallet 0 and by wallet 1, lands exactly on the target address
// (code or, for the empty-code kind, an account record with nonce 1 appears there) and (3) the created contract holds exactly what the
// address held before plus the endowment, in every denom: the carry-over of CreateAccount neither loses nor duplicates anything.
func c04ExistSanity(run *ev.Run) (out []ev.Finding) {
	fail := func(clause, detail string, c interface{}) {
		if c == nil {
			c = map[string]string{"part": "exist-sanity"}
		}
		out = append(out, ev.Finding{Clause: clause, Detail: detail, Replay: c})
	}
	targets := c04ExistTargets()
	fundsOf := func(mode string, a common.Address) sdk.Coins {
		if mode == ExistNone {
			return sdk.NewCoins()
		}
		for i, t := range targets {
			if t.Addr == a {
				return c04ExistFunds(i)
			}
		}
		return sdk.NewCoins()
	}
	seen := map[common.Address]bool{}
	for _, t := range targets {
		if seen[t.Addr] {
			fail("alphabet-sanity", "two targets of the existence dimension share the address "+t.Addr.Hex(), nil)
		}
		seen[t.Addr] = true
	}
	for _, m := range c04ExistModes {
		w := ledgerWorld(ledgerCase{MaxGas: 40_000_000, Exist: m})
		w.Block(nil)
		ctx := w.Ctx()
		for _, t := range targets {
			has := w.App.AccountKeeper.HasAccount(ctx, t.Addr.Bytes())
			got := w.App.BankKeeper.GetAllBalances(ctx, t.Addr.Bytes())
			if has != (m == ExistAccount) || !got.Equal(fundsOf(m, t.Addr)) {
				fail("alphabet-sanity", fmt.Sprintf("mode %s: target %s (%s) has account record=%v balances=%s, want record=%v balances=%s", m, t.Name, t.Addr.Hex(), has, got, m == ExistAccount, fundsOf(m, t.Addr)), nil)
			}
			if n := w.Nonce(ctx, t.Addr); n != 0 {
				fail("alphabet-sanity", fmt.Sprintf("mode %s: target %s has nonce %d", m, t.Name, n), nil)
			}
			run.Count("exist_targets_checked", 1)
		}
		for _, k := range c04ExistKinds {
			for _, s := range []int{0, 1} {
				target, endow, ok := c04ExistCreation(k, s)
				if !ok {
					continue
				}
				c := ledgerCase{MaxGas: 40_000_000, Exist: m, Blocks: [][]TxSpec{{{Kind: k, Sender: s, Fee: FLegacyB, GasLimit: c04ExistPilotGas}}}}
				w, bl := ledgerRun(c)
				b := bl[0]
				if b.Panic != "" || b.Err != nil || b.Txs[0].Class != "committed-ok" {
					fail("alphabet-sanity", fmt.Sprintf("mode %s: control %s must succeed: %s panic=%q err=%v log=%.160q", m, k, b.outcome(), b.Panic, b.Err, b.Txs[0].Log), c)
					continue
				}
				ctx := w.Ctx()
				code := w.App.EvmKeeper.GetCode(ctx, w.App.EvmKeeper.GetCodeHash(ctx, target.Bytes()))
				if !w.App.AccountKeeper.HasAccount(ctx, target.Bytes()) || w.Nonce(ctx, target) != 1 || (len(code) == 0) != (k == KCreateEmpty) {
					fail("alphabet-sanity", fmt.Sprintf("mode %s: %s by wallet %d did not create a contract at the predicted address %s (account=%v nonce=%d code=%x)", m, k, s, target.Hex(), w.App.AccountKeeper.HasAccount(ctx, target.Bytes()), w.Nonce(ctx, target), code), c)
					continue
				}
				want := fundsOf(m, target).Add(sdk.NewCoin(world.Denom, sdkmath.NewInt(endow)))
				if got := w.App.BankKeeper.GetAllBalances(ctx, target.Bytes()); !got.Equal(want) {
					fail("creation-target-keeps-its-balance", fmt.Sprintf("mode %s: %s by wallet %d: the contract created at %s holds %s, the address held %s before and the endowment is %d%s", m, k, s, target.Hex(), got, fundsOf(m, target), endow, world.Denom), c)
				}
				run.Count("exist_creation_controls_ok", 1)
			}
		}
	}
	return out
}

// c04ExistRule describes the bounds of the existence part for the evidence.
func c04ExistRule(thorough bool) string {
	return fmt.Sprintf("; account-existence part (40M world; gadgets that CREATE / CREATE2 a child with endowment %d): the %d addresses {next creation address of wallet 0 at nonce 0 and 1 and of wallet 1, CREATE address of a gadget, CREATE2 addresses of two gadgets, the sink = recipient of transfers / CALLs / precompile transfers and SELFDESTRUCT beneficiary} in the modes {none, bank-only = holding %s and utwo in x/bank without an x/auth account record, account = the same with a base account record}; single-tx blocks: 3 modes x %d kinds %v x %s x 4 gas limits {used, used+1, 2 x used, 6M} x sender {wallet 0, wallet 1}; two-tx blocks: {bank-only, account} x kinds^2 x {different, same sender}%s; two-block histories after {transfer to the sink, creation by wallet 0} x 3 modes x kinds; sanity: target states before the first tx, every succeeding creation kind lands on the predicted address and the created contract holds exactly previous balance + endowment in every denom",
		c04ExistEndow, len(c04ExistTargets()), world.Denom, len(c04ExistKinds), c04ExistKinds,
		map[bool]string{false: "2 fee shapes", true: "4 fee shapes"}[thorough],
		map[bool]string{false: "", true: " x 2 fee/gas combos of the second tx"}[thorough])
}
