package checks

// C11 oracles: P ≡ N on state, success, logs vs. module events, non-callers untouched, views vs. native queries.

import (
	"bytes"
	"fmt"
	"math/big"
	"sort"
	"strings"

	sdkmath "cosmossdk.io/math"
	sdk "github.com/cosmos/cosmos-sdk/types"
	authtypes "github.com/cosmos/cosmos-sdk/x/auth/types"
	banktypes "github.com/cosmos/cosmos-sdk/x/bank/types"
	distrtypes "github.com/cosmos/cosmos-sdk/x/distribution/types"
	stakingtypes "github.com/cosmos/cosmos-sdk/x/staking/types"
	"github.com/ethereum/go-ethereum/common"
	ethtypes "github.com/ethereum/go-ethereum/core/types"
	ethcrypto "github.com/ethereum/go-ethereum/crypto"

	"verif/harness/world"
)

// c11Bad is one violated clause.
type c11Bad struct {
	Clause string
	Msg    string
}

// stateKey identifies a state for deduplication: every store except auth account numbers + header height and time.
func (cw *c11World) stateKey(ctx sdk.Context) [32]byte {
	k := CanonKey(cw.w, ctx)
	h := ethcrypto.Keccak256(k[:], []byte(fmt.Sprintf("|%d|%d", ctx.BlockHeight(), ctx.BlockTime().UnixNano())))
	var r [32]byte
	copy(r[:], h)
	return r
}

// distNormal is the distribution store with period numbers abstracted away. The precompile computes "all my rewards"
// with the gRPC querier on the live context, and that querier calls IncrementValidatorPeriod; a native transaction never
// runs it. Periods are internal names of reward checkpoints: the normal form first settles every validator's current
// period (on a scratch branch, for both sides alike) and then replaces every period reference by the cumulative reward
// ratio it points to. Everything else of the store (fee pool, outstanding rewards, commissions, withdraw addresses,
// slash events, params) stays byte for byte.
func (cw *c11World) distNormal(ctx sdk.Context) []string {
	c, _ := ctx.CacheContext()
	dk, sk := cw.w.App.DistrKeeper, cw.w.App.StakingKeeper
	vals, err := sk.GetAllValidators(c)
	if err != nil {
		panic(err)
	}
	for _, v := range vals {
		if _, err := dk.IncrementValidatorPeriod(c, v); err != nil {
			panic(err)
		}
	}
	var out []string
	it := c.KVStore(cw.w.Keys[distrtypes.StoreKey]).Iterator(nil, nil)
	for ; it.Valid(); it.Next() {
		if k := it.Key(); len(k) > 0 && (k[0] == 4 || k[0] == 5 || k[0] == 6) {
			continue
		}
		out = append(out, fmt.Sprintf("raw|%x|%x", it.Key(), it.Value()))
	}
	it.Close()
	ratio := func(val sdk.ValAddress, period uint64) string {
		h, err := dk.GetValidatorHistoricalRewards(c, val, period)
		if err != nil {
			return "missing:" + err.Error()
		}
		return h.CumulativeRewardRatio.String()
	}
	dk.IterateValidatorCurrentRewards(c, func(val sdk.ValAddress, cur distrtypes.ValidatorCurrentRewards) bool {
		out = append(out, fmt.Sprintf("current|%x|%s|ratio-so-far=%s", val.Bytes(), cur.Rewards.String(), ratio(val, cur.Period-1)))
		return false
	})
	dk.IterateDelegatorStartingInfos(c, func(val sdk.ValAddress, del sdk.AccAddress, info distrtypes.DelegatorStartingInfo) bool {
		out = append(out, fmt.Sprintf("start|%x|%x|stake=%s|height=%d|ratio-at-start=%s", val.Bytes(), del.Bytes(), info.Stake, info.Height, ratio(val, info.PreviousPeriod)))
		return false
	})
	dk.IterateValidatorHistoricalRewards(c, func(val sdk.ValAddress, _ uint64, h distrtypes.ValidatorHistoricalRewards) bool {
		out = append(out, fmt.Sprintf("checkpoint|%x|%s|refs=%d", val.Bytes(), h.CumulativeRewardRatio.String(), h.ReferenceCount))
		return false
	})
	sort.Strings(out)
	return out
}

func c11DiffStrings(a, b []string) []string {
	ma := map[string]int{}
	for _, s := range a {
		ma[s]++
	}
	for _, s := range b {
		ma[s]--
	}
	var out []string
	for s, n := range ma {
		if n > 0 {
			out = append(out, "P only: "+s)
		} else if n < 0 {
			out = append(out, "reference only: "+s)
		}
	}
	sort.Strings(out)
	return out
}

// authOf is what the property can see of an auth account: type and sequence (not the number).
func (cw *c11World) authOf(ctx sdk.Context, a common.Address) string {
	acc := cw.w.App.AccountKeeper.GetAccount(ctx, a.Bytes())
	if acc == nil {
		return "absent"
	}
	return fmt.Sprintf("%T|seq=%d", acc, acc.GetSequence())
}

// stateEquivalent compares P with N. Returns the differences and whether the distribution store needed the normal form.
func (cw *c11World) stateEquivalent(p, n sdk.Context) (diffs []string, normalised bool) {
	// fast path: hashes of everything but auth, and of the tracked auth accounts
	if cw.w.Hash(p, authtypes.StoreKey) == cw.w.Hash(n, authtypes.StoreKey) {
		same := true
		for _, a := range append(append([]common.Address{}, cw.tracked...), cw.stk, c11VX) {
			if cw.authOf(p, a) != cw.authOf(n, a) {
				same = false
			}
		}
		if same {
			return nil, false
		}
	}
	dp, dn := cw.w.Dump(p), cw.w.Dump(n)
	distP, distN := dp[distrtypes.StoreKey], dn[distrtypes.StoreKey]
	delete(dp, authtypes.StoreKey)
	delete(dn, authtypes.StoreKey)
	delete(dp, distrtypes.StoreKey)
	delete(dn, distrtypes.StoreKey)
	for _, d := range world.Diff(dp, dn) {
		diffs = append(diffs, "P vs. reference "+d.String())
	}
	if len(world.Diff(map[string][][2][]byte{"distribution": distP}, map[string][][2][]byte{"distribution": distN})) != 0 {
		normalised = true
		for _, d := range c11DiffStrings(cw.distNormal(p), cw.distNormal(n)) {
			diffs = append(diffs, "distribution (period-free form) "+d)
		}
	}
	for _, a := range append(append([]common.Address{}, cw.tracked...), cw.stk, c11VX) {
		if x, y := cw.authOf(p, a), cw.authOf(n, a); x != y {
			diffs = append(diffs, fmt.Sprintf("auth account %s: P %s, N %s", cw.name(a), x, y))
		}
	}
	return diffs, normalised
}

// acctView is everything an account owns in bank, staking and distribution.
func (cw *c11World) acctView(ctx sdk.Context, a common.Address) string {
	app := cw.w.App
	var sb strings.Builder
	sb.WriteString("balances=" + app.BankKeeper.GetAllBalances(ctx, a.Bytes()).String())
	dels, _ := app.StakingKeeper.GetAllDelegatorDelegations(ctx, a.Bytes())
	for _, d := range dels {
		sb.WriteString(" delegation=" + d.String())
	}
	ubds, _ := app.StakingKeeper.GetAllUnbondingDelegations(ctx, a.Bytes())
	for _, u := range ubds {
		sb.WriteString(" unbonding=" + u.String())
	}
	reds, _ := app.StakingKeeper.GetRedelegations(ctx, a.Bytes(), 1000)
	for _, r := range reds {
		sb.WriteString(" redelegation=" + r.String())
	}
	c, _ := ctx.CacheContext()
	if r, err := cw.dQ.DelegationTotalRewards(c, &distrtypes.QueryDelegationTotalRewardsRequest{DelegatorAddress: c11AccStr(a)}); err == nil {
		sb.WriteString(" rewards=" + r.String())
	} else {
		sb.WriteString(" rewards-error=" + err.Error())
	}
	wa, _ := app.DistrKeeper.GetDelegatorWithdrawAddr(ctx, a.Bytes())
	sb.WriteString(" withdraw-to=" + wa.String() + " auth=" + cw.authOf(ctx, a))
	return sb.String()
}

// --- logs ---

type c11Log struct {
	Kind     string
	Del, Val common.Address
	Amt      string
}

func (l c11Log) String() string {
	return fmt.Sprintf("%s(%s,%s,%s)", l.Kind, l.Del.Hex()[34:], l.Val.Hex()[34:], l.Amt)
}

var c11Topics = map[common.Hash]string{
	ethcrypto.Keccak256Hash([]byte("Delegate(address,address,uint256)")):       "Delegate",
	ethcrypto.Keccak256Hash([]byte("Undelegate(address,address,uint256)")):     "Undelegate",
	ethcrypto.Keccak256Hash([]byte("WithdrawReward(address,address,uint256)")): "WithdrawReward",
}

// decodeLogs reads the EVM logs of P; anything that is not a well-formed staking event is reported.
func (cw *c11World) decodeLogs(ls []*ethtypes.Log) (out []string, bad []string) {
	for _, l := range ls {
		kind, ok := "", false
		if len(l.Topics) > 0 {
			kind, ok = c11Topics[l.Topics[0]]
		}
		if !ok || l.Address != cw.stk || len(l.Topics) != 3 || len(l.Data) != 32 ||
			!bytes.Equal(l.Topics[1][:12], make([]byte, 12)) || !bytes.Equal(l.Topics[2][:12], make([]byte, 12)) {
			bad = append(bad, fmt.Sprintf("malformed log {%s %v %x}", l.Address.Hex(), l.Topics, l.Data))
			continue
		}
		out = append(out, c11Log{kind, common.BytesToAddress(l.Topics[1][12:]), common.BytesToAddress(l.Topics[2][12:]), new(big.Int).SetBytes(l.Data).String()}.String())
	}
	sort.Strings(out)
	return out, bad
}

func c11Attr(e sdk.Event, key string) string {
	for _, a := range e.Attributes {
		if a.Key == key {
			return a.Value
		}
	}
	return ""
}

// expectedLogs derives, from module events, the logs the interface promises: delegate → Delegate, unbond → Undelegate,
// redelegate → Undelegate(source) + Delegate(destination) for the acting delegator, withdraw_rewards → WithdrawReward;
// amounts in the bond denom, nothing for a zero amount.
func (cw *c11World) expectedLogs(evs sdk.Events, actor common.Address) (out []string, moduleEvents []string) {
	amt := func(s string) *big.Int {
		coins, err := sdk.ParseCoinsNormalized(s)
		if err != nil {
			panic("event amount " + s)
		}
		return coins.AmountOf(world.Denom).BigInt()
	}
	valOf := func(s string) common.Address {
		v, err := sdk.ValAddressFromBech32(s)
		if err != nil {
			panic("event validator " + s)
		}
		return common.BytesToAddress(v)
	}
	delOf := func(s string) common.Address {
		d, err := sdk.AccAddressFromBech32(s)
		if err != nil {
			panic("event delegator " + s)
		}
		return common.BytesToAddress(d)
	}
	add := func(kind string, d, v common.Address, a *big.Int) {
		if a.Sign() > 0 {
			out = append(out, c11Log{kind, d, v, a.String()}.String())
		}
	}
	for _, e := range evs {
		switch e.Type {
		case stakingtypes.EventTypeDelegate:
			add("Delegate", delOf(c11Attr(e, "delegator")), valOf(c11Attr(e, "validator")), amt(c11Attr(e, "amount")))
		case stakingtypes.EventTypeUnbond:
			add("Undelegate", delOf(c11Attr(e, "delegator")), valOf(c11Attr(e, "validator")), amt(c11Attr(e, "amount")))
		case stakingtypes.EventTypeRedelegate:
			a := amt(c11Attr(e, "amount"))
			add("Undelegate", actor, valOf(c11Attr(e, "source_validator")), a)
			add("Delegate", actor, valOf(c11Attr(e, "destination_validator")), a)
		case distrtypes.EventTypeWithdrawRewards:
			add("WithdrawReward", delOf(c11Attr(e, "delegator")), valOf(c11Attr(e, "validator")), amt(c11Attr(e, "amount")))
		default:
			continue
		}
		var as []string
		for _, a := range e.Attributes {
			as = append(as, a.Key+"="+a.Value)
		}
		moduleEvents = append(moduleEvents, e.Type+"{"+strings.Join(as, ",")+"}")
	}
	sort.Strings(out)
	return out, moduleEvents
}

// --- views ---

func (cw *c11World) viewCall(ctx sdk.Context, method string, args ...interface{}) ([]interface{}, error) {
	c, _ := ctx.CacheContext()
	r := CallEVM(cw.w, c, cw.B.Eth(), cw.stk, cw.pack(method, args...), nil, 1_000_000)
	if r.Panic != "" {
		return nil, fmt.Errorf("panic: %s", r.Panic)
	}
	if r.Err != nil {
		return nil, r.Err
	}
	if len(r.Logs) != 0 {
		return nil, fmt.Errorf("view emitted %d logs", len(r.Logs))
	}
	return cw.abi.Unpack(method, r.Ret)
}

// views compares every view method of the ABI on ctx with the native gRPC queries on the same state.
// Cached per state key.
func (cw *c11World) views(ctx sdk.Context, key [32]byte, accounts []common.Address) []string {
	var bad []string
	for _, a := range accounts {
		ck := key
		copy(ck[12:], a.Bytes())
		v, ok := cw.viewCache[ck]
		if !ok {
			v = cw.viewsOf(ctx, a)
			cw.viewCache[ck] = v
			cw.viewsRun++
		}
		bad = append(bad, v...)
	}
	return bad
}

// viewAccounts is the full set of accounts whose views are compared.
func (cw *c11World) viewAccounts() []common.Address {
	return []common.Address{cw.A.Eth(), cw.B.Eth(), c11C, c11D, cw.w.Validators[0].Eth(), cw.w.Validators[1].Eth(), c11U}
}

// constViews compares name / symbol / decimals with the stored metadata.
func (cw *c11World) constViews(ctx sdk.Context) []string {
	var bad []string
	fail := func(f string, a ...interface{}) { bad = append(bad, fmt.Sprintf(f, a...)) }
	meta := cw.w.App.CPCKeeper.GetCustomPrecompiledContractMeta(ctx, cw.stk)
	if out, err := cw.viewCall(ctx, "name"); err != nil || out[0].(string) != meta.Name {
		fail("name()=%v %v, metadata %q", out, err, meta.Name)
	}
	if out, err := cw.viewCall(ctx, "symbol"); err != nil || !strings.Contains(meta.TypedMeta, `"symbol":"`+out[0].(string)+`"`) {
		fail("symbol()=%v %v, metadata %s", out, err, meta.TypedMeta)
	}
	if out, err := cw.viewCall(ctx, "decimals"); err != nil || out[0].(uint8) != 18 {
		fail("decimals()=%v %v, want 18", out, err)
	}
	return bad
}

// viewsOf compares the account-dependent view methods for one account.
func (cw *c11World) viewsOf(ctx sdk.Context, a common.Address) []string {
	var bad []string
	fail := func(f string, a ...interface{}) { bad = append(bad, fmt.Sprintf(f, a...)) }
	num := func(method string, args ...interface{}) (*big.Int, error) {
		out, err := cw.viewCall(ctx, method, args...)
		if err != nil {
			return nil, err
		}
		return out[0].(*big.Int), nil
	}
	vals := []string{"V1", "V2", "V3", "VX"}
	{
		an := cw.name(a)
		// totalDelegationOf / delegatedValidators
		qc, _ := ctx.CacheContext()
		dd, err := cw.sQ.DelegatorDelegations(qc, &stakingtypes.QueryDelegatorDelegationsRequest{DelegatorAddr: c11AccStr(a)})
		if err != nil {
			panic(err)
		}
		sum := new(big.Int)
		for _, d := range dd.DelegationResponses {
			sum.Add(sum, d.Balance.Amount.BigInt())
		}
		// each native balance is truncated separately; a sum of exact values may exceed the sum of truncations by < #delegations
		hi := new(big.Int).Add(sum, big.NewInt(int64(len(dd.DelegationResponses))))
		if got, err := num("totalDelegationOf", a); err != nil {
			fail("totalDelegationOf(%s) failed: %v", an, err)
		} else if got.Cmp(sum) < 0 || got.Cmp(hi) > 0 {
			fail("totalDelegationOf(%s)=%s, native delegations sum to %s", an, got, sum)
		}
		dv, err := cw.sQ.DelegatorValidators(qc, &stakingtypes.QueryDelegatorValidatorsRequest{DelegatorAddr: c11AccStr(a)})
		if err != nil {
			panic(err)
		}
		var want []string
		for _, v := range dv.Validators {
			va, _ := sdk.ValAddressFromBech32(v.OperatorAddress)
			want = append(want, common.BytesToAddress(va).Hex())
		}
		sort.Strings(want)
		if out, err := cw.viewCall(ctx, "delegatedValidators", a); err != nil {
			fail("delegatedValidators(%s) failed: %v", an, err)
		} else {
			var got []string
			for _, x := range out[0].([]common.Address) {
				got = append(got, x.Hex())
			}
			sort.Strings(got)
			if strings.Join(got, ",") != strings.Join(want, ",") {
				fail("delegatedValidators(%s)=%v, native %v", an, got, want)
			}
		}
		// rewardsOf / balanceOf
		rc, _ := ctx.CacheContext()
		tr, err := cw.dQ.DelegationTotalRewards(rc, &distrtypes.QueryDelegationTotalRewardsRequest{DelegatorAddress: c11AccStr(a)})
		if err != nil {
			panic(err)
		}
		total := tr.Total.AmountOf(world.Denom).TruncateInt().BigInt()
		cw.shapes[c11RewardShape(tr)]++
		if got, err := num("rewardsOf", a); err != nil {
			fail("rewardsOf(%s) failed: %v", an, err)
		} else if got.Cmp(total) != 0 {
			fail("rewardsOf(%s)=%s, native %s", an, got, total)
		}
		br, err := cw.w.App.BankKeeper.Balance(ctx, &banktypes.QueryBalanceRequest{Address: c11AccStr(a), Denom: world.Denom})
		if err != nil {
			panic(err)
		}
		wantBal := new(big.Int).Add(br.Balance.Amount.BigInt(), total)
		if got, err := num("balanceOf", a); err != nil {
			fail("balanceOf(%s) failed: %v", an, err)
		} else if got.Cmp(wantBal) != 0 {
			fail("balanceOf(%s)=%s, native bank balance + rewards %s", an, got, wantBal)
		}
		for _, vn := range vals {
			v := cw.val(vn)
			want := cw.delegated(ctx, a, v)
			if got, err := num("delegationOf", a, v); err != nil {
				fail("delegationOf(%s,%s) failed: %v", an, vn, err)
			} else if got.Cmp(want) != 0 {
				fail("delegationOf(%s,%s)=%s, native %s", an, vn, got, want)
			}
			dc, _ := ctx.CacheContext()
			rr, nerr := cw.dQ.DelegationRewards(dc, &distrtypes.QueryDelegationRewardsRequest{DelegatorAddress: c11AccStr(a), ValidatorAddress: c11ValStr(v)})
			got, err := num("rewardOf", a, v)
			switch {
			case nerr != nil:
				// the native query has no number to report (no such delegation / validator): a revert or 0 are both faithful
				if err == nil && got.Sign() != 0 {
					fail("rewardOf(%s,%s)=%s, native query fails: %v", an, vn, got, nerr)
				}
			case err != nil:
				fail("rewardOf(%s,%s) failed: %v, native %s", an, vn, err, rr.Rewards)
			default:
				if w := rr.Rewards.AmountOf(world.Denom).TruncateInt().BigInt(); got.Cmp(w) != 0 {
					fail("rewardOf(%s,%s)=%s, native %s", an, vn, got, w)
				}
			}
		}
	}
	return bad
}

// c11RewardShape classifies the answer of the native DelegationTotalRewards query (never the precompile's): at how many
// validators the delegator has a pending reward in the bond denom, what the fractional parts of those per-validator
// amounts add up to (this decides whether "truncate the total" and "add up truncated parts" are different numbers), and
// how many denoms the total has. Used for coverage counters only.
func c11RewardShape(tr *distrtypes.QueryDelegationTotalRewardsResponse) string {
	n := 0
	fs := sdkmath.LegacyZeroDec()
	for _, r := range tr.Rewards {
		a := r.Reward.AmountOf(world.Denom)
		if a.IsZero() {
			continue
		}
		n++
		fs = fs.Add(a.Sub(a.TruncateDec()))
	}
	one, two := sdkmath.LegacyOneDec(), sdkmath.LegacyNewDec(2)
	var f string
	switch {
	case n == 0:
		f = "none"
	case fs.IsZero():
		f = "integers"
	case fs.LT(one):
		f = "fractions-sum<1"
	case fs.Equal(one):
		f = "fractions-sum=1"
	case fs.LT(two):
		f = "fractions-sum-in(1,2)"
	case fs.Equal(two):
		f = "fractions-sum=2"
	default:
		f = "fractions-sum>2"
	}
	return fmt.Sprintf("rewards-at-%d-validators/%s/%d-denoms", n, f, len(tr.Total))
}

// c11CoveredMethods is the ABI surface this check exercises; compared with the ABI json at start-up.
var c11CoveredMethods = []string{
	"balanceOf", "decimals", "delegate", "delegateByActionMessage", "delegatedValidators", "delegationOf", "name", "redelegate",
	"rewardOf", "rewardsOf", "symbol", "totalDelegationOf", "transfer", "undelegate", "withdrawReward", "withdrawRewards", "withdrawRewardsByMessage",
}

// check evaluates every clause on one transition. parentKey/parentViews describe the parent state.
func (cw *c11World) check(parent sdk.Context, parentKey [32]byte, parentAccts func(common.Address) string, st *c11Step) (bad []c11Bad, pKey [32]byte, class string) {
	fail := func(clause, f string, a ...interface{}) { bad = append(bad, c11Bad{clause, fmt.Sprintf(f, a...)}) }
	if st.Op.isEnv() {
		if st.EnvErr != nil {
			return nil, parentKey, "env-noop"
		}
		return nil, cw.stateKey(st.P), "env"
	}
	if st.Res.Panic != "" {
		fail("no-panic", "precompile call panicked: %s", st.Res.Panic)
		return bad, parentKey, "panic"
	}
	nOK := st.NErr == nil
	emptyTwin := !st.Twin.MustFail && len(st.Twin.Msgs) == 0
	pKey = parentKey
	switch {
	case st.Twin.MustFail:
		class = "must-fail"
		if st.POK {
			switch {
			case strings.Contains(st.Op.M, "Message"):
				fail("forged-signed-message-rejected", "accepted (%s)", st.Op.Sig)
			case st.Op.To == "other":
				fail("acts-only-for-caller", "transfer to another account succeeded")
			default:
				fail("success-equivalence", "succeeded although it has to fail: %s", st.Twin.Why)
			}
		}
	case emptyTwin:
		// nothing to withdraw: the native counterpart is the empty transaction; only effects are compared
		class = "nothing-to-do"
	case st.POK != nOK:
		class = "success-mismatch"
		fail("success-equivalence", "precompile ok=%v (%v), native ok=%v (%v)", st.POK, st.Res.Err, nOK, st.NErr)
	case st.POK:
		class = "ok"
	default:
		class = "both-fail"
	}
	if !st.POK || emptyTwin || st.Twin.MustFail {
		// the state must be the parent's (an EVM call advances the global account-number counter, which the key ignores)
		if len(st.Res.Logs) != 0 && !st.POK {
			fail("logs-match-events", "failed call left %d log(s)", len(st.Res.Logs))
		}
		if k := cw.stateKey(st.P); k != parentKey {
			if diffs, _ := cw.stateEquivalent(st.P, parent); len(diffs) > 0 {
				clause := "failing-call-changes-nothing"
				if emptyTwin && st.POK {
					clause = "state-equivalence"
				}
				fail(clause, "state differs from the parent: %s", c11Clip(strings.Join(diffs, " ; "), 500))
			}
			pKey = k
		}
		if st.POK && len(st.Res.Logs) != 0 {
			fail("logs-match-events", "logs without a native counterpart: %d", len(st.Res.Logs))
		}
		return bad, pKey, class
	}
	// P succeeded and a native counterpart exists
	pKey = cw.stateKey(st.P)
	if nOK {
		diffs, normalised := cw.stateEquivalent(st.P, st.N)
		if len(diffs) > 0 {
			fail("state-equivalence", "%s", c11Clip(strings.Join(diffs, " ; "), 700))
		}
		if normalised {
			class += "/period-renumbered"
		}
		// logs of P vs. module events of N (and P's own module events must be N's)
		want, nEvents := cw.expectedLogs(st.NEv, st.E)
		_, pEvents := cw.expectedLogs(st.PEv, st.E)
		got, malformed := cw.decodeLogs(st.Res.Logs)
		for _, m := range malformed {
			fail("logs-match-events", "%s", m)
		}
		if strings.Join(got, " ") != strings.Join(want, " ") {
			fail("logs-match-events", "logs %v, native module events give %v", got, want)
		}
		if strings.Join(pEvents, " ") != strings.Join(nEvents, " ") {
			fail("logs-match-events", "module events under the precompile %v, native %v", pEvents, nEvents)
		}
	}
	// acts only for its caller
	for _, a := range cw.tracked {
		if a == st.E {
			continue
		}
		if before, after := parentAccts(a), cw.acctView(st.P, a); before != after {
			fail("acts-only-for-caller", "caller %s changed %s: %s → %s", cw.name(st.E), cw.name(a), c11Clip(before, 300), c11Clip(after, 300))
		}
	}
	return bad, pKey, class
}

func c11Clip(s string, n int) string {
	if len(s) > n {
		return s[:n] + "…"
	}
	return s
}
