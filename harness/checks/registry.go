// Package checks holds one file per property.
package checks

// Registry maps property ids to their check; the argument is a replay file ("" = explore).
var Registry = map[string]func(replay string) int{}
