package checks

import (
	"encoding/json"
	"fmt"
	"os"
	"os/exec"
	"path/filepath"
	"sort"
	"strconv"
	"strings"
	"sync"

	"verif/harness/ev"
	"verif/harness/sched/logalpha"
)

// C20 — no user input or interleaving can crash a node or halt block production.
//
// Parts (a)–(d) (inputs through every ABCI phase, precompile call data and queries, consensus-parameter configurations,
// isolation of failing transactions) live in c20_abci.go and run in this binary. Part (e) — thread interleavings of the
// JSON-RPC event plumbing — is decided by the schedule explorer: /verif/bin/vsched is built by run.sh from the *current*
// sources of rpc/ethereum/pubsub and rpc/namespaces/ethereum/eth/filters through a generated overlay (cmd/instr) that
// redirects channels, select, go, sync and time to the cooperative scheduler of package vrt. This file runs vsched for
// every scenario, folds its counts into the evidence and turns failing schedules into findings with replayable choice lists.

func init() { Registry["C20"] = runC20 }

// hooks filled by c20_abci.go
var (
	c20ABCIHook       func(run *ev.Run)
	c20ABCIReplayHook func(raw json.RawMessage) []ev.Finding
)

type c20SchedFailure struct {
	Kind    string   `json:"kind"`
	Thread  string   `json:"thread"`
	Msg     string   `json:"msg"`
	Cost    int      `json:"cost"`
	Count   int      `json:"count"`
	Choices []int    `json:"choices"`
	Trace   []string `json:"trace"`
}

type c20SchedSummary struct {
	Scenario   string            `json:"scenario"`
	Desc       string            `json:"desc"`
	Bound      int               `json:"bound"`
	FreeSwitch bool              `json:"free_switch_at_block"`
	Horizon    int               `json:"horizon"`
	Executions int64             `json:"executions"`
	Steps      int64             `json:"steps"`
	ByCost     map[string]int64  `json:"executions_by_cost"`
	Outcomes   map[string]int64  `json:"outcomes"`
	Failures   []c20SchedFailure `json:"failures"`
	Capped     int64             `json:"capped_at_horizon"`
	Stopped    bool              `json:"stopped_by_budget"`
	Diverged   []string          `json:"diverged"`
	MaxLen     int               `json:"max_points"`
	WallS      float64           `json:"wall_s"`
	ReplayOK   int               `json:"replays_identical"`
	Sample     []string          `json:"sample_trace"`
}

type c20SchedReplay struct {
	Part       string `json:"part"` // "sched"
	Scenario   string `json:"scenario"`
	FreeSwitch bool   `json:"free_switch_at_block"`
	Horizon    int    `json:"horizon"`
	Choices    []int  `json:"choices"`
}

func vschedPath() string { return filepath.Join(ev.Root, "bin", "vsched") }

func c20StripLine(s string) string {
	// "consumeEvents@filter_system.go:85#2" -> "consumeEvents"
	if i := strings.Index(s, "@"); i > 0 {
		return s[:i]
	}
	if i := strings.LastIndex(s, "#"); i > 0 {
		return s[:i]
	}
	return s
}

// c20SchedSignature: defect-aware classification of a failing schedule.
func c20SchedSignature(f c20SchedFailure) string {
	msg := f.Msg
	if i := strings.Index(msg, " @ "); i > 0 {
		msg = msg[:i]
	}
	if f.Kind == "panic" && c20StripLine(f.Thread) == "consumeEvents" && msg == "send on closed channel" {
		return "C20/consume-events-send-on-closed-channel"
	}
	if f.Kind == "livelock" {
		return "" // never explained by a listed defect
	}
	return ""
}

type c20Plan struct {
	scenario   string
	bound      int
	freeSwitch bool
	maxExec    int
	need       string // non-vacuity: some explored schedule must end in an outcome class containing one of these (|-separated)
	single     bool   // small system: one vsched process; such plans run side by side instead of being sharded
}

func c20Plans(thorough bool) []c20Plan {
	var out []c20Plan
	names := []string{"S1", "S2", "S3", "S4", "S5", "S6-", "S7", "S8-", "S8b", "S9"}
	for _, n := range names {
		need := "got=1|:got"
		if n[1] >= '7' {
			need = "uninstalled=true"
		}
		b := 2
		if thorough {
			b = 3
		}
		if !thorough && n == "S3" {
			b = 2
		}
		pl := c20Plan{scenario: n, bound: b, need: need}
		if thorough && (n == "S3" || n == "S8b" || n == "S9") {
			pl.maxExec = 300000 // per worker process; when hit the evidence says exhaustive: false for this scenario
		}
		out = append(out, pl)
	}
	// S10.*: one scenario per log-filter criteria of the scheduler alphabet (logalpha.SchedCriteriaPatterns) against a receipt with logs of
	// every shape; the criteria does not change the schedule tree (FilterLogs has no scheduling point), so the family is the product
	// criteria x schedules. need: in some schedule the poll returns logs, i.e. the receipt went through the filter goroutine.
	patterns, _ := logalpha.SchedCriteriaPatterns()
	for k := range patterns {
		pl := c20Plan{scenario: logalpha.CriteriaScenarioName(k), bound: 1, need: "client:matched", single: true}
		if thorough {
			pl.bound, pl.single = 2, false
		}
		out = append(out, pl)
	}
	if thorough {
		for _, k := range []int{0, len(patterns) - 1} {
			out = append(out, c20Plan{scenario: logalpha.CriteriaScenarioName(k), bound: 3, need: "client:matched", maxExec: 300000})
		}
	}
	if thorough {
		// CHESS cost model (switching is free whenever the running thread blocks) on the smallest systems
		out = append(out, c20Plan{scenario: "S1", bound: 0, freeSwitch: true, need: "got="}, c20Plan{scenario: "S6-", bound: 1, freeSwitch: true, need: ":got|topics-after"})
	}
	return out
}

func c20Sched(run *ev.Run) {
	bin := vschedPath()
	if _, err := os.Stat(bin); err != nil {
		fmt.Fprintf(os.Stderr, "HARNESS: %s is missing (run.sh builds it)\n", bin)
		os.Exit(2)
	}
	var schedules, steps, states int64
	exhaustive := true
	var planDesc []string
	plans := c20Plans(run.Thorough())
	runPlan := func(p c20Plan) c20SchedSummary {
		shards := Shards()
		if p.single {
			shards = 1
		}
		args := []string{"-scenario", p.scenario, "-bound", strconv.Itoa(p.bound), "-shards", strconv.Itoa(shards), fmt.Sprintf("-free-switch=%v", p.freeSwitch)}
		if p.maxExec > 0 {
			args = append(args, "-max-exec", strconv.Itoa(p.maxExec))
		}
		cmd := exec.Command(bin, args...)
		cmd.Stderr = os.Stderr
		out, err := cmd.Output()
		if err != nil {
			fmt.Fprintf(os.Stderr, "HARNESS: vsched %v failed: %v\n", args, err)
			os.Exit(2)
		}
		var s c20SchedSummary
		if err := json.Unmarshal(out, &s); err != nil {
			fmt.Fprintf(os.Stderr, "HARNESS: vsched output unreadable: %v\n", err)
			os.Exit(2)
		}
		return s
	}
	// the single-process plans run side by side (at most Shards() at a time), the others one after the other on all cores
	sums := make([]c20SchedSummary, len(plans))
	{
		var wg sync.WaitGroup
		sem := make(chan struct{}, Shards())
		for i, p := range plans {
			if !p.single {
				continue
			}
			wg.Add(1)
			go func(i int, p c20Plan) {
				defer wg.Done()
				sem <- struct{}{}
				sums[i] = runPlan(p)
				<-sem
			}(i, p)
		}
		wg.Wait()
	}
	for i, p := range plans {
		if !p.single {
			sums[i] = runPlan(p)
		}
		s := sums[i]
		if len(s.Diverged) > 0 {
			fmt.Fprintf(os.Stderr, "HARNESS-NONDETERMINISM: vsched %s: %s\n", s.Scenario, s.Diverged[0])
			os.Exit(2)
		}
		model := "deviation"
		if p.freeSwitch {
			model = "preemption(CHESS)"
		}
		planDesc = append(planDesc, fmt.Sprintf("%s: %s bound %d, %d schedules, %d steps, %d outcome classes, longest %d points", s.Scenario, model, p.bound, s.Executions, s.Steps, len(s.Outcomes), s.MaxLen))
		schedules += s.Executions
		steps += s.Steps
		if s.Capped > 0 || s.Stopped {
			exhaustive = false
			run.Note("sched %s: %d executions capped at the horizon of %d points, stopped by budget: %v", s.Scenario, s.Capped, s.Horizon, s.Stopped)
		}
		delivered := false
		var ocs []string
		for oc, n := range s.Outcomes {
			states++
			ocs = append(ocs, oc)
			run.Distinct("sched:" + s.Scenario + ":" + oc)
			if strings.Contains(oc, "filter-semantics-differ-from-reference") {
				// information: C20 is about crashes, not about which logs a filter returns
				run.Count("sched_filter_semantics_differences", n)
			}
			for i := int64(0); i < n && i < 1; i++ {
				run.Outcome("sched:" + c20OutcomeClass(oc))
			}
			if strings.HasPrefix(oc, "FAIL:") {
				// a failing schedule is reported below; the non-vacuity demand is about runs in which nothing fails
				delivered = true
			}
			for _, want := range strings.Split(p.need, "|") {
				if want != "" && strings.Contains(oc, want) {
					delivered = true
				}
			}
		}
		sort.Strings(ocs)
		if !delivered {
			// non-vacuity: in some explored schedule a subscriber must actually receive an event
			fmt.Fprintf(os.Stderr, "HARNESS: sched %s is vacuous: no explored schedule reaches an outcome containing %q (%v)\n", s.Scenario, p.need, ocs)
			os.Exit(2)
		}
		if p.scenario == "S1" && !p.freeSwitch {
			run.Sample(map[string]interface{}{"scenario": s.Scenario, "desc": s.Desc, "default_schedule": s.Sample})
		}
		for _, f := range s.Failures {
			rp := c20SchedReplay{Part: "sched", Scenario: s.Scenario, FreeSwitch: s.FreeSwitch, Horizon: s.Horizon, Choices: f.Choices}
			for i := 0; i < f.Count; i++ {
				d := ""
				if i == 0 {
					d = fmt.Sprintf("scenario %s (%s): %s in goroutine %s: %s; %d deviation(s) from the default schedule, %d failing schedules within the bound; trace tail: %s",
						s.Scenario, s.Desc, f.Kind, f.Thread, f.Msg, f.Cost, f.Count, strings.Join(tail(f.Trace, 12), " | "))
				}
				run.Fail(ev.Finding{Clause: "no-interleaving-crashes-or-deadlocks", Signature: c20SchedSignature(f), Detail: d, Replay: rp})
				if i >= 25 {
					// counted occurrences beyond the retained ones are summarised by the first detail
					break
				}
			}
		}
	}
	run.Count("sched_schedules", schedules)
	run.Count("sched_steps", steps)
	run.Count("sched_outcome_states", states)
	run.Coverage["sched_plan"] = planDesc
	if !exhaustive {
		run.Coverage["exhaustive"] = false
	}
}

func c20OutcomeClass(oc string) string {
	if strings.HasPrefix(oc, "FAIL:") {
		if i := strings.Index(oc, " |"); i > 0 {
			return oc[:i]
		}
		return oc
	}
	if i := strings.Index(oc, " | blocked:"); i > 0 {
		return oc[:i]
	}
	return oc
}

func tail(s []string, n int) []string {
	if len(s) <= n {
		return s
	}
	return s[len(s)-n:]
}

func c20SchedReplayRun(r c20SchedReplay) []ev.Finding {
	var cs []string
	for _, c := range r.Choices {
		cs = append(cs, strconv.Itoa(c))
	}
	args := []string{"-scenario", r.Scenario, fmt.Sprintf("-free-switch=%v", r.FreeSwitch), "-replay", strings.Join(cs, ",")}
	if r.Horizon > 0 {
		args = append(args, "-horizon", strconv.Itoa(r.Horizon))
	}
	cmd := exec.Command(vschedPath(), args...)
	out, err := cmd.CombinedOutput()
	fmt.Print(string(out))
	if err == nil {
		return nil
	}
	if ee, ok := err.(*exec.ExitError); ok && ee.ExitCode() == 1 {
		line := ""
		for _, l := range strings.Split(string(out), "\n") {
			if strings.HasPrefix(l, "FAILURE") {
				line = l
			}
		}
		return []ev.Finding{{Clause: "no-interleaving-crashes-or-deadlocks", Detail: line}}
	}
	// the recorded schedule no longer exists in the current code (diverged): not a failure of the property
	fmt.Println("replay: the recorded schedule does not exist in the current sources (choice list diverged)")
	return nil
}

func runC20(replay string) int {
	if spec := os.Getenv("VERIF_C20_LIVE"); spec != "" {
		c20LiveChild(spec) // child process of part (f-live), see c20_filters_live.go; never returns
	}
	if spec := os.Getenv(c20TraceEnv); spec != "" {
		c20TraceChild(spec) // child process of part (q-trace), see c20_trace_live.go; never returns
	}
	run := ev.NewRun("C20", "model_checking")
	if replay != "" {
		return replayCase(run, replay, func(raw json.RawMessage) []ev.Finding {
			var probe struct {
				Part string `json:"part"`
			}
			_ = json.Unmarshal(raw, &probe)
			if probe.Part == "sched" {
				var r c20SchedReplay
				if err := json.Unmarshal(raw, &r); err != nil {
					return []ev.Finding{{Clause: "replay-file", Detail: err.Error()}}
				}
				return c20SchedReplayRun(r)
			}
			if c20ABCIReplayHook != nil {
				return c20ABCIReplayHook(raw)
			}
			return []ev.Finding{{Clause: "replay-file", Detail: "unknown replay part"}}
		})
	}
	if c20ABCIHook != nil {
		c20ABCIHook(run) // contains the process sharding; worker processes never return from it
	}
	c20Sched(run)
	run.Coverage["states"] = int(run.Counter("sched_outcome_states")) + run.NumDistinct()
	run.Coverage["transitions"] = int(run.Counter("sched_steps") + run.Counter("abci_calls"))
	run.Coverage["traces_validated_against_impl"] = int(run.Counter("sched_schedules") + run.Counter("inputs"))
	if _, ok := run.Coverage["exhaustive"]; !ok {
		run.Coverage["exhaustive"] = true
	}
	abciRule := ""
	if c20ABCIHook != nil {
		abciRule = c20ABCIRule(run.Thorough()) + " || "
	}
	run.Coverage["rule"] = abciRule + "(e) schedules: for each closed scenario of the real EventSystem + event bus (drivers: subscribers, deliverer; code threads: eventLoop, consumeEvents, publishTopic, Unsubscribe goroutines) every schedule with at most B deviations " +
		"from the default schedule (default: keep running the current thread, lowest id when it blocks; a deviation is any other pick, a non-first ready select case / rendezvous partner, or a timer firing before quiescence) is executed to quiescence on the code compiled from the current sources; " +
		"log subscriptions / filters carry criteria of the alphabet {addresses none|[A]} x {topics lists of <= 3 positions, position i wildcard or [P_i]} (S10.k: one closed system per criteria; S1-S5, S9: one criteria each, wildcards before constrained positions included) and the delivered Ethereum tx events carry receipts whose logs have 0..4 topics with the asked / a foreign value per position; " +
		"states = distinct terminal outcome classes (+ distinct input/outcome classes of parts a-d), transitions = scheduled steps (+ ABCI calls); (a)-(d): see counters"
	run.Assumptions = []string{"map accesses of the instrumented packages are checked for happens-before ordering with vector clocks (locks, channel operations, spawn, WaitGroup); other unsynchronised memory accesses are invisible to a cooperative scheduler",
		"the scheduler does not drive rpc/websockets.go and the geth rpc.Notifier based subscription methods of filters/api.go (Logs, NewHeads, NewPendingTransactions); eth_subscribe(logs) of rpc/websockets.go and eth_newFilter are driven free running in child processes (part f-live, one arbitrary schedule per input); the Notifier based methods are unreachable in a node (go-ethereum's rpc.Server is served over HTTP only) and their filtering code is covered through the function they share (filters.FilterLogs, part f-grid)", "CometBFT's websocket client is replaced by a shim exposing ResponsesCh / Subscribe / Unsubscribe"}
	return run.Finish()
}
