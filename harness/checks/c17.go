package checks

import (
	"encoding/json"
	"fmt"
	"math/big"
	"os"
	"sort"
	"strings"

	storetypes "cosmossdk.io/store/types"
	sdk "github.com/cosmos/cosmos-sdk/types"
	authtypes "github.com/cosmos/cosmos-sdk/x/auth/types"
	govtypes "github.com/cosmos/cosmos-sdk/x/gov/types"
	"github.com/ethereum/go-ethereum/common"
	"github.com/ethereum/go-ethereum/common/hexutil"
	ethtypes "github.com/ethereum/go-ethereum/core/types"
	corevm "github.com/ethereum/go-ethereum/core/vm"
	ethcrypto "github.com/ethereum/go-ethereum/crypto"

	cpckeeper "github.com/EscanBE/evermint/v12/x/cpc/keeper"
	cpctypes "github.com/EscanBE/evermint/v12/x/cpc/types"
	evmtypes "github.com/EscanBE/evermint/v12/x/evm/types"
	evmvm "github.com/EscanBE/evermint/v12/x/evm/vm"

	"verif/harness/asm"
	"verif/harness/ev"
	"verif/harness/world"
)

func init() { Registry["C17"] = runC17 }

// c17Op is one registry operation.
type c17Op struct {
	Kind      string   `json:"kind"`                // deploy-erc20 | deploy-staking | update-params | set-meta
	Authority string   `json:"authority,omitempty"` // W (whitelisted candidate) | X (never whitelisted) | gov
	Denom     string   `json:"denom,omitempty"`
	Name      string   `json:"name,omitempty"`
	Symbol    string   `json:"symbol,omitempty"`
	Decimals  uint32   `json:"decimals,omitempty"`
	Whitelist []string `json:"whitelist,omitempty"` // names
	Version   uint32   `json:"version,omitempty"`
	Target    int      `json:"target,omitempty"`   // set-meta: index into the sorted list of registered contracts
	Disabled  bool     `json:"disabled,omitempty"` // set-meta
	NewType   uint32   `json:"new_type,omitempty"` // set-meta: 0 = keep
}

func (o c17Op) String() string {
	bz, _ := json.Marshal(o)
	return string(bz)
}

type c17World struct {
	w     *world.World
	root  sdk.Context
	ms    cpctypes.MsgServer
	gov   string
	obs   func(class string) // optional: receives the class of every exposure observation
	cands []string           // order pass: bech32 strings of the candidates D0…, ascending
}

type c17Case struct {
	Erc20   bool    `json:"deploy_erc20_at_genesis"`
	Staking bool    `json:"deploy_staking_at_genesis"`
	WlGen   bool    `json:"whitelist_at_genesis"`
	Path    []c17Op `json:"path"`
	// Ghost, when set, is executed on a branch of the state reached by Path[:len-1] that is thrown away before the last
	// operation of Path runs on that state (a failed transaction, a simulation, a check-state run).
	Ghost *c17Op `json:"ghost,omitempty"`
	// Scale, when set, names a state of the scale pass (c17_scale.go): a registry grown to N contracts with a pattern of
	// disabled ones.
	Scale *c17Scale `json:"scale,omitempty"`
	// Cands > 0 (order pass, c17_order.go): that many candidate deployer accounts exist, named D0… by the rank of their
	// bech32 strings; GenWl is the whitelist at genesis (names).
	Cands int      `json:"deployer_candidates,omitempty"`
	GenWl []string `json:"genesis_whitelist,omitempty"`
}

func c17Setup(c c17Case) *c17World {
	cfg := world.Config{NumWallets: 2, DeployErc20: c.Erc20, DeployStaking: c.Staking}
	if c.WlGen {
		cfg.CpcWhitelist = []string{world.NewAcct("wal1").Bech()}
	}
	var cands []string
	if c.Cands > 0 {
		cands = c17Cands(c.Cands)
		cfg.CpcWhitelist = []string{}
		for _, n := range c.GenWl {
			var i int
			if _, err := fmt.Sscanf(n, "D%d", &i); err != nil || i < 0 || i >= len(cands) {
				panic("genesis whitelist name " + n)
			}
			cfg.CpcWhitelist = append(cfg.CpcWhitelist, cands[i])
		}
	}
	if c.Scale != nil {
		// one denomination with genesis supply per contract to deploy, all held by a bystander account (the accounts that
		// send the probes keep their three-denomination balances)
		var coins sdk.Coins
		for _, d := range c17ScaleDenoms(c.Scale.N) {
			coins = coins.Add(sdk.NewInt64Coin(d, 1_000_000))
		}
		holder := sdk.AccAddress(common.HexToAddress("0x00000000000000000000000000000000005ca1e0").Bytes())
		cfg.Extra = []world.ExtraAccount{{Account: authtypes.NewBaseAccountWithAddress(holder), Coins: coins}}
	}
	w := world.New(cfg)
	w.Block(nil)
	return &c17World{w: w, root: w.Ctx(), ms: cpckeeper.NewMsgServerImpl(w.App.CPCKeeper), gov: authtypes.NewModuleAddress(govtypes.ModuleName).String(), cands: cands}
}

func (cw *c17World) auth(name string) string {
	switch name {
	case "W":
		return cw.w.Wallets[0].Bech()
	case "X":
		return cw.w.Wallets[1].Bech()
	case "gov":
		return cw.gov
	}
	var i int
	if _, err := fmt.Sscanf(name, "D%d", &i); err == nil && i >= 0 && i < len(cw.cands) {
		return cw.cands[i]
	}
	panic("authority " + name)
}

// metas is the reference set of registrations: every record under the metadata prefix of the cpc KV store seen through
// ctx, read with a raw iterator and decoded with the codec (never through the keeper's own listing, which is what feeds
// the EVM and therefore part of what is under test), in address (= key) order.
func (cw *c17World) metas(ctx sdk.Context) []cpctypes.CustomPrecompiledContractMeta {
	ms, _ := cw.storedMetas(ctx)
	return ms
}

// storedMetas also reports records whose key does not match the address inside the record.
func (cw *c17World) storedMetas(ctx sdk.Context) (ms []cpctypes.CustomPrecompiledContractMeta, badKeys []string) {
	it := storetypes.KVStorePrefixIterator(ctx.KVStore(cw.w.Keys[cpctypes.StoreKey]), cpctypes.KeyPrefixCustomPrecompiledContractMeta)
	defer it.Close()
	for ; it.Valid(); it.Next() {
		var m cpctypes.CustomPrecompiledContractMeta
		cw.w.Enc.Codec.MustUnmarshal(it.Value(), &m)
		if k := it.Key()[len(cpctypes.KeyPrefixCustomPrecompiledContractMeta):]; string(k) != string(m.Address) {
			badKeys = append(badKeys, fmt.Sprintf("key %x holds the record of %x", k, m.Address))
		}
		ms = append(ms, m)
	}
	sort.SliceStable(ms, func(i, j int) bool { return string(ms[i].Address) < string(ms[j].Address) })
	return ms, badKeys
}

// exec applies op on a branch; a refused operation returns the parent state untouched (as a failed tx would).
func (cw *c17World) exec(parent sdk.Context, op c17Op) (ctx sdk.Context, ok bool, errMsg string) {
	ctx, _ = parent.CacheContext()
	defer func() {
		if r := recover(); r != nil {
			// a panic inside a message handler is turned into a tx failure by baseapp: state discarded
			ctx, _ = parent.CacheContext()
			ok, errMsg = false, "panic: "+fmt.Sprint(r)
		}
	}()
	var err error
	switch op.Kind {
	case "deploy-erc20":
		msg := &cpctypes.MsgDeployErc20ContractRequest{Authority: cw.auth(op.Authority), Name: op.Name, Symbol: op.Symbol, Decimals: op.Decimals, MinDenom: op.Denom}
		if err = msg.ValidateBasic(); err == nil {
			_, err = cw.ms.DeployErc20Contract(ctx, msg)
		}
	case "deploy-staking":
		msg := &cpctypes.MsgDeployStakingContractRequest{Authority: cw.auth(op.Authority), Symbol: op.Symbol, Decimals: op.Decimals}
		if err = msg.ValidateBasic(); err == nil {
			_, err = cw.ms.DeployStakingContract(ctx, msg)
		}
	case "update-params":
		var wl []string
		for _, n := range op.Whitelist {
			wl = append(wl, cw.auth(n))
		}
		msg := &cpctypes.MsgUpdateParams{Authority: cw.auth(op.Authority), NewParams: cpctypes.Params{ProtocolVersion: op.Version, WhitelistedDeployers: wl}}
		_, err = cw.ms.UpdateParams(ctx, msg)
	case "set-meta":
		ms := cw.metas(ctx)
		if op.Target >= len(ms) {
			return parent, false, "no such contract"
		}
		m := ms[op.Target]
		m.Disabled = op.Disabled
		if op.NewType != 0 && op.NewType != m.CustomPrecompiledType {
			m.CustomPrecompiledType = op.NewType
			// metadata that is valid for the new type, so that only the type rule can refuse the change
			switch op.NewType {
			case cpctypes.CpcTypeBech32:
				m.TypedMeta = cpctypes.EmptyTypedMeta
			case cpctypes.CpcTypeErc20:
				m.TypedMeta = `{"symbol":"ZZ","decimals":6,"min_denom":"uthree"}`
			case cpctypes.CpcTypeStaking:
				m.TypedMeta = `{"symbol":"STK","decimals":18}`
			}
		}
		err = cw.w.App.CPCKeeper.SetCustomPrecompiledContractMeta(ctx, m, false)
	default:
		panic("kind " + op.Kind)
	}
	if err != nil {
		ctx, _ = parent.CacheContext()
		return ctx, false, err.Error()
	}
	return ctx, true, ""
}

// viewData is a read-only call every precompile type answers with non-empty data.
func viewData(t uint32) []byte {
	if t == cpctypes.CpcTypeBech32 {
		return Sel("bech32AccountAddrPrefix()")
	}
	return Sel("name()")
}

// invariants evaluates the registry invariants and the exposure oracle (for every registered contract) in one state.
func (cw *c17World) invariants(parent, ctx sdk.Context, op *c17Op, okOp bool) (bad []struct{ clause, sig, detail string }) {
	return cw.invariantsAt(parent, ctx, op, okOp, nil)
}

// abiString is the ABI encoding of a single string return value.
func abiString(s string) []byte {
	out := append(Word(big.NewInt(32)), Word(big.NewInt(int64(len(s))))...)
	return append(out, common.RightPadBytes([]byte(s), (len(s)+31)/32*32)...)
}

// invariantsAt is invariants with the exposure oracle restricted to the registered contracts at the positions sel (in
// address order; nil = every registered contract) and their unregistered successors; the registry invariants always
// cover the whole registry.
func (cw *c17World) invariantsAt(parent, ctx sdk.Context, op *c17Op, okOp bool, sel map[int]bool) (bad []struct{ clause, sig, detail string }) {
	fail := func(clause, sig, f string, a ...interface{}) {
		bad = append(bad, struct{ clause, sig, detail string }{clause, sig, fmt.Sprintf(f, a...)})
	}
	obs := func(class string) {
		if cw.obs != nil {
			cw.obs(class)
		}
	}
	k := cw.w.App.CPCKeeper
	metas, badKeys := cw.storedMetas(ctx)
	for _, bk := range badKeys {
		fail("addresses-unique", "", "%s", bk)
	}
	seen := map[common.Address]bool{}
	byDenom := map[string][]common.Address{}
	for _, m := range metas {
		a := common.BytesToAddress(m.Address)
		if seen[a] {
			fail("addresses-unique", "", "address %s registered twice", a.Hex())
		}
		seen[a] = true
		if stored := k.GetCustomPrecompiledContractMeta(ctx, a); stored == nil {
			fail("addresses-unique", "", "meta of %s not retrievable by its address", a.Hex())
		}
		if m.CustomPrecompiledType == cpctypes.CpcTypeErc20 {
			var em cpctypes.Erc20CustomPrecompiledContractMeta
			if err := json.Unmarshal([]byte(m.TypedMeta), &em); err != nil {
				fail("metadata-wellformed", "", "%s: %v", a.Hex(), err)
				continue
			}
			byDenom[em.MinDenom] = append(byDenom[em.MinDenom], a)
			if !cw.w.App.BankKeeper.GetSupply(ctx, em.MinDenom).IsPositive() {
				fail("erc20-only-for-positive-supply", "", "ERC-20 %s for denom %q without supply", a.Hex(), em.MinDenom)
			}
		}
	}
	for d, as := range byDenom {
		if len(as) > 1 {
			fail("one-erc20-per-denom", "", "denom %q has %d ERC-20 precompiles", d, len(as))
		}
		idx := k.GetErc20CustomPrecompiledContractAddressByMinDenom(ctx, d)
		if idx == nil || *idx != as[0] {
			fail("denom-index-matches-metadata", "", "index[%q]=%v, metadata says %s", d, idx, as[0].Hex())
		}
	}
	// every index entry must point to metadata of that denom
	it := storetypes.KVStorePrefixIterator(ctx.KVStore(cw.w.Keys[cpctypes.StoreKey]), cpctypes.KeyPrefixErc20CpcDenomToAddress)
	for ; it.Valid(); it.Next() {
		d := string(it.Key()[len(cpctypes.KeyPrefixErc20CpcDenomToAddress):])
		a := common.BytesToAddress(it.Value())
		if as := byDenom[d]; len(as) != 1 || as[0] != a {
			fail("denom-index-matches-metadata", "", "index entry %q→%s has no matching metadata", d, a.Hex())
		}
	}
	it.Close()
	// monotonicity against the parent state
	pm := map[common.Address]cpctypes.CustomPrecompiledContractMeta{}
	for _, m := range cw.metas(parent) {
		pm[common.BytesToAddress(m.Address)] = m
	}
	for _, m := range metas {
		if p, ok := pm[common.BytesToAddress(m.Address)]; ok && p.CustomPrecompiledType != m.CustomPrecompiledType {
			fail("type-never-changes", "", "%s: %d -> %d", common.BytesToAddress(m.Address).Hex(), p.CustomPrecompiledType, m.CustomPrecompiledType)
		}
	}
	for a := range pm {
		if !seen[a] {
			fail("registered-contract-never-disappears", "", "%s", a.Hex())
		}
	}
	if pv, nv := cw.storedParams(parent).ProtocolVersion, cw.storedParams(ctx).ProtocolVersion; nv < pv {
		fail("protocol-version-never-decreases", "", "%d -> %d", pv, nv)
	}
	if nv := cw.storedParams(ctx).ProtocolVersion; nv == 0 || nv > uint32(cpctypes.LatestProtocolCpc) {
		fail("protocol-version-valid", "", "%d", nv)
	}
	// deployment authority
	if op != nil && okOp && (op.Kind == "deploy-erc20" || op.Kind == "deploy-staking") {
		allowed := false
		for _, wl := range cw.storedParams(parent).WhitelistedDeployers {
			if wl == cw.auth(op.Authority) {
				allowed = true
			}
		}
		if !allowed {
			fail("only-whitelisted-deployers", "", "%s deployed while the whitelist was %v", op.Authority, cw.storedParams(parent).WhitelistedDeployers)
		}
	}
	if op != nil && okOp && op.Kind == "update-params" && op.Authority != "gov" {
		fail("only-governance-updates-params", "", "%s", op.Authority)
	}
	// exposure: exactly the registered enabled contracts answer, in every execution mode
	cands := map[common.Address]*cpctypes.CustomPrecompiledContractMeta{}
	pos := map[common.Address]int{} // 1-based position in address order; of the predecessor for an unregistered successor
	for i := range metas {
		if sel != nil && !sel[i] {
			continue
		}
		a := common.BytesToAddress(metas[i].Address)
		pos[a] = i + 1
		cands[a] = &metas[i]
		plus := common.BigToAddress(new(bigIntT).Add(new(bigIntT).SetBytes(a.Bytes()), bigOne))
		if !seen[plus] {
			cands[plus] = nil
			pos[plus] = i + 1
		}
	}
	b, _ := ctx.CacheContext()
	seq := cw.w.App.AccountKeeper.GetModuleAccount(b, cpctypes.ModuleName).GetSequence()
	next := ethcrypto.CreateAddress(cpctypes.CpcModuleAddress, seq)
	if !seen[next] {
		cands[next] = nil
	}
	for _, fixed := range []common.Address{cpctypes.CpcStakingFixedAddress, cpctypes.CpcBech32FixedAddress, common.HexToAddress("0x00000000000000000000000000000000000f00d0")} {
		if !seen[fixed] {
			cands[fixed] = nil
		}
	}
	var addrs []common.Address
	for a := range cands {
		addrs = append(addrs, a)
	}
	sort.Slice(addrs, func(i, j int) bool { return addrs[i].Hex() < addrs[j].Hex() })
	for _, a := range addrs {
		m := cands[a]
		want := m != nil && !m.Disabled
		for _, t := range []uint32{cpctypes.CpcTypeErc20, cpctypes.CpcTypeBech32} {
			if m != nil && (m.CustomPrecompiledType == cpctypes.CpcTypeBech32) != (t == cpctypes.CpcTypeBech32) {
				continue
			}
			data := viewData(t)
			for _, mode := range []string{"deliver", "check", "recheck", "ethcall", "create", "ethcall-create"} {
				ret, err := cw.probe(ctx, mode, a, data)
				answered := len(ret) > 0
				if answered != want {
					sig := ""
					if m != nil && m.Disabled && answered {
						sig = "C17/disabled-contract-still-callable"
					}
					fail("exactly-registered-enabled-contracts-callable", sig, "%s (registered=%v disabled=%v; %d contracts registered, this one at or after #%d in address order) in %s mode: answered=%v err=%v", a.Hex(), m != nil, m != nil && m.Disabled, len(metas), pos[a], mode, answered, err)
					obs("exposure/wrong")
					continue
				}
				switch {
				case m == nil:
					obs("exposure/unregistered-silent")
				case m.Disabled:
					obs("exposure/disabled-silent")
				default:
					obs("exposure/enabled-answers")
					// the answer is the answer of the contract registered at that very address: name() of an ERC-20 /
					// staking precompile is the name in its stored record
					if m.CustomPrecompiledType != cpctypes.CpcTypeBech32 && string(ret) != string(abiString(m.Name)) {
						fail("exactly-registered-enabled-contracts-callable", "", "%s in %s mode answers name() with %x, its stored record says %q", a.Hex(), mode, ret, m.Name)
					}
				}
			}
		}
	}
	return bad
}

// storedParams reads the module parameters straight from the KV store seen through ctx (the oracle must not trust the
// keeper's own accessor: the governance-controlled whitelist is what the store of that state says).
func (cw *c17World) storedParams(ctx sdk.Context) (p cpctypes.Params) {
	bz := ctx.KVStore(cw.w.Keys[cpctypes.StoreKey]).Get(cpctypes.KeyPrefixParams)
	if len(bz) != 0 {
		cw.w.Enc.Codec.MustUnmarshal(bz, &p)
	}
	return p
}

// probe returns what a view call to a answers in one execution mode (nil: nothing, or the call failed).
func (cw *c17World) probe(ctx sdk.Context, mode string, a common.Address, data []byte) (answer []byte, err error) {
	b, _ := ctx.CacheContext()
	from := cw.w.Wallets[1].Eth()
	// constructor code that STATICCALLs the candidate with the view call data and installs the answer as runtime code:
	// a creation message is an execution mode of its own (the EVM is built for a message without a recipient)
	initCode := asm.New().CallData(asm.KStaticCall, a, 0, 0, data).ReturnLastReturnData().Bytes()
	switch mode {
	case "create":
		defer func() {
			if r := recover(); r != nil {
				answer, err = nil, fmt.Errorf("panic: %v", r)
			}
		}()
		k := cw.w.App.EvmKeeper
		cfg, e := k.EVMConfig(b, nil)
		if e != nil {
			return nil, e
		}
		zero := new(bigIntT)
		msg := ethtypes.NewMessage(from, nil, cw.w.Nonce(b, from), zero, 300_000, zero, zero, zero, initCode, nil, true)
		sdb := evmvm.NewStateDB(b, cfg.CoinBase, k, cw.w.App.AccountKeeper, cw.w.App.BankKeeper)
		evm := k.NewEVM(b, msg, cfg, evmtypes.NewNoOpTracer(), sdb)
		code, _, _, e := evm.Create(corevm.AccountRef(from), initCode, 300_000, zero)
		if e != nil {
			return nil, e
		}
		return code, nil
	case "ethcall-create":
		args, _ := json.Marshal(evmtypes.TransactionArgs{From: &from, Data: (*hexutil.Bytes)(&initCode)})
		res, e := cw.w.App.EvmKeeper.EthCall(b, &evmtypes.EthCallRequest{Args: args, GasCap: 1_000_000})
		if e != nil {
			return nil, e
		}
		if res.VmError != "" {
			return nil, fmt.Errorf("%s", res.VmError)
		}
		return res.Ret, nil
	case "deliver":
	case "check":
		b = b.WithIsCheckTx(true)
	case "recheck":
		b = b.WithIsCheckTx(true).WithIsReCheckTx(true)
	case "ethcall":
		args, _ := json.Marshal(evmtypes.TransactionArgs{From: &from, To: &a, Data: (*hexutil.Bytes)(&data)})
		res, e := cw.w.App.EvmKeeper.EthCall(b, &evmtypes.EthCallRequest{Args: args, GasCap: 1_000_000})
		if e != nil {
			return nil, e
		}
		if res.VmError != "" {
			return nil, fmt.Errorf("%s", res.VmError)
		}
		return res.Ret, nil
	}
	r := CallEVM(cw.w, b, from, a, data, nil, 200_000)
	if r.Panic != "" {
		return nil, fmt.Errorf("panic: %s", r.Panic)
	}
	if r.Err != nil {
		return nil, r.Err
	}
	return r.Ret, nil
}

func c17Alphabet(thorough bool) []c17Op {
	var ops []c17Op
	for _, v := range []uint32{1, 0, 2} {
		for _, wl := range [][]string{{"W"}, nil, {"W", "X"}} {
			if len(wl) == 2 && !thorough {
				continue
			}
			for _, au := range []string{"gov", "X"} {
				ops = append(ops, c17Op{Kind: "update-params", Authority: au, Whitelist: wl, Version: v})
			}
		}
	}
	type meta struct {
		name, sym string
		dec       uint32
	}
	metas := []meta{{"Tok", "TK", 6}, {"Tok", "TK", 18}, {"", "TK", 6}, {"Tok", "", 6}, {"Tok", "TK", 19}, {"Tok", "TK", 0}, {"Tok", "TK", 262}, {"Tok", "wei", 6}}
	for _, au := range []string{"W", "X", "gov"} {
		for _, d := range []string{"wei", "utwo", "unone", "", " wei"} {
			for i, m := range metas {
				if !thorough && i > 1 && !(au == "W" && d == "utwo") {
					continue // boundary metadata only for the combination that otherwise succeeds
				}
				ops = append(ops, c17Op{Kind: "deploy-erc20", Authority: au, Denom: d, Name: m.name, Symbol: m.sym, Decimals: m.dec})
			}
		}
		for _, m := range []meta{{"", "STK", 18}, {"", "", 18}, {"", "STK", 19}} {
			ops = append(ops, c17Op{Kind: "deploy-staking", Authority: au, Symbol: m.sym, Decimals: m.dec})
		}
	}
	for t := 0; t < 4; t++ {
		ops = append(ops, c17Op{Kind: "set-meta", Target: t, Disabled: true}, c17Op{Kind: "set-meta", Target: t, Disabled: false})
		if t < 2 {
			ops = append(ops, c17Op{Kind: "set-meta", Target: t, NewType: cpctypes.CpcTypeBech32}, c17Op{Kind: "set-meta", Target: t, NewType: cpctypes.CpcTypeErc20})
		}
	}
	return ops
}

func c17Report(run *ev.Run, c c17Case, path []c17Op, bad []struct{ clause, sig, detail string }) {
	for _, b := range bad {
		cc := c
		cc.Path = append([]c17Op{}, path...)
		run.Fail(ev.Finding{Clause: b.clause, Signature: b.sig, Detail: b.detail, Replay: cc})
	}
}

func c17Search(run *ev.Run, c c17Case, alpha []c17Op, maxDepth int, dl *ev.Deadline) {
	cw := c17Setup(c)
	type node struct {
		ctx  sdk.Context
		path []c17Op
		key  [32]byte
	}
	rootKey := CanonKey(cw.w, cw.root)
	seen := map[[32]byte]bool{rootKey: true}
	c17Report(run, c, nil, cw.invariants(cw.root, cw.root, nil, false))
	run.Distinct(fmt.Sprintf("%x", rootKey[:12]))
	frontier := []node{{cw.root, nil, rootKey}}
	world := fmt.Sprintf("erc20=%v,staking=%v,wl=%v", c.Erc20, c.Staking, c.WlGen)
	completed := 0
	for depth := 1; depth <= maxDepth && len(frontier) > 0; depth++ {
		var next []node
		for _, nd := range frontier {
			for i := range alpha {
				op := alpha[i]
				if dl.Hit() {
					run.Coverage["exhaustive"] = false
					run.Note("%s: time budget hit at depth %d", world, depth)
					run.Coverage["depth_completed"] = completed
					return
				}
				nctx, ok, errMsg := cw.exec(nd.ctx, op)
				run.Count("transitions", 1)
				path := append(append([]c17Op{}, nd.path...), op)
				cls := "refused"
				if ok {
					cls = "ok"
				} else if strings.HasPrefix(errMsg, "panic") {
					cls = "panic-refused"
				}
				run.Outcome(op.Kind + "/" + cls)
				k := nd.key
				if ok {
					k = CanonKey(cw.w, nctx)
				} else if CanonKey(cw.w, nctx) != nd.key {
					c17Report(run, c, path, []struct{ clause, sig, detail string }{{"refused-operation-changes-nothing", "", op.String()}})
				}
				if !ok {
					continue
				}
				if seen[k] {
					continue
				}
				seen[k] = true
				run.Distinct(fmt.Sprintf("%x", k[:12]))
				c17Report(run, c, path, cw.invariants(nd.ctx, nctx, &op, ok))
				if len(path) >= 2 && run.Counter("sampled") < 3 {
					run.Count("sampled", 1)
					run.Sample(map[string]interface{}{"world": world, "path": path})
				}
				next = append(next, node{nctx, path, k})
			}
		}
		completed = depth
		frontier = next
	}
	if len(frontier) == 0 {
		run.Count("worlds_at_fixpoint", 1)
		completed = maxDepth
	}
	if cur, ok := run.Coverage["depth_completed"]; !ok || cur.(int) > completed {
		run.Coverage["depth_completed"] = completed
	}
}

// c17GhostPass: the outcome of an operation on a state must not depend on operations executed on branches of that state
// which were discarded (baseapp discards the branch of a failed transaction, of every simulation and of the check state).
// For the root state and every state one operation away: every accepted parameter update g is run on a throw-away
// branch, then every operation o runs on the state itself and must behave exactly as it does without the ghost.
func c17GhostPass(run *ev.Run, c c17Case, alpha []c17Op) {
	cw := c17Setup(c)
	type st struct {
		ctx  sdk.Context
		path []c17Op
	}
	states := []st{{cw.root, nil}}
	for _, op := range alpha {
		if op.Kind != "update-params" && op.Kind != "deploy-erc20" {
			continue
		}
		if nctx, ok, _ := cw.exec(cw.root, op); ok {
			states = append(states, st{nctx, []c17Op{op}})
		}
	}
	type res struct {
		ok  bool
		key [32]byte
	}
	for _, s := range states {
		ref := make([]res, len(alpha))
		for i, o := range alpha {
			nctx, ok, _ := cw.exec(s.ctx, o)
			ref[i] = res{ok, CanonKey(cw.w, nctx)}
		}
		for gi := range alpha {
			g := alpha[gi]
			if g.Kind != "update-params" || !ref[gi].ok {
				continue
			}
			for i, o := range alpha {
				_, _, _ = cw.exec(s.ctx, g) // the ghost: executed and thrown away
				nctx, ok, _ := cw.exec(s.ctx, o)
				run.Count("transitions", 2)
				run.Count("ghost_branch_pairs", 1)
				if got := (res{ok, CanonKey(cw.w, nctx)}); got != ref[i] {
					cc := c
					cc.Path = append(append([]c17Op{}, s.path...), o)
					gg := g
					cc.Ghost = &gg
					run.Fail(ev.Finding{Clause: "discarded-branch-does-not-influence-the-registry", Detail: fmt.Sprintf("after %v: %s is accepted=%v normally but accepted=%v (or leads to another state) once %s has been executed on a discarded branch of the same state", s.path, o, ref[i].ok, ok, g), Replay: cc})
				}
			}
		}
		// leave the process-level state as the last real operation of the search would
	}
}

func runC17(replay string) int {
	run := ev.NewRun("C17", "model_checking")
	run.Assumptions = []string{
		"messages are driven through ValidateBasic + the real cpc message server on CacheContext branches; a refused message or a panic in the handler discards the branch as baseapp does",
		"set-meta is the keeper operation an upgrade handler would use (SetCustomPrecompiledContractMeta(meta, false))",
		"exposure is probed with a view call through the real NewEVM in deliver / check / re-check contexts, through the EthCall query, and from constructor code of a creation message (real NewEVM + evm.Create, and EthCall without recipient)",
		"the reference set of registrations is read from the cpc KV store with a raw prefix iterator, not through the keeper's listing (which feeds the EVM)",
		"order pass: the reference whitelist is the set of exact address strings handed to the last accepted UpdateParams message (or configured at genesis), cross-checked as a set with the parameters in the KV store",
		"scale pass: registries are grown by DeployErc20Contract messages through the real message server on one branch of the committed state (as the successful transactions of one block), one denomination with genesis supply (held by a bystander account) per contract",
	}
	if replay != "" {
		return replayCase(run, replay, func(raw json.RawMessage) []ev.Finding {
			var c c17Case
			if err := json.Unmarshal(raw, &c); err != nil {
				fmt.Fprintln(os.Stderr, err)
				os.Exit(2)
			}
			if c.Scale != nil {
				return c17ScaleReplay(c)
			}
			if c.Cands > 0 {
				return c17OrderReplay(c)
			}
			cw := c17Setup(c)
			ctx := cw.root
			var fs []ev.Finding
			if c.Ghost != nil && len(c.Path) > 0 {
				for _, op := range c.Path[:len(c.Path)-1] {
					ctx, _, _ = cw.exec(ctx, op)
				}
				last := c.Path[len(c.Path)-1]
				r1, ok1, _ := cw.exec(ctx, last)
				_, _, _ = cw.exec(ctx, *c.Ghost)
				r2, ok2, _ := cw.exec(ctx, last)
				if ok1 != ok2 || CanonKey(cw.w, r1) != CanonKey(cw.w, r2) {
					fs = append(fs, ev.Finding{Clause: "discarded-branch-does-not-influence-the-registry", Detail: fmt.Sprintf("%s: accepted=%v without the ghost, accepted=%v after ghost %s", last, ok1, ok2, *c.Ghost)})
				}
				return fs
			}
			for i, op := range c.Path {
				nctx, ok, errMsg := cw.exec(ctx, op)
				fmt.Printf("step %d %s -> ok=%v %s\n", i, op, ok, errMsg)
				for _, b := range cw.invariants(ctx, nctx, &op, ok) {
					fs = append(fs, ev.Finding{Clause: b.clause, Signature: b.sig, Detail: b.detail})
				}
				ctx = nctx
			}
			return fs
		})
	}
	var worlds []c17Case
	for _, e := range []bool{false, true} {
		for _, s := range []bool{false, true} {
			for _, wl := range []bool{false, true} {
				worlds = append(worlds, c17Case{Erc20: e, Staking: s, WlGen: wl})
			}
		}
	}
	alpha := c17Alphabet(run.Thorough())
	depth, budget := 4, 120
	if run.Thorough() {
		depth, budget = 7, 1200
	}
	scale := c17ScalePlan(run.Thorough())
	shards := len(worlds) + len(scale)
	if s := Shards(); shards > s {
		shards = s
	}
	run.Sharded(shards, func(shard, n int) {
		dl := ev.NewDeadline(secs(budget))
		// the scale units go to the shards after those of the worlds (and wrap around when there are fewer shards)
		var mine []c17ScaleTask
		for j, u := range scale {
			if (len(worlds)+j)%n == shard {
				mine = append(mine, u...)
			}
		}
		for i, c := range worlds {
			if i%n != shard {
				continue
			}
			c17GhostPass(run, c, alpha)
			c17Search(run, c, alpha, depth, dl)
		}
		c17ScalePass(run, mine)
		c17OrderPass(run, shard, n, run.Thorough())
	})
	c17OrderSanity(run, run.Thorough())
	run.Coverage["states"] = run.NumDistinct()
	run.Coverage["traces_validated_against_impl"] = int(run.Counter("transitions"))
	if _, ok := run.Coverage["exhaustive"]; !ok {
		run.Coverage["exhaustive"] = true
	}
	run.Coverage["max_depth"] = depth
	run.Coverage["rule"] = fmt.Sprintf("BFS over branch states from 8 worlds (cpc genesis flags DeployErc20 × DeployStaking × whitelist at genesis) with a %d-op alphabet: UpdateParams (authority gov/other × whitelist × protocol version 0/1/2), DeployErc20Contract (authority whitelisted/other/gov × denom {wei, utwo, no-supply, empty, padded} × metadata at validation boundaries), DeployStakingContract, and the upgrade-handler keeper op SetCustomPrecompiledContractMeta (disable / enable / change type) to depth %d; registry invariants and the exposure oracle (view call to every registered address, its successor, the next dynamic address and fixed foreign addresses in deliver/check/recheck/EthCall modes and from the constructor of a creation message) evaluated in every distinct state; ghost pass: in the root state and every state one operation away, every accepted parameter update is executed on a discarded branch and every operation of the alphabet must then behave exactly as without it; %s; %s", len(alpha), depth, c17ScaleRule(scale), c17OrderRule(run.Thorough()))
	run.Coverage["order_states"] = int(run.Counter("order_states"))
	run.Coverage["scale_sizes"] = c17ScaleSizes(scale)
	return run.Finish()
}
