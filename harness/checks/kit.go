package checks

import (
	"fmt"
	"math/big"
	"runtime"
	"time"

	sdkmath "cosmossdk.io/math"
	sdk "github.com/cosmos/cosmos-sdk/types"
	banktypes "github.com/cosmos/cosmos-sdk/x/bank/types"
	"github.com/ethereum/go-ethereum/common"
	ethtypes "github.com/ethereum/go-ethereum/core/types"

	"verif/harness/asm"
	"verif/harness/world"
)

// Fixed addresses of the pre-installed gadget contracts.
var (
	AddrLog1     = common.HexToAddress("0x00000000000000000000000000000000000c0001") // emits 1 log
	AddrLog2     = common.HexToAddress("0x00000000000000000000000000000000000c0002") // emits 2 logs
	AddrLogRev   = common.HexToAddress("0x00000000000000000000000000000000000c0003") // emits 1 log then reverts
	AddrBurn     = common.HexToAddress("0x00000000000000000000000000000000000c0004") // burns ~39k gas
	AddrSstore   = common.HexToAddress("0x00000000000000000000000000000000000c0005") // slot0 := 1
	AddrSclear   = common.HexToAddress("0x00000000000000000000000000000000000c0006") // clears slots 0..3 (pre-set)
	AddrSuicide  = common.HexToAddress("0x00000000000000000000000000000000000c0007") // SELFDESTRUCT to AddrSink, funded
	AddrSuicide2 = common.HexToAddress("0x00000000000000000000000000000000000c0008") // SELFDESTRUCT to AddrSink, funded with utwo too
	AddrInvalid  = common.HexToAddress("0x00000000000000000000000000000000000c0009") // INVALID opcode
	AddrSink     = common.HexToAddress("0x00000000000000000000000000000000000c00ff") // plain EOA-like sink, no code
)

// BurnIterations makes AddrBurn use 21000 + ~26*n gas.
const BurnIterations = 1500

func h(n uint64) common.Hash { return common.BigToHash(new(big.Int).SetUint64(n)) }

// StdContracts is the gadget set most ABCI-level checks install at genesis.
func StdContracts() []world.Contract {
	coin := func(n int64) sdk.Coins { return sdk.NewCoins(sdk.NewCoin(world.Denom, sdkmath.NewInt(n))) }
	return []world.Contract{
		{Addr: AddrLog1, Code: asm.New().Log1(1).Stop().Bytes()},
		{Addr: AddrLog2, Code: asm.New().Log1(1).Log1(2).Stop().Bytes()},
		{Addr: AddrLogRev, Code: asm.New().Log1(3).Revert().Bytes()},
		{Addr: AddrBurn, Code: asm.New().BurnGas(BurnIterations).Stop().Bytes()},
		{Addr: AddrSstore, Code: asm.New().Sstore(0, 1).Stop().Bytes()},
		{Addr: AddrSclear, Code: asm.New().Sstore(0, 0).Sstore(1, 0).Sstore(2, 0).Sstore(3, 0).Stop().Bytes(),
			Storage: map[common.Hash]common.Hash{h(0): h(7), h(1): h(7), h(2): h(7), h(3): h(7)}},
		{Addr: AddrSuicide, Code: asm.New().SelfDestruct(AddrSink).Bytes(), Coins: coin(1000)},
		{Addr: AddrSuicide2, Code: asm.New().SelfDestruct(AddrSink).Bytes(),
			Coins: sdk.NewCoins(sdk.NewCoin(world.Denom, sdkmath.NewInt(500)), sdk.NewCoin("utwo", sdkmath.NewInt(7)))},
		{Addr: AddrInvalid, Code: asm.New().Invalid().Bytes()},
	}
}

// Gwei is 1e9.
var Gwei = big.NewInt(1_000_000_000)

// TxKind is an element of the shared transaction alphabet.
type TxKind string

const (
	KTransfer     TxKind = "transfer"
	KLog1         TxKind = "log1"
	KLog2         TxKind = "log2"
	KLogRevert    TxKind = "log-revert"
	KCreateOK     TxKind = "create-ok"   // constructor emits 1 log
	KCreateFail   TxKind = "create-fail" // init code reverts
	KIntrinsicLow TxKind = "intrinsic-low"
	KValueTooHigh TxKind = "value-too-high"
	KBurn         TxKind = "burn"
	KBadNonce     TxKind = "bad-nonce"
	KCosmosSend   TxKind = "cosmos-send"
	KSstore       TxKind = "sstore"
	KSclear       TxKind = "sclear"
	KSuicide      TxKind = "suicide"
	KSuicide2     TxKind = "suicide-multidenom"
	KInvalid      TxKind = "invalid-op"
	KOutOfGas     TxKind = "out-of-gas"
	// KErc20Burn / KErc20Transfer call the ERC-20 precompile of the native denom (world must have DeployErc20): burn(5) / transfer(sink, 3)
	KErc20Burn     TxKind = "erc20-burn"
	KErc20Transfer TxKind = "erc20-transfer"
	// KCreateValueHigh is a contract creation whose endowment the sender cannot afford (refused after admission)
	KCreateValueHigh TxKind = "create-value-too-high"
	// KCreateEmpty is a creation that succeeds and leaves EMPTY runtime code (init code = STOP); KCreateSuicide a constructor that self-destructs
	KCreateEmpty   TxKind = "create-empty-code"
	KCreateSuicide TxKind = "create-constructor-selfdestructs"
)

// Erc20BurnAmount / Erc20TransferAmount are the amounts moved by the two precompile kinds.
const (
	Erc20BurnAmount     = 5
	Erc20TransferAmount = 3
)

// FeeKind selects fee fields relative to the base fee b.
type FeeKind string

const (
	FLegacyB    FeeKind = "legacy-b"
	FLegacy2B   FeeKind = "legacy-2b"
	FDynTip0    FeeKind = "dyn-tip0-cap-b"
	FDynTip1Cap FeeKind = "dyn-tip1gwei-cap-2b"
	FAccessList FeeKind = "al-b"
)

// TxSpec fully describes one generated transaction.
type TxSpec struct {
	Kind     TxKind  `json:"kind"`
	Sender   int     `json:"sender"` // wallet index
	Fee      FeeKind `json:"fee,omitempty"`
	GasLimit uint64  `json:"gas_limit,omitempty"` // 0 => DefaultGas(kind)
	Nonce    uint64  `json:"nonce"`
}

func (s TxSpec) String() string {
	return fmt.Sprintf("%s/w%d/%s/gas=%d/n=%d", s.Kind, s.Sender, s.Fee, s.GasLimit, s.Nonce)
}

// DefaultGas is a comfortable limit per kind.
func DefaultGas(k TxKind) uint64 {
	switch k {
	case KTransfer:
		return 21000
	case KIntrinsicLow:
		return 20999
	case KBurn:
		return 70000
	case KCreateOK, KCreateFail, KCreateValueHigh, KCreateEmpty, KCreateSuicide:
		return 200000
	case KCosmosSend:
		return 200000
	case KOutOfGas:
		return 30000
	}
	return 100000
}

// createOKInit: constructor logs once, returns 1-byte runtime (STOP).
func createOKInit() []byte   { return asm.InitCodeWith(asm.New().Log1(9).Bytes(), []byte{asm.STOP}) }
func createFailInit() []byte { return asm.New().Revert().Bytes() }

// BuildTx turns a spec into tx bytes for world w with base fee b.
func BuildTx(w *world.World, s TxSpec, b *big.Int) []byte {
	a := w.Wallets[s.Sender]
	gas := s.GasLimit
	if gas == 0 {
		gas = DefaultGas(s.Kind)
	}
	if s.Kind == KCosmosSend {
		to := w.Wallets[(s.Sender+1)%len(w.Wallets)]
		msg := &banktypes.MsgSend{FromAddress: a.Bech(), ToAddress: to.Bech(), Amount: sdk.NewCoins(sdk.NewCoin(world.Denom, sdkmath.NewInt(5)))}
		fee := new(big.Int).Mul(new(big.Int).SetUint64(gas), b)
		// account numbers: validators first, then wallets
		return w.CosmosTx(a, uint64(len(w.Validators)+s.Sender), s.Nonce, gas, fee, msg)
	}
	var to *common.Address
	var data []byte
	value := big.NewInt(0)
	set := func(x common.Address) { to = &x }
	switch s.Kind {
	case KTransfer, KIntrinsicLow, KBadNonce:
		set(AddrSink)
		value = big.NewInt(3)
	case KValueTooHigh:
		set(AddrSink)
		value = new(big.Int).Mul(big.NewInt(1000), new(big.Int).Exp(big.NewInt(10), big.NewInt(18), nil))
	case KLog1:
		set(AddrLog1)
	case KLog2:
		set(AddrLog2)
	case KLogRevert:
		set(AddrLogRev)
	case KBurn, KOutOfGas:
		set(AddrBurn)
	case KSstore:
		set(AddrSstore)
	case KSclear:
		set(AddrSclear)
	case KSuicide:
		set(AddrSuicide)
	case KSuicide2:
		set(AddrSuicide2)
	case KInvalid:
		set(AddrInvalid)
	case KCreateOK:
		data = createOKInit()
	case KCreateFail:
		data = createFailInit()
	case KCreateEmpty:
		data = []byte{asm.STOP}
	case KCreateSuicide:
		data = asm.New().SelfDestruct(AddrSink).Bytes()
	case KCreateValueHigh:
		data = createOKInit()
		value = new(big.Int).Mul(big.NewInt(1000), new(big.Int).Exp(big.NewInt(10), big.NewInt(18), nil))
	case KErc20Burn, KErc20Transfer:
		tok := w.App.CPCKeeper.GetErc20CustomPrecompiledContractAddressByMinDenom(w.Ctx(), world.Denom)
		if len(tok) == 0 {
			panic("world has no ERC-20 precompile for the native denom (Config.DeployErc20)")
		}
		set(common.BytesToAddress(tok.Bytes()))
		if s.Kind == KErc20Burn {
			data = Enc("burn(uint256)", Word(big.NewInt(Erc20BurnAmount)))
		} else {
			data = Enc("transfer(address,uint256)", AddrWord(AddrSink), Word(big.NewInt(Erc20TransferAmount)))
		}
	default:
		panic("unknown kind " + s.Kind)
	}
	nonce := s.Nonce
	if s.Kind == KBadNonce {
		nonce += 5
	}
	two := new(big.Int).Mul(b, big.NewInt(2))
	var td ethtypes.TxData
	switch s.Fee {
	case "", FLegacyB:
		td = &ethtypes.LegacyTx{Nonce: nonce, GasPrice: b, Gas: gas, To: to, Value: value, Data: data}
	case FLegacy2B:
		td = &ethtypes.LegacyTx{Nonce: nonce, GasPrice: two, Gas: gas, To: to, Value: value, Data: data}
	case FAccessList:
		td = &ethtypes.AccessListTx{ChainID: big.NewInt(world.EvmChainID), Nonce: nonce, GasPrice: b, Gas: gas, To: to, Value: value, Data: data}
	case FDynTip0:
		td = &ethtypes.DynamicFeeTx{ChainID: big.NewInt(world.EvmChainID), Nonce: nonce, GasTipCap: big.NewInt(0), GasFeeCap: b, Gas: gas, To: to, Value: value, Data: data}
	case FDynTip1Cap:
		td = &ethtypes.DynamicFeeTx{ChainID: big.NewInt(world.EvmChainID), Nonce: nonce, GasTipCap: Gwei, GasFeeCap: two, Gas: gas, To: to, Value: value, Data: data}
	default:
		panic("unknown fee kind " + s.Fee)
	}
	return w.EthTx(a, td)
}

// EffectivePrice of a fee kind for base fee b.
func EffectivePrice(f FeeKind, b *big.Int) *big.Int {
	two := new(big.Int).Mul(b, big.NewInt(2))
	switch f {
	case "", FLegacyB, FAccessList, FDynTip0:
		return new(big.Int).Set(b)
	case FLegacy2B:
		return two
	case FDynTip1Cap:
		p := new(big.Int).Add(b, Gwei)
		if p.Cmp(two) > 0 {
			p = two
		}
		return p
	}
	panic("fee kind")
}

// Shards is the number of worker processes for sharded checks.
func Shards() int {
	n := runtime.NumCPU()
	if n > 16 {
		n = 16
	}
	if n < 1 {
		n = 1
	}
	return n
}

// IsEth tells whether a kind is an Ethereum-lane tx.
func (k TxKind) IsEth() bool { return k != KCosmosSend }

func secs(n int) time.Duration { return time.Duration(n) * time.Second }
