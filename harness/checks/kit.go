package checks

import (
	"fmt"
	"math/big"
	"runtime"
	"strings"
	"time"

	sdkmath "cosmossdk.io/math"
	codectypes "github.com/cosmos/cosmos-sdk/codec/types"
	sdk "github.com/cosmos/cosmos-sdk/types"
	authtx "github.com/cosmos/cosmos-sdk/x/auth/tx"
	authtypes "github.com/cosmos/cosmos-sdk/x/auth/types"
	banktypes "github.com/cosmos/cosmos-sdk/x/bank/types"
	"github.com/ethereum/go-ethereum/common"
	ethtypes "github.com/ethereum/go-ethereum/core/types"

	evmtypes "github.com/EscanBE/evermint/v12/x/evm/types"
	evmutils "github.com/EscanBE/evermint/v12/x/evm/utils"

	"verif/harness/asm"
	"verif/harness/world"
)

// Fixed addresses of the pre-installed gadget contracts.
var (
	AddrLog1     = common.HexToAddress("0x00000000000000000000000000000000000c0001") // emits 1 log
	AddrLog2     = common.HexToAddress("0x00000000000000000000000000000000000c0002") // emits 2 logs
	AddrLogRev   = common.HexToAddress("0x00000000000000000000000000000000000c0003") // emits 1 log then reverts
	AddrBurn     = common.HexToAddress("0x00000000000000000000000000000000000c0004") // burns ~39k gas
	AddrSstore   = common.HexToAddress("0x00000000000000000000000000000000000c0005") // slot0 := 1
	AddrSclear   = common.HexToAddress("0x00000000000000000000000000000000000c0006") // clears slots 0..3 (pre-set)
	AddrSuicide  = common.HexToAddress("0x00000000000000000000000000000000000c0007") // SELFDESTRUCT to AddrSink, funded
	AddrSuicide2 = common.HexToAddress("0x00000000000000000000000000000000000c0008") // SELFDESTRUCT to AddrSink, funded with utwo too
	AddrInvalid  = common.HexToAddress("0x00000000000000000000000000000000000c0009") // INVALID opcode
	AddrSink     = common.HexToAddress("0x00000000000000000000000000000000000c00ff") // plain EOA-like sink, no code
)

// BurnIterations makes AddrBurn use 21000 + ~26*n gas.
const BurnIterations = 1500

func h(n uint64) common.Hash { return common.BigToHash(new(big.Int).SetUint64(n)) }

// StdContracts is the gadget set most ABCI-level checks install at genesis.
func StdContracts() []world.Contract {
	coin := func(n int64) sdk.Coins { return sdk.NewCoins(sdk.NewCoin(world.Denom, sdkmath.NewInt(n))) }
	return []world.Contract{
		{Addr: AddrLog1, Code: asm.New().Log1(1).Stop().Bytes()},
		{Addr: AddrLog2, Code: asm.New().Log1(1).Log1(2).Stop().Bytes()},
		{Addr: AddrLogRev, Code: asm.New().Log1(3).Revert().Bytes()},
		{Addr: AddrBurn, Code: asm.New().BurnGas(BurnIterations).Stop().Bytes()},
		{Addr: AddrSstore, Code: asm.New().Sstore(0, 1).Stop().Bytes()},
		{Addr: AddrSclear, Code: asm.New().Sstore(0, 0).Sstore(1, 0).Sstore(2, 0).Sstore(3, 0).Stop().Bytes(),
			Storage: map[common.Hash]common.Hash{h(0): h(7), h(1): h(7), h(2): h(7), h(3): h(7)}},
		{Addr: AddrSuicide, Code: asm.New().SelfDestruct(AddrSink).Bytes(), Coins: coin(1000)},
		{Addr: AddrSuicide2, Code: asm.New().SelfDestruct(AddrSink).Bytes(),
			Coins: sdk.NewCoins(sdk.NewCoin(world.Denom, sdkmath.NewInt(500)), sdk.NewCoin("utwo", sdkmath.NewInt(7)))},
		{Addr: AddrInvalid, Code: asm.New().Invalid().Bytes()},
	}
}

// Gwei is 1e9.
var Gwei = big.NewInt(1_000_000_000)

// TxKind is an element of the shared transaction alphabet.
type TxKind string

const (
	KTransfer     TxKind = "transfer"
	KLog1         TxKind = "log1"
	KLog2         TxKind = "log2"
	KLogRevert    TxKind = "log-revert"
	KCreateOK     TxKind = "create-ok"   // constructor emits 1 log
	KCreateFail   TxKind = "create-fail" // init code reverts
	KIntrinsicLow TxKind = "intrinsic-low"
	KValueTooHigh TxKind = "value-too-high"
	KBurn         TxKind = "burn"
	KBadNonce     TxKind = "bad-nonce"
	KCosmosSend   TxKind = "cosmos-send"
	KSstore       TxKind = "sstore"
	KSclear       TxKind = "sclear"
	KSuicide      TxKind = "suicide"
	KSuicide2     TxKind = "suicide-multidenom"
	KInvalid      TxKind = "invalid-op"
	KOutOfGas     TxKind = "out-of-gas"
	// KErc20Burn / KErc20Transfer call the ERC-20 precompile of the native denom (world must have DeployErc20): burn(5) / transfer(sink, 3)
	KErc20Burn     TxKind = "erc20-burn"
	KErc20Transfer TxKind = "erc20-transfer"
	// KCreateValueHigh is a contract creation whose endowment the sender cannot afford (refused after admission)
	KCreateValueHigh TxKind = "create-value-too-high"
	// KCreateEmpty is a creation that succeeds and leaves EMPTY runtime code (init code = STOP); KCreateSuicide a constructor that self-destructs
	KCreateEmpty   TxKind = "create-empty-code"
	KCreateSuicide TxKind = "create-constructor-selfdestructs"
	// KKillTwice: a gadget CALLs the funded self-destructing contract AddrSuicide twice in one tx; KKillPayKill: kill, pay it 5 wei
	// again, kill again (ledger worlds only: the gadgets are part of LedgerContracts)
	KKillTwice   TxKind = "kill-twice"
	KKillPayKill TxKind = "kill-pay-kill"
)

var (
	AddrKillTwice   = common.HexToAddress("0x00000000000000000000000000000000000c0071")
	AddrKillPayKill = common.HexToAddress("0x00000000000000000000000000000000000c0072")
)

// RepeatKillContracts: the gadgets behind KKillTwice / KKillPayKill.
func RepeatKillContracts() []world.Contract {
	call := func(c *asm.Code, v uint64) *asm.Code {
		return c.Call(asm.KCall, AddrSuicide, v, 0, 0, 0, 0, 0).Op(asm.POP)
	}
	return []world.Contract{
		{Addr: AddrKillTwice, Code: call(call(asm.New(), 0), 0).Stop().Bytes()},
		{Addr: AddrKillPayKill, Code: call(call(call(asm.New(), 0), 5), 0).Stop().Bytes(),
			Coins: sdk.NewCoins(sdk.NewCoin(world.Denom, sdkmath.NewInt(100)))},
	}
}

// Erc20BurnAmount / Erc20TransferAmount are the amounts moved by the two precompile kinds.
const (
	Erc20BurnAmount     = 5
	Erc20TransferAmount = 3
)

// FeeKind selects fee fields relative to the base fee b.
type FeeKind string

const (
	FLegacyB    FeeKind = "legacy-b"
	FLegacy2B   FeeKind = "legacy-2b"
	FDynTip0    FeeKind = "dyn-tip0-cap-b"
	FDynTip1Cap FeeKind = "dyn-tip1gwei-cap-2b"
	FAccessList FeeKind = "al-b"
)

// TxSpec fully describes one generated transaction.
type TxSpec struct {
	Kind     TxKind  `json:"kind"`
	Sender   int     `json:"sender"` // wallet index
	Fee      FeeKind `json:"fee,omitempty"`
	GasLimit uint64  `json:"gas_limit,omitempty"` // 0 => DefaultGas(kind)
	Nonce    uint64  `json:"nonce"`
	// Value (decimal wei), when not empty, replaces the value the kind carries by default (magnitude dimension: any kind can be
	// sent with any amount of money; what happens to it - arrives, stays with the contract, comes back - is the kind's behaviour).
	Value string `json:"value,omitempty"`
}

func (s TxSpec) String() string {
	return fmt.Sprintf("%s/w%d/%s/gas=%d/n=%d", s.Kind, s.Sender, s.Fee, s.GasLimit, s.Nonce)
}

// DefaultGas is a comfortable limit per kind.
func DefaultGas(k TxKind) uint64 {
	switch k {
	case KTransfer:
		return 21000
	case KIntrinsicLow:
		return 20999
	case KBurn:
		return 70000
	case KCreateOK, KCreateFail, KCreateValueHigh, KCreateEmpty, KCreateSuicide:
		return 200000
	case KCosmosSend:
		return 200000
	case KOutOfGas:
		return 30000
	case KKillTwice, KKillPayKill:
		return 200000
	}
	if mode, _, ok := k.ValueRecipient(); ok {
		if mode == ModePay {
			return 21000
		}
		return 60000 // 21000 + cold account 2600 + value transfer 9000 (CALL) or 5000 (SELFDESTRUCT) + 25000 when the recipient is new
	}
	return 100000
}

// createOKInit: constructor logs once, returns 1-byte runtime (STOP).
func createOKInit() []byte   { return asm.InitCodeWith(asm.New().Log1(9).Bytes(), []byte{asm.STOP}) }
func createFailInit() []byte { return asm.New().Revert().Bytes() }

// BuildTx turns a spec into tx bytes for world w with base fee b.
func BuildTx(w *world.World, s TxSpec, b *big.Int) []byte {
	a := w.Wallets[s.Sender]
	gas := s.GasLimit
	if gas == 0 {
		gas = DefaultGas(s.Kind)
	}
	if s.Kind == KCosmosSend {
		to := w.Wallets[(s.Sender+1)%len(w.Wallets)]
		msg := &banktypes.MsgSend{FromAddress: a.Bech(), ToAddress: to.Bech(), Amount: sdk.NewCoins(sdk.NewCoin(world.Denom, sdkmath.NewInt(5)))}
		fee := new(big.Int).Mul(new(big.Int).SetUint64(gas), b)
		// account numbers: validators first, then wallets
		return w.CosmosTx(a, uint64(len(w.Validators)+s.Sender), s.Nonce, gas, fee, msg)
	}
	var to *common.Address
	var data []byte
	value := big.NewInt(0)
	set := func(x common.Address) { to = &x }
	switch s.Kind {
	case KTransfer, KIntrinsicLow, KBadNonce:
		set(AddrSink)
		value = big.NewInt(3)
	case KValueTooHigh:
		set(AddrSink)
		value = new(big.Int).Mul(big.NewInt(1000), new(big.Int).Exp(big.NewInt(10), big.NewInt(18), nil))
	case KLog1:
		set(AddrLog1)
	case KLog2:
		set(AddrLog2)
	case KLogRevert:
		set(AddrLogRev)
	case KBurn, KOutOfGas:
		set(AddrBurn)
	case KSstore:
		set(AddrSstore)
	case KSclear:
		set(AddrSclear)
	case KSuicide:
		set(AddrSuicide)
	case KSuicide2:
		set(AddrSuicide2)
	case KKillTwice:
		set(AddrKillTwice)
	case KKillPayKill:
		set(AddrKillPayKill)
	case KInvalid:
		set(AddrInvalid)
	case KCreateOK:
		data = createOKInit()
	case KCreateFail:
		data = createFailInit()
	case KCreateEmpty:
		data = []byte{asm.STOP}
	case KCreateSuicide:
		data = asm.New().SelfDestruct(AddrSink).Bytes()
	case KCreateValueHigh:
		data = createOKInit()
		value = new(big.Int).Mul(big.NewInt(1000), new(big.Int).Exp(big.NewInt(10), big.NewInt(18), nil))
	case KErc20Burn, KErc20Transfer:
		tok := w.App.CPCKeeper.GetErc20CustomPrecompiledContractAddressByMinDenom(w.Ctx(), world.Denom)
		if len(tok) == 0 {
			panic("world has no ERC-20 precompile for the native denom (Config.DeployErc20)")
		}
		set(common.BytesToAddress(tok.Bytes()))
		if s.Kind == KErc20Burn {
			data = Enc("burn(uint256)", Word(big.NewInt(Erc20BurnAmount)))
		} else {
			data = Enc("transfer(address,uint256)", AddrWord(AddrSink), Word(big.NewInt(Erc20TransferAmount)))
		}
	default:
		if f, ok := ExtraKinds[s.Kind]; ok {
			to, data, value = f(w, s)
			break
		}
		mode, r, ok := s.Kind.ValueRecipient()
		if !ok {
			panic("unknown kind " + s.Kind)
		}
		switch mode {
		case ModePay: // plain value transfer, top-level `to` is the recipient
			set(r.Addr(w, s.Sender))
			value = big.NewInt(RecipientValue)
		case ModeForward: // the gadget receives the value and CALLs the recipient with the same value
			set(AddrForwardTo(r))
			value = big.NewInt(RecipientValue)
		case ModeSuicide: // the funded gadget names the recipient as SELFDESTRUCT beneficiary
			set(AddrSuicideTo(r))
		}
	}
	if s.Value != "" {
		v, ok := new(big.Int).SetString(s.Value, 10)
		if !ok || v.Sign() < 0 {
			panic("bad value " + s.Value)
		}
		value = v
	}
	nonce := s.Nonce
	if s.Kind == KBadNonce {
		nonce += 5
	}
	two := new(big.Int).Mul(b, big.NewInt(2))
	var td ethtypes.TxData
	switch s.Fee {
	case "", FLegacyB:
		td = &ethtypes.LegacyTx{Nonce: nonce, GasPrice: b, Gas: gas, To: to, Value: value, Data: data}
	case FLegacy2B:
		td = &ethtypes.LegacyTx{Nonce: nonce, GasPrice: two, Gas: gas, To: to, Value: value, Data: data}
	case FAccessList:
		td = &ethtypes.AccessListTx{ChainID: big.NewInt(world.EvmChainID), Nonce: nonce, GasPrice: b, Gas: gas, To: to, Value: value, Data: data}
	case FDynTip0:
		td = &ethtypes.DynamicFeeTx{ChainID: big.NewInt(world.EvmChainID), Nonce: nonce, GasTipCap: big.NewInt(0), GasFeeCap: b, Gas: gas, To: to, Value: value, Data: data}
	case FDynTip1Cap:
		td = &ethtypes.DynamicFeeTx{ChainID: big.NewInt(world.EvmChainID), Nonce: nonce, GasTipCap: Gwei, GasFeeCap: two, Gas: gas, To: to, Value: value, Data: data}
	default:
		dyn, capOrPrice, tip, ok := s.Fee.Absolute()
		if !ok {
			panic("unknown fee kind " + s.Fee)
		}
		if dyn {
			td = &ethtypes.DynamicFeeTx{ChainID: big.NewInt(world.EvmChainID), Nonce: nonce, GasTipCap: tip, GasFeeCap: capOrPrice, Gas: gas, To: to, Value: value, Data: data}
			if tip.Cmp(capOrPrice) > 0 {
				// not a valid tx: the message constructor refuses it, so the envelope is put together by hand (as a hostile client would)
				return wrapEthUnchecked(w, w.SignEth(a, td), a)
			}
		} else {
			td = &ethtypes.LegacyTx{Nonce: nonce, GasPrice: capOrPrice, Gas: gas, To: to, Value: value, Data: data}
		}
	}
	return w.EthTx(a, td)
}

// ExtraKinds: kinds a single check adds to the alphabet (registered from its own file): `to`, call data and value of the tx.
var ExtraKinds = map[TxKind]func(w *world.World, s TxSpec) (to *common.Address, data []byte, value *big.Int){}

// wrapEthUnchecked is world.WrapEthE without the validation of MsgEthereumTx.FromEthereumTx.
func wrapEthUnchecked(w *world.World, tx *ethtypes.Transaction, from *world.Acct) []byte {
	bz, err := tx.MarshalBinary()
	if err != nil {
		panic(err)
	}
	msg := &evmtypes.MsgEthereumTx{MarshalledTx: bz, From: from.Bech()}
	b := w.Enc.TxConfig.NewTxBuilder()
	if err := b.SetMsgs(msg); err != nil {
		panic(err)
	}
	opt, err := codectypes.NewAnyWithValue(&evmtypes.ExtensionOptionsEthereumTx{})
	if err != nil {
		panic(err)
	}
	b.(authtx.ExtensionOptionsTxBuilder).SetExtensionOptions(opt)
	b.SetGasLimit(tx.Gas())
	b.SetFeeAmount(sdk.NewCoins(sdk.NewCoin(world.Denom, sdkmath.NewIntFromBigInt(evmutils.EthTxFee(tx)))))
	out, err := w.Enc.TxConfig.TxEncoder()(b.GetTx())
	if err != nil {
		panic(err)
	}
	return out
}

// Absolute fee kinds (magnitude dimension): fee fields given in wei, independent of the base fee.
//
//	"legacy@<price>"       legacy tx with that gas price
//	"dyn@<cap>/<tip>"      dynamic-fee tx with that fee cap and tip cap
func FAbsLegacy(price *big.Int) FeeKind { return FeeKind("legacy@" + price.String()) }
func FAbsDyn(feeCap, tip *big.Int) FeeKind {
	return FeeKind("dyn@" + feeCap.String() + "/" + tip.String())
}

// Absolute decodes an absolute fee kind.
func (f FeeKind) Absolute() (dyn bool, capOrPrice, tip *big.Int, ok bool) {
	str := string(f)
	switch {
	case strings.HasPrefix(str, "legacy@"):
		p, good := new(big.Int).SetString(str[len("legacy@"):], 10)
		if !good || p.Sign() < 0 {
			return false, nil, nil, false
		}
		return false, p, nil, true
	case strings.HasPrefix(str, "dyn@"):
		i := strings.IndexByte(str, '/')
		if i < 0 {
			return false, nil, nil, false
		}
		c, good1 := new(big.Int).SetString(str[len("dyn@"):i], 10)
		t, good2 := new(big.Int).SetString(str[i+1:], 10)
		if !good1 || !good2 || c.Sign() < 0 || t.Sign() < 0 {
			return false, nil, nil, false
		}
		return true, c, t, true
	}
	return false, nil, nil, false
}

// EffectivePrice of a fee kind for base fee b.
func EffectivePrice(f FeeKind, b *big.Int) *big.Int {
	two := new(big.Int).Mul(b, big.NewInt(2))
	switch f {
	case "", FLegacyB, FAccessList, FDynTip0:
		return new(big.Int).Set(b)
	case FLegacy2B:
		return two
	case FDynTip1Cap:
		p := new(big.Int).Add(b, Gwei)
		if p.Cmp(two) > 0 {
			p = two
		}
		return p
	}
	if dyn, capOrPrice, tip, ok := f.Absolute(); ok {
		if !dyn {
			return capOrPrice
		}
		// EIP-1559: min(fee cap, base fee + tip)
		p := new(big.Int).Add(b, tip)
		if p.Cmp(capOrPrice) > 0 {
			p = new(big.Int).Set(capOrPrice)
		}
		return p
	}
	panic("fee kind")
}

// Shards is the number of worker processes for sharded checks.
func Shards() int {
	n := runtime.NumCPU()
	if n > 16 {
		n = 16
	}
	if n < 1 {
		n = 1
	}
	return n
}

// IsEth tells whether a kind is an Ethereum-lane tx.
func (k TxKind) IsEth() bool { return k != KCosmosSend }

func secs(n int) time.Duration { return time.Duration(n) * time.Second }

// ---------------------------------------------------------------------------------------------------------------------
// Value-recipient kinds: "who receives the value" is an alphabet dimension of its own. A kind "<mode>:<recipient>" moves
// RecipientValue (or, for ModeSuicide, the whole balance of a funded gadget) to the recipient in one of three ways:
// as top-level `to` of the tx, as target of a value-carrying CALL made by a contract, or as SELFDESTRUCT beneficiary.
// Recipients are the module accounts of the chain (all of them are on the bank keeper's blocked list), plus ordinary
// recipients as positive controls of the gadgets.
// ---------------------------------------------------------------------------------------------------------------------

// Recipient names a receiver of value: a module account name, or one of the control recipients below.
type Recipient string

const (
	RcpSink   Recipient = "@sink"   // AddrSink, a code-less ordinary address (positive control)
	RcpSelf   Recipient = "@self"   // the sender of the tx
	RcpWallet Recipient = "@wallet" // the next wallet after the sender
)

// ModuleRecipients are the names of all module accounts of the app (x/auth module-account permissions of app/modules.go;
// checked against the running app by the alphabet-sanity pass of the ledger checks), the two the property speaks about first.
var ModuleRecipients = []Recipient{"evm", "fee_collector", "bonded_tokens_pool", "distribution", "not_bonded_tokens_pool", "gov", "mint", "transfer", "interchainaccounts", "vauth", "cpc"}

// GadgetRecipients are the recipients that have a forwarding and a self-destructing gadget contract installed (LedgerContracts).
var GadgetRecipients = []Recipient{RcpSink, "evm", "fee_collector", "bonded_tokens_pool", "distribution"}

// IsModule tells whether the recipient is a module account.
func (r Recipient) IsModule() bool { return !strings.HasPrefix(string(r), "@") }

// Addr resolves the recipient for a tx sent by wallet `sender` of w.
func (r Recipient) Addr(w *world.World, sender int) common.Address {
	switch r {
	case RcpSink:
		return AddrSink
	case RcpSelf:
		return w.Wallets[sender].Eth()
	case RcpWallet:
		return w.Wallets[(sender+1)%len(w.Wallets)].Eth()
	}
	return common.BytesToAddress(authtypes.NewModuleAddress(string(r)))
}

// StaticAddr is Addr for recipients that do not depend on the sender (module accounts and the sink).
func (r Recipient) StaticAddr() common.Address {
	if r == RcpSink {
		return AddrSink
	}
	if !r.IsModule() {
		panic("recipient " + string(r) + " depends on the sender")
	}
	return common.BytesToAddress(authtypes.NewModuleAddress(string(r)))
}

// RecipientMode is how the value reaches the recipient.
type RecipientMode string

const (
	ModePay     RecipientMode = "pay"     // top-level value transfer
	ModeForward RecipientMode = "forward" // contract CALL forwarding the value it received
	ModeSuicide RecipientMode = "suicide" // SELFDESTRUCT beneficiary
)

// RecipientValue is the value carried by ModePay / ModeForward txs; SuicideGadgetFunds the balance of each ModeSuicide gadget.
const (
	RecipientValue     = 3
	SuicideGadgetFunds = 900
)

// KRecipient is the kind moving value to r in the given mode.
func KRecipient(mode RecipientMode, r Recipient) TxKind {
	return TxKind(string(mode) + ":" + string(r))
}

// ValueRecipient decodes a value-recipient kind.
func (k TxKind) ValueRecipient() (RecipientMode, Recipient, bool) {
	i := strings.IndexByte(string(k), ':')
	if i < 0 {
		return "", "", false
	}
	mode, r := RecipientMode(k[:i]), Recipient(k[i+1:])
	switch mode {
	case ModePay, ModeForward, ModeSuicide:
		return mode, r, r != ""
	}
	return "", "", false
}

func gadgetIndex(r Recipient) uint64 {
	for i, x := range GadgetRecipients {
		if x == r {
			return uint64(i)
		}
	}
	panic("no gadget contract for recipient " + string(r))
}

// AddrForwardTo / AddrSuicideTo are the fixed addresses of the gadget contracts of recipient r.
func AddrForwardTo(r Recipient) common.Address {
	return common.BigToAddress(new(big.Int).SetUint64(0x0c0100 + gadgetIndex(r)))
}
func AddrSuicideTo(r Recipient) common.Address {
	return common.BigToAddress(new(big.Int).SetUint64(0x0c0200 + gadgetIndex(r)))
}

// RecipientContracts are the gadgets of the value-recipient kinds: per gadget recipient one contract that CALLs the recipient with
// value RecipientValue and all gas (ignoring the result: if the inner call merely fails the value stays with the gadget), and one
// funded contract that SELFDESTRUCTs with the recipient as beneficiary.
func RecipientContracts() []world.Contract {
	var out []world.Contract
	for _, r := range GadgetRecipients {
		to := r.StaticAddr()
		out = append(out,
			world.Contract{Addr: AddrForwardTo(r), Code: asm.New().Call(asm.KCall, to, RecipientValue, 0, 0, 0, 0, 0).Op(asm.POP).Stop().Bytes()},
			world.Contract{Addr: AddrSuicideTo(r), Code: asm.New().SelfDestruct(to).Bytes(),
				Coins: sdk.NewCoins(sdk.NewCoin(world.Denom, sdkmath.NewInt(SuicideGadgetFunds)))},
		)
	}
	return out
}

// LedgerContracts is the gadget set of the ledger checks: StdContracts plus the value-recipient gadgets.
func LedgerContracts() []world.Contract {
	return append(append(StdContracts(), RecipientContracts()...), RepeatKillContracts()...)
}
