package checks

import (
	"context"
	"crypto/sha256"
	"fmt"
	"math/big"
	"strings"

	sdkmath "cosmossdk.io/math"
	abci "github.com/cometbft/cometbft/abci/types"
	clienttx "github.com/cosmos/cosmos-sdk/client/tx"
	codectypes "github.com/cosmos/cosmos-sdk/codec/types"
	sdk "github.com/cosmos/cosmos-sdk/types"
	"github.com/cosmos/cosmos-sdk/types/tx/signing"
	authsigning "github.com/cosmos/cosmos-sdk/x/auth/signing"
	authtx "github.com/cosmos/cosmos-sdk/x/auth/tx"
	banktypes "github.com/cosmos/cosmos-sdk/x/bank/types"
	"github.com/ethereum/go-ethereum/common"

	evertypes "github.com/EscanBE/evermint/v12/types"

	"verif/harness/ev"
	"verif/harness/world"
)

// Admission of Cosmos-lane transactions (C09, last sentence). The fee of a Cosmos tx is a free integer, not price x gas, so
// the price fee/gas is a rational number; the alphabet puts fees on both sides of every boundary, most of them NOT multiples
// of the gas limit. The reference decides with exact rational arithmetic (big.Rat), never with integer or decimal division.
//
// One case = one world and one group of transactions, one per wallet, that differ only in the fee. Deliver mode puts the whole
// group into one block (the base fee is constant inside a block), the check modes offer every tx to CheckTx.

const (
	c09ModeDeliver = ""        // FinalizeBlock + Commit
	c09ModeCheck   = "check"   // CheckTx(New)
	c09ModeRecheck = "recheck" // CheckTx(Recheck)

	c09AdmWallets = 40 // >= the number of fee points of a group

	c09LaneEth    = ""            // Ethereum lane (c09RunAdm in c09.go)
	c09LaneBank   = "bank"        // one MsgSend
	c09LaneMulti  = "multi"       // two MsgSend to two recipients
	c09LaneDynExt = "bank-dynext" // one MsgSend, tx carries ExtensionOptionDynamicFeeTx (tip = c.Tip)
)

type c09FeePoint struct {
	Label string
	Fee   *big.Int
}

// c09FeePoints is the fee dimension of the alphabet for gas limit g: boundaries around R*g for every reference price
// R in {floor = max(base fee, trunc(min gas price)), base fee, trunc(min gas price), trunc(node min)} and around D*g for the
// un-truncated decimal minimum D. Simplest first; values are de-duplicated (first label wins), negative values dropped.
func c09FeePoints(floor, base, minTrunc, nodeTrunc *big.Int, minDec sdkmath.LegacyDec, g uint64) []c09FeePoint {
	G := new(big.Int).SetUint64(g)
	half := new(big.Int).SetUint64(g / 2)
	halfUp := new(big.Int).SetUint64(g - g/2)
	one := big.NewInt(1)
	var out []c09FeePoint
	seen := map[string]bool{}
	add := func(label string, v *big.Int) {
		if v.Sign() < 0 || seen[v.String()] {
			return
		}
		seen[v.String()] = true
		out = append(out, c09FeePoint{label, v})
	}
	sub := func(a *big.Int, bs ...*big.Int) *big.Int {
		r := new(big.Int).Set(a)
		for _, b := range bs {
			r.Sub(r, b)
		}
		return r
	}
	around := func(name string, R *big.Int, full bool) {
		Rg := new(big.Int).Mul(R, G)
		add(name+"*g", Rg)
		add(name+"*g-1", sub(Rg, one))
		add(name+"*g+1", new(big.Int).Add(Rg, one))
		add(name+"*g-g/2", sub(Rg, half))
		add(name+"*g-g/2-1", sub(Rg, half, one))
		add(name+"*g-g/2+1", new(big.Int).Add(sub(Rg, half), one))
		add(name+"*g-ceil(g/2)", sub(Rg, halfUp))
		add("("+name+"+1)*g-1", sub(new(big.Int).Add(Rg, G), one))
		if full {
			add(name+"*g-g+1", new(big.Int).Add(sub(Rg, G), one))
			add("("+name+"-1)*g", sub(Rg, G))
			add("("+name+"-1)*g-1", sub(Rg, G, one))
			add("("+name+"+1)*g", new(big.Int).Add(Rg, G))
			add("("+name+"+1)*g-g/2", sub(new(big.Int).Add(Rg, G), half))
		}
	}
	around("M", floor, true)
	around("b", base, false)
	around("m", minTrunc, false)
	if nodeTrunc.Sign() > 0 {
		around("n", nodeTrunc, false)
	}
	// the un-truncated decimal minimum: ceil(D*g) is what a non-truncating implementation would require
	dg := minDec.MulInt(sdkmath.NewIntFromBigInt(G))
	add("ceil(D*g)", dg.Ceil().TruncateInt().BigInt())
	add("ceil(D*g)-1", sub(dg.Ceil().TruncateInt().BigInt(), one))
	return out
}

// c09CosmosTx is world.CosmosTx plus an optional ExtensionOptionDynamicFeeTx (extTip != nil).
func c09CosmosTx(w *world.World, a *world.Acct, accNum, seq, gas uint64, fee, extTip *big.Int, msgs ...sdk.Msg) []byte {
	b := w.Enc.TxConfig.NewTxBuilder()
	b.SetGasLimit(gas)
	b.SetFeeAmount(sdk.NewCoins(sdk.NewCoin(world.Denom, sdkmath.NewIntFromBigInt(fee))))
	if err := b.SetMsgs(msgs...); err != nil {
		panic(err)
	}
	if extTip != nil {
		opt, err := codectypes.NewAnyWithValue(&evertypes.ExtensionOptionDynamicFeeTx{MaxPriorityPrice: sdkmath.NewIntFromBigInt(extTip)})
		if err != nil {
			panic(err)
		}
		b.(authtx.ExtensionOptionsTxBuilder).SetExtensionOptions(opt)
	}
	txCfg := w.Enc.TxConfig
	signMode, err := authsigning.APISignModeToInternal(txCfg.SignModeHandler().DefaultMode())
	if err != nil {
		panic(err)
	}
	sig := signing.SignatureV2{PubKey: a.Priv.PubKey(), Data: &signing.SingleSignatureData{SignMode: signMode}, Sequence: seq}
	if err := b.SetSignatures(sig); err != nil {
		panic(err)
	}
	sd := authsigning.SignerData{ChainID: world.ChainID, AccountNumber: accNum, Sequence: seq, PubKey: a.Priv.PubKey(), Address: a.Bech()}
	sig, err = clienttx.SignWithPrivKey(context.Background(), signMode, sd, b, a.Priv, txCfg, seq)
	if err != nil {
		panic(err)
	}
	if err := b.SetSignatures(sig); err != nil {
		panic(err)
	}
	bz, err := txCfg.TxEncoder()(b.GetTx())
	if err != nil {
		panic(err)
	}
	return bz
}

func c09Rcpt(i, k int) common.Address {
	h := sha256.Sum256([]byte(fmt.Sprintf("c09-admission-recipient-%d-%d", i, k)))
	return common.BytesToAddress(h[:20])
}

// c09RatGE: fee/g >= price, in exact rational arithmetic.
func c09RatGE(fee *big.Int, g uint64, price *big.Int) bool {
	return new(big.Rat).SetFrac(fee, new(big.Int).SetUint64(g)).Cmp(new(big.Rat).SetInt(price)) >= 0
}

type c09AdmTx struct {
	Point    c09FeePoint
	Multiple bool   // fee is a multiple of the gas limit
	Want     string // "admit" | "refuse" | "free" (between the consensus floor and the node-local minimum in CheckTx(New))
	Class    string // executed | refused-price | refused-other
}

type c09AdmWorld struct {
	w                     *world.World
	base, minT, nodeT, fl *big.Int
	minDec                sdkmath.LegacyDec
}

func c09AdmNewWorld(c c09AdmCase, wallets int) (*c09AdmWorld, error) {
	cfg := world.Config{MinGasPrice: c.MinGas, NumWallets: wallets, Contracts: StdContracts(), NodeMinGasPrices: c.NodeMin}
	if c.BaseFee != "" {
		b, ok := new(big.Int).SetString(c.BaseFee, 10)
		if !ok {
			return nil, fmt.Errorf("bad base fee %q", c.BaseFee)
		}
		cfg.BaseFee = b
	}
	{
		cfg.WalletBalance = new(big.Int).Exp(big.NewInt(10), big.NewInt(40), nil) // every fee of the alphabet is affordable
	}
	w, err := world.NewE(cfg)
	if err != nil {
		return nil, err
	}
	for h := 1; h < c.AtHeight; h++ {
		if br := w.Block(nil); br.Panic != "" || br.Err != nil {
			return nil, fmt.Errorf("preparation block %d: panic=%q err=%v", h, br.Panic, br.Err)
		}
	}
	a := &c09AdmWorld{w: w}
	p := w.App.FeeMarketKeeper.GetParams(w.Ctx())
	a.base = p.BaseFee.BigInt()
	a.minDec = p.MinGasPrice
	a.minT = p.MinGasPrice.TruncateInt().BigInt()
	a.nodeT = new(big.Int)
	if c.NodeMin != "" {
		dc, err := sdk.ParseDecCoins(c.NodeMin)
		if err != nil {
			return nil, err
		}
		a.nodeT = dc.AmountOf(world.Denom).TruncateInt().BigInt()
	}
	a.fl = new(big.Int).Set(a.base)
	if a.fl.Cmp(a.minT) < 0 {
		a.fl = new(big.Int).Set(a.minT)
	}
	return a, nil
}

// c09RunAdmCosmos runs one Cosmos-lane admission group.
func c09RunAdmCosmos(c c09AdmCase) (fs []ev.Finding, txsOut []c09AdmTx) {
	fail := func(clause, detail string) {
		fs = append(fs, ev.Finding{Clause: clause, Detail: detail, Replay: map[string]interface{}{"admission": c}})
	}
	if c.Mode != c09ModeDeliver && c.AtHeight < 2 {
		return nil, nil // the check state exists only after the first commit
	}
	aw, err := c09AdmNewWorld(c, c09AdmWallets)
	if err != nil {
		fail("world", err.Error())
		return
	}
	w := aw.w
	if aw.fl.Sign() == 0 {
		return nil, nil // floor 0: nothing is below it
	}
	g := c.Gas
	points := c09FeePoints(aw.fl, aw.base, aw.minT, aw.nodeT, aw.minDec, g)
	if c.Fees != nil {
		keep := map[string]bool{}
		for _, l := range c.Fees {
			keep[l] = true
		}
		var sel []c09FeePoint
		for _, p := range points {
			if keep[p.Label] {
				sel = append(sel, p)
			}
		}
		points = sel
	}
	if len(points) > c09AdmWallets {
		fail("alphabet-sanity", fmt.Sprintf("%d fee points, %d wallets", len(points), c09AdmWallets))
		return
	}
	var extTip *big.Int
	if c.Lane == c09LaneDynExt {
		gap := new(big.Int).Sub(aw.fl, aw.base) // >= 0
		one := big.NewInt(1)
		names := []string{"0", "1", "gap-1", "gap", "gap+1", "floor"}
		vals := []*big.Int{big.NewInt(0), one, new(big.Int).Sub(gap, one), gap, new(big.Int).Add(gap, one), new(big.Int).Set(aw.fl)}
		for i, n := range names {
			if n != c.Tip {
				continue
			}
			extTip = vals[i]
			for j := 0; j < i; j++ {
				if vals[j].Cmp(extTip) == 0 {
					return nil, nil // same value as a simpler tip of the alphabet
				}
			}
		}
		if extTip == nil {
			fail("alphabet-sanity", "unknown tip "+c.Tip)
			return
		}
		if extTip.Sign() < 0 {
			return nil, nil
		}
	}
	// the price the tx really offers, as a rational: fee/g, or min(base + tip, fee/g) with the dynamic-fee extension
	offersAtLeast := func(fee, price *big.Int) bool {
		if extTip != nil && new(big.Int).Add(aw.base, extTip).Cmp(price) < 0 {
			return false
		}
		return c09RatGE(fee, g, price)
	}
	liveFloor := new(big.Int).Set(aw.fl)
	if c.Mode == c09ModeCheck && aw.nodeT.Cmp(liveFloor) > 0 {
		liveFloor = new(big.Int).Set(aw.nodeT) // node-local minimum, only in CheckTx(New)
	}
	ctx0 := w.Ctx()
	nVal := uint64(len(w.Validators))
	var raw [][]byte
	var amounts []int64
	for i, p := range points {
		a := w.Wallets[i]
		amt := int64(1000 + i)
		msgs := []sdk.Msg{&banktypes.MsgSend{FromAddress: a.Bech(), ToAddress: sdk.AccAddress(c09Rcpt(i, 0).Bytes()).String(),
			Amount: sdk.NewCoins(sdk.NewCoin(world.Denom, sdkmath.NewInt(amt)))}}
		if c.Lane == c09LaneMulti {
			msgs = append(msgs, &banktypes.MsgSend{FromAddress: a.Bech(), ToAddress: sdk.AccAddress(c09Rcpt(i, 1).Bytes()).String(),
				Amount: sdk.NewCoins(sdk.NewCoin(world.Denom, sdkmath.NewInt(amt)))})
		}
		raw = append(raw, c09CosmosTx(w, a, nVal+uint64(i), 0, g, p.Fee, extTip, msgs...))
		amounts = append(amounts, amt*int64(len(msgs)))
		t := c09AdmTx{Point: p, Multiple: new(big.Int).Mod(p.Fee, new(big.Int).SetUint64(g)).Sign() == 0}
		switch {
		case offersAtLeast(p.Fee, liveFloor):
			t.Want = "admit"
		case offersAtLeast(p.Fee, aw.fl):
			t.Want = "free"
		default:
			t.Want = "refuse"
		}
		txsOut = append(txsOut, t)
	}
	desc := func(i int) string {
		t := txsOut[i]
		s := fmt.Sprintf("lane=%s mode=%s height %d base=%s min=%s floor=%s gas=%d fee=%s (%s; fee/gas = %s, fee-floor*gas = %s)",
			c.Lane, c09ModeName(c.Mode), c.AtHeight, aw.base, aw.minDec, aw.fl, g, t.Point.Fee, t.Point.Label,
			new(big.Rat).SetFrac(t.Point.Fee, new(big.Int).SetUint64(g)).FloatString(6),
			new(big.Int).Sub(t.Point.Fee, new(big.Int).Mul(aw.fl, new(big.Int).SetUint64(g))))
		if extTip != nil {
			s += " ext-tip=" + extTip.String()
		}
		if c.NodeMin != "" {
			s += " node-min=" + c.NodeMin
		}
		return s
	}
	classify := func(code uint32, codespace, log string) string {
		switch {
		case code == 0:
			return "executed"
		case codespace == "sdk" && code == 13:
			return "refused-price"
		default:
			return fmt.Sprintf("refused-other(%s/%d)", codespace, code)
		}
	}
	judge := func(i int, log string) {
		t := txsOut[i]
		exec := t.Class == "executed"
		what := "executed"
		if c.Mode != c09ModeDeliver {
			what = "admitted by CheckTx"
		}
		if exec && t.Want == "refuse" {
			fail("no-tx-below-base-fee-or-min-gas-price-executes", desc(i)+": "+what)
		}
		if !exec && t.Want == "admit" {
			fail("tx-at-or-above-floor-is-admitted", desc(i)+": "+t.Class+" "+log)
		}
	}
	if c.Mode != c09ModeDeliver {
		typ := abci.CheckTxType_New
		if c.Mode == c09ModeRecheck {
			typ = abci.CheckTxType_Recheck
		}
		h0 := w.Hash(w.Ctx())
		for i := range points {
			var res *abci.ResponseCheckTx
			var err error
			var pan string
			func() {
				defer func() {
					if r := recover(); r != nil {
						pan = fmt.Sprint(r)
					}
				}()
				res, err = w.App.CheckTx(&abci.RequestCheckTx{Tx: raw[i], Type: typ})
			}()
			if pan != "" || err != nil || res == nil {
				txsOut[i].Class = "refused-other(abci)"
				judge(i, fmt.Sprintf("panic=%q err=%v", pan, err))
				continue
			}
			txsOut[i].Class = classify(res.Code, res.Codespace, res.Log)
			judge(i, res.Log)
		}
		if h1 := w.Hash(w.Ctx()); h1 != h0 {
			fail("check-tx-leaves-committed-state-alone", fmt.Sprintf("lane=%s mode=%s: the committed state changed", c.Lane, c.Mode))
		}
		return
	}
	type obs struct {
		bal  *big.Int
		seq  uint64
		rcpt [2]*big.Int
	}
	look := func(ctx sdk.Context, i int) obs {
		return obs{bal: w.Balance(ctx, w.Wallets[i].Eth(), world.Denom), seq: w.Nonce(ctx, w.Wallets[i].Eth()),
			rcpt: [2]*big.Int{w.Balance(ctx, c09Rcpt(i, 0), world.Denom), w.Balance(ctx, c09Rcpt(i, 1), world.Denom)}}
	}
	var before []obs
	for i := range points {
		before = append(before, look(ctx0, i))
	}
	br := w.Block(raw)
	if br.Panic != "" || br.Err != nil {
		fail("block-executes", fmt.Sprintf("lane=%s gas=%d: panic=%q err=%v", c.Lane, g, br.Panic, br.Err))
		return
	}
	ctx1 := w.Ctx()
	G := new(big.Int).SetUint64(g)
	var twinTxs [][]byte
	for i := range points {
		r := br.Res.TxResults[i]
		txsOut[i].Class = classify(r.Code, r.Codespace, r.Log)
		judge(i, r.Log)
		after := look(ctx1, i)
		spent := new(big.Int).Sub(before[i].bal, after.bal)
		if r.Code == 0 {
			// the price that was really paid: (balance decrease - amount sent) / gas, must not be below the floor
			paid := new(big.Int).Sub(spent, big.NewInt(amounts[i]))
			if !c09RatGE(paid, g, aw.fl) {
				fail("no-tx-below-base-fee-or-min-gas-price-executes", fmt.Sprintf("%s: executed and paid %s = %s per gas, below the floor", desc(i), paid,
					new(big.Rat).SetFrac(paid, G).FloatString(6)))
			}
			if after.seq != before[i].seq+1 || after.rcpt[0].Cmp(before[i].rcpt[0]) <= 0 {
				fail("alphabet-sanity", desc(i)+": code 0 but the transfer did not happen")
			}
		} else if spent.Sign() != 0 || after.seq != before[i].seq || after.rcpt[0].Cmp(before[i].rcpt[0]) != 0 || after.rcpt[1].Cmp(before[i].rcpt[1]) != 0 {
			fail("refused-tx-changes-no-state", fmt.Sprintf("%s: refused (%s) but sender balance %s -> %s, sequence %d -> %d, recipient %s -> %s", desc(i), r.Log,
				before[i].bal, after.bal, before[i].seq, after.seq, before[i].rcpt[0], after.rcpt[0]))
		}
		if r.Code == 0 {
			twinTxs = append(twinTxs, raw[i])
		}
	}
	// twin: the same world with only the transactions that were executed; apart from the fee market store (the refused
	// transactions consumed block gas in the ante handler, which the base fee formula counts) the states must be identical
	if len(twinTxs) != len(raw) {
		tw, err := c09AdmNewWorld(c, c09AdmWallets)
		if err != nil {
			fail("world", err.Error())
			return
		}
		tb := tw.w.Block(twinTxs)
		if tb.Panic != "" || tb.Err != nil {
			fail("block-executes", fmt.Sprintf("twin block: panic=%q err=%v", tb.Panic, tb.Err))
			return
		}
		for i, r := range tb.Res.TxResults {
			if r.Code != 0 {
				fail("alphabet-sanity", fmt.Sprintf("lane=%s gas=%d: executed tx %d is refused when the refused ones are left out: %s", c.Lane, g, i, r.Log))
			}
		}
		if w.Hash(ctx1, "feemarket") != tw.w.Hash(tw.w.Ctx(), "feemarket") {
			var ds []string
			da, db := w.Dump(ctx1), tw.w.Dump(tw.w.Ctx())
			delete(da, "feemarket")
			delete(db, "feemarket")
			for _, d := range world.Diff(db, da) {
				if len(ds) < 6 {
					ds = append(ds, d.String())
				}
			}
			fail("refused-tx-changes-no-state", fmt.Sprintf("lane=%s height %d base=%s min=%s gas=%d: the block with the under-priced transactions leaves a state different from the block without them: %s",
				c.Lane, c.AtHeight, aw.base, aw.minDec, g, strings.Join(ds, "; ")))
		}
	}
	return
}

func c09ModeName(m string) string {
	if m == c09ModeDeliver {
		return "deliver"
	}
	return m
}

func c09AdmOutcome(ts []c09AdmTx) string {
	var s []string
	for _, t := range ts {
		s = append(s, t.Point.Label+"="+t.Class)
	}
	return strings.Join(s, ",")
}

type c09AdmCfg struct{ BaseFee, MinGas, NodeMin string }

// c09CosmosAdmCases enumerates the Cosmos-lane groups, simplest first.
func c09CosmosAdmCases(thorough bool) []c09AdmCase {
	cfgs := []c09AdmCfg{
		{"", "0", ""},                             // base fee 1 gwei > min 0
		{"", "900000000", ""},                     // base > min at height 1, clamped onto the min afterwards
		{"", "1000000005.7", ""},                  // min > base at height 1 (floor = trunc(min)), equal afterwards
		{"", "1000000000.999999999999999999", ""}, // trunc(min) = base
		{"3000000000", "1000000000.5", ""},        // base > non-integer min > 0 at every height
		{"7", "12.5", ""},                         // tiny prices: min > base
		{"1", "0.5", ""},                          // floor 1, trunc(min) = 0
		{"1000000000", "1000000003.5", "1000000007.5" + world.Denom}, // node-local minimum above both (CheckTx(New) only)
	}
	gases := []uint64{200_000, 199_999, 500_001, 1_234_567}
	heights := []int{1, 2}
	if thorough {
		cfgs = append(cfgs,
			c09AdmCfg{"1234567891", "0", ""},
			c09AdmCfg{"18446744073709551629", "0", ""},                   // 2^64+13
			c09AdmCfg{"5", "18446744073709551629.25", ""},                // min above 2^64
			c09AdmCfg{"1000000000", "1000000000.000000000000000001", ""}, // min just above an integer
			c09AdmCfg{"2000000000", "1999999999.5", "1999999999.9" + world.Denom},
			c09AdmCfg{"3", "3", "2.9" + world.Denom},
		)
		gases = append(gases, 150_001, 250_000, 333_333, 777_777, 1_000_000, 2_000_003, 39_999_999)
		heights = append(heights, 3)
	}
	var out []c09AdmCase
	for _, g := range gases {
		for _, cf := range cfgs {
			for _, h := range heights {
				for _, mode := range []string{c09ModeDeliver, c09ModeCheck, c09ModeRecheck} {
					if mode != c09ModeDeliver && h == 1 {
						continue // before the first commit the check state is the empty store (CheckTx refuses every tx: no fee denom yet)
					}
					for _, lane := range []string{c09LaneBank, c09LaneMulti} {
						out = append(out, c09AdmCase{Lane: lane, Mode: mode, MinGas: cf.MinGas, BaseFee: cf.BaseFee, NodeMin: cf.NodeMin, AtHeight: h, Gas: g})
					}
					if g == gases[0] || g == gases[1] || thorough {
						for _, tip := range []string{"0", "1", "gap-1", "gap", "gap+1", "floor"} {
							out = append(out, c09AdmCase{Lane: c09LaneDynExt, Tip: tip, Mode: mode, MinGas: cf.MinGas, BaseFee: cf.BaseFee, NodeMin: cf.NodeMin, AtHeight: h, Gas: g})
						}
					}
				}
			}
		}
	}
	return out
}
