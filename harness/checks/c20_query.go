package checks

// C20 part (b), query half: every gRPC query method of x/evm, x/feemarket, x/cpc and x/vauth (enumerated from the registered
// protobuf service descriptors) with empty, valid, field-wise mutated and raw short byte-string requests, through BaseApp.Query.

import (
	"encoding/hex"
	"encoding/json"
	"fmt"
	"math"
	"os"
	"reflect"
	"strings"
	"time"

	sdk "github.com/cosmos/cosmos-sdk/types"
	"github.com/cosmos/cosmos-sdk/types/query"
	"github.com/cosmos/gogoproto/proto"
	"github.com/ethereum/go-ethereum/common"
	"github.com/ethereum/go-ethereum/common/hexutil"
	"google.golang.org/protobuf/reflect/protoreflect"

	cpctypes "github.com/EscanBE/evermint/v12/x/cpc/types"
	evmtypes "github.com/EscanBE/evermint/v12/x/evm/types"
	vauthtypes "github.com/EscanBE/evermint/v12/x/vauth/types"

	"verif/harness/world"
)

var c20QueryServices = []string{"ethermint.evm.v1.Query", "ethermint.feemarket.v1.Query", "evermint.cpc.v1.Query", "evermint.vauth.v1.Query"}

// c20KnownQueryMethods are the methods for which the generated "valid" request is known to be answered without error; a method that
// appears later is still explored, its valid request is only noted when it fails.
var c20KnownQueryMethods = map[string]bool{}

func init() {
	for _, p := range []string{
		"ethermint.evm.v1.Query/Account", "ethermint.evm.v1.Query/CosmosAccount", "ethermint.evm.v1.Query/ValidatorAccount",
		"ethermint.evm.v1.Query/Balance", "ethermint.evm.v1.Query/Storage", "ethermint.evm.v1.Query/Code", "ethermint.evm.v1.Query/Params",
		"ethermint.evm.v1.Query/EthCall", "ethermint.evm.v1.Query/EstimateGas", "ethermint.evm.v1.Query/TraceTx", "ethermint.evm.v1.Query/TraceBlock",
		"ethermint.evm.v1.Query/BaseFee", "ethermint.feemarket.v1.Query/Params", "ethermint.feemarket.v1.Query/BaseFee",
		"evermint.cpc.v1.Query/CustomPrecompiledContracts", "evermint.cpc.v1.Query/CustomPrecompiledContract",
		"evermint.cpc.v1.Query/Erc20CustomPrecompiledContractByDenom", "evermint.cpc.v1.Query/Params",
		"evermint.vauth.v1.Query/ProofExternalOwnedAccount",
	} {
		c20KnownQueryMethods["/"+p] = true
	}
}

type c20QMethod struct {
	Path    string // "/pkg.Service/Method"
	Service string
	Name    string
	Req     reflect.Type // pointer to the gogoproto request struct
}

// c20QueryMethods enumerates the methods of the four query services from the protobuf registry.
func c20QueryMethods() []c20QMethod {
	var out []c20QMethod
	for _, svc := range c20QueryServices {
		d, err := proto.HybridResolver.FindDescriptorByName(protoreflect.FullName(svc))
		if err != nil {
			fmt.Fprintf(os.Stderr, "C20: query service %s is not registered: %v\n", svc, err)
			os.Exit(2)
		}
		sd, ok := d.(protoreflect.ServiceDescriptor)
		if !ok {
			fmt.Fprintf(os.Stderr, "C20: %s is not a service\n", svc)
			os.Exit(2)
		}
		for i := 0; i < sd.Methods().Len(); i++ {
			m := sd.Methods().Get(i)
			t := proto.MessageType(string(m.Input().FullName()))
			if t == nil {
				fmt.Fprintf(os.Stderr, "C20: request type %s of %s is not registered\n", m.Input().FullName(), m.FullName())
				os.Exit(2)
			}
			out = append(out, c20QMethod{Path: "/" + svc + "/" + string(m.Name()), Service: svc, Name: string(m.Name()), Req: t})
		}
	}
	return out
}

// c20QueryWorld: the common world plus one block in which wallet D proves that wallet C is an externally owned account
// (so that every query method has a request that is answered without error).
func c20QueryWorld() *world.World {
	w := c20World()
	c, d := w.Wallets[c20C], w.Wallets[c20D]
	gas := uint64(300_000)
	tx := w.CosmosTx(d, uint64(len(w.Validators)+c20D), 0, gas, bigMul(gas, Gwei), &vauthtypes.MsgSubmitProofExternalOwnedAccount{
		Submitter: d.Bech(), Account: c.Bech(), Signature: "0x" + hex.EncodeToString(c20SignMsg(c, vauthtypes.MessageToSign))})
	br := w.Block([][]byte{tx})
	if prob := c20BlockProblem(br, 1); prob != "" || br.Res.TxResults[0].Code != 0 {
		fmt.Fprintf(os.Stderr, "C20: query world setup failed: %s %v\n", prob, br.Res)
		os.Exit(2)
	}
	return w
}

func c20Erc20Addr(w *world.World) common.Address {
	for _, pc := range c20PcContracts(w) {
		if pc.Type == cpctypes.CpcTypeErc20 {
			return pc.Addr
		}
	}
	return common.Address{}
}

func c20SeedMsg(w *world.World) *evmtypes.MsgEthereumTx {
	msg := &evmtypes.MsgEthereumTx{}
	if err := msg.FromEthereumTx(c20Seeds(w)[0].Eth, w.Wallets[c20C].Eth()); err != nil {
		panic(err)
	}
	return msg
}

func c20ValidArgsJSON(w *world.World) []byte {
	from, to := w.Wallets[c20C].Eth(), AddrLog1
	gas := hexutil.Uint64(100_000)
	bz, _ := json.Marshal(evmtypes.TransactionArgs{From: &from, To: &to, Gas: &gas})
	return bz
}

func c20IsProtoField(f reflect.StructField) bool { return f.Tag.Get("protobuf") != "" }

// c20FillValid sets every field of a request struct to a value the handler accepts.
func c20FillValid(w *world.World, m c20QMethod, v reflect.Value) {
	t := v.Type()
	for i := 0; i < t.NumField(); i++ {
		f := t.Field(i)
		if !c20IsProtoField(f) {
			continue
		}
		fv := v.Field(i)
		switch {
		case fv.Kind() == reflect.String:
			s := "x"
			switch f.Name {
			case "Address":
				switch {
				case strings.Contains(m.Service, ".cpc."):
					s = c20Erc20Addr(w).Hex()
				case m.Name == "Storage" || m.Name == "Code":
					s = AddrSclear.Hex()
				default:
					s = w.Wallets[c20C].Eth().Hex()
				}
			case "ConsAddress":
				s = w.Validators[0].Cons().String()
			case "Key":
				s = h(1).Hex()
			case "BlockHash":
				s = h(7).Hex()
			case "MinDenom":
				s = world.Denom
			case "Account":
				s = w.Wallets[c20C].Bech()
			}
			fv.SetString(s)
		case fv.Kind() == reflect.Int64 || fv.Kind() == reflect.Int32:
			n := int64(1)
			if f.Name == "BlockNumber" {
				n = w.Height
			}
			fv.SetInt(n)
		case fv.Kind() == reflect.Uint64 || fv.Kind() == reflect.Uint32:
			n := uint64(1)
			if f.Name == "GasCap" {
				n = c20GasCap
			}
			fv.SetUint(n)
		case fv.Kind() == reflect.Slice && fv.Type().Elem().Kind() == reflect.Uint8:
			b := []byte{1}
			switch f.Name {
			case "Args":
				b = c20ValidArgsJSON(w)
			case "ProposerAddress":
				b = w.Validators[0].Cons()
			}
			fv.SetBytes(b)
		case fv.Type() == reflect.TypeOf(&evmtypes.MsgEthereumTx{}):
			fv.Set(reflect.ValueOf(c20SeedMsg(w)))
		case fv.Type() == reflect.TypeOf([]*evmtypes.MsgEthereumTx{}):
			if f.Name == "Txs" {
				fv.Set(reflect.ValueOf([]*evmtypes.MsgEthereumTx{c20SeedMsg(w)}))
			}
		case fv.Type() == reflect.TypeOf(time.Time{}):
			fv.Set(reflect.ValueOf(w.BlockTime(w.Height)))
		}
		// pointers to TraceConfig / PageRequest stay nil in the valid request
	}
}

type c20QCase struct {
	Label string
	Data  []byte
	Valid bool
}

var c20BigString = strings.Repeat("a", 10_000)

var c20ArgsVariants = []string{
	`{`, `null`, `[]`, `""`, `{}`, `{"from":"0x"}`, `{"to":"0x00"}`, `{"from":null,"to":null}`,
	`{"gas":"0xffffffffffffffff"}`, `{"gas":"0x0"}`, `{"gas":"-0x1"}`, `{"gasPrice":"0x1","maxFeePerGas":"0x1"}`,
	`{"maxFeePerGas":"0x0","maxPriorityFeePerGas":"0xff"}`,
	`{"value":"0xffffffffffffffffffffffffffffffffffffffffffffffffffffffffffffffff"}`,
	`{"value":"0x10000000000000000000000000000000000000000000000000000000000000000"}`,
	`{"data":"0x","input":"0x01"}`, `{"data":"0xzz"}`, `{"nonce":"0xffffffffffffffff"}`, `{"chainId":"0x0"}`, `{"chainId":"0xffffffffffffffffffffffff"}`,
	`{"accessList":[{"address":"0x00000000000000000000000000000000000c0005","storageKeys":[]}]}`,
	`{"accessList":[{"address":"0x","storageKeys":["0x"]}]}`,
	`{"data":"0xfe"}`, `{"data":"0x60006000fd"}`, `{"data":"0x5b600056"}`,
	`{"to":"0x00000000000000000000000000000000000c0009"}`, `{"to":"0x00000000000000000000000000000000000c0007"}`,
	`{"from":"0x00000000000000000000000000000000000c0001","to":"0x00000000000000000000000000000000000c0003","gas":"0x5208"}`,
}

// c20QCases lists the structured request variants of one method.
func c20QCases(w *world.World, m c20QMethod) []c20QCase {
	var out []c20QCase
	fresh := func() reflect.Value {
		p := reflect.New(m.Req.Elem())
		c20FillValid(w, m, p.Elem())
		return p
	}
	add := func(label string, p reflect.Value, valid bool) {
		var bz []byte
		var err error
		if pnc := c20Guard(func() { bz, err = proto.Marshal(p.Interface().(proto.Message)) }); pnc != "" || err != nil {
			return // the client library refuses to encode this value: not an input a node can receive
		}
		out = append(out, c20QCase{Label: label, Data: bz, Valid: valid})
	}
	out = append(out, c20QCase{Label: "empty"})
	add("valid", fresh(), true)
	t := m.Req.Elem()
	for i := 0; i < t.NumField(); i++ {
		f := t.Field(i)
		if !c20IsProtoField(f) {
			continue
		}
		set := func(label string, val interface{}) {
			p := fresh()
			fv := p.Elem().Field(i)
			if val == nil {
				fv.Set(reflect.Zero(fv.Type()))
			} else {
				fv.Set(reflect.ValueOf(val).Convert(fv.Type()))
			}
			add(f.Name+"="+label, p, false)
		}
		ft := f.Type
		switch {
		case ft.Kind() == reflect.String:
			set(`""`, "")
			set("10kB", c20BigString)
			set("non-hex", "zz-not-hex")
			set("0x", "0x")
			set("odd-hex", "0x0")
			set("bech32", w.Wallets[c20C].Bech())
			set("hex-address", w.Wallets[c20C].Eth().Hex())
			set("32-byte-hex", h(1).Hex()+"ff")
		case ft.Kind() == reflect.Int64:
			set("-1", int64(-1))
			set("min", int64(math.MinInt64))
			set("max", int64(math.MaxInt64))
			set("0", int64(0))
		case ft.Kind() == reflect.Int32:
			set("-1", int32(-1))
			set("max", int32(math.MaxInt32))
		case ft.Kind() == reflect.Uint64:
			set("0", uint64(0))
			set("20999", uint64(20_999))
			set("2^63", uint64(1)<<63)
			set("max", uint64(math.MaxUint64))
		case ft.Kind() == reflect.Uint32:
			set("max", uint32(math.MaxUint32))
		case ft.Kind() == reflect.Slice && ft.Elem().Kind() == reflect.Uint8:
			set("nil", nil)
			set("10kB", []byte(c20BigString))
			set("0xff", []byte{0xff})
			if f.Name == "Args" {
				for _, a := range c20ArgsVariants {
					set("json:"+a, []byte(a))
				}
			}
		case ft == reflect.TypeOf(&evmtypes.MsgEthereumTx{}):
			good := c20SeedMsg(w)
			set("nil", nil)
			set("empty", &evmtypes.MsgEthereumTx{})
			set("bad-inner", &evmtypes.MsgEthereumTx{From: good.From, MarshalledTx: []byte{0xc0}})
			set("truncated-inner", &evmtypes.MsgEthereumTx{From: good.From, MarshalledTx: good.MarshalledTx[:len(good.MarshalledTx)/2]})
			set("bad-from", &evmtypes.MsgEthereumTx{From: "zz", MarshalledTx: good.MarshalledTx})
			set("empty-from", &evmtypes.MsgEthereumTx{MarshalledTx: good.MarshalledTx})
		case ft == reflect.TypeOf([]*evmtypes.MsgEthereumTx{}):
			good := c20SeedMsg(w)
			set("nil", nil)
			set("[empty]", []*evmtypes.MsgEthereumTx{{}})
			set("[bad-inner]", []*evmtypes.MsgEthereumTx{{From: good.From, MarshalledTx: []byte{0xc0}}})
			set("[good,good]", []*evmtypes.MsgEthereumTx{good, good})
			many := make([]*evmtypes.MsgEthereumTx, 40)
			for k := range many {
				many[k] = good
			}
			set("[good x40]", many)
		case ft == reflect.TypeOf(&evmtypes.TraceConfig{}):
			set("empty", &evmtypes.TraceConfig{})
			set("callTracer", &evmtypes.TraceConfig{Tracer: "callTracer"})
			set("callTracer+cfg", &evmtypes.TraceConfig{Tracer: "callTracer", TracerJsonConfig: `{"onlyTopCall":true}`})
			set("prestateTracer", &evmtypes.TraceConfig{Tracer: "prestateTracer"})
			set("4byteTracer", &evmtypes.TraceConfig{Tracer: "4byteTracer"})
			set("unknown-tracer", &evmtypes.TraceConfig{Tracer: "nonexistent"})
			set("js-garbage", &evmtypes.TraceConfig{Tracer: "{bad js"})
			set("js-throwing", &evmtypes.TraceConfig{Tracer: `{step: function() { throw 1 }, fault: function() {}, result: function() { return null }}`})
			set("10kB-tracer", &evmtypes.TraceConfig{Tracer: c20BigString})
			set("timeout-1ns", &evmtypes.TraceConfig{Timeout: "1ns"})
			set("timeout-garbage", &evmtypes.TraceConfig{Timeout: "garbage"})
			set("timeout-negative", &evmtypes.TraceConfig{Timeout: "-5s"})
			set("limit--1", &evmtypes.TraceConfig{Limit: -1})
			set("limit-max", &evmtypes.TraceConfig{Limit: math.MaxInt32})
			set("reexec-max", &evmtypes.TraceConfig{Reexec: math.MaxUint64})
			set("bad-json-config", &evmtypes.TraceConfig{Tracer: "callTracer", TracerJsonConfig: "{"})
			set("all-flags", &evmtypes.TraceConfig{DisableStack: true, DisableStorage: true, Debug: true, EnableMemory: true, EnableReturnData: true})
			set("empty-overrides", &evmtypes.TraceConfig{Overrides: &evmtypes.ChainConfig{}})
		case ft == reflect.TypeOf(&query.PageRequest{}):
			set("empty", &query.PageRequest{})
			set("limit-max", &query.PageRequest{Limit: math.MaxUint64})
			set("offset-max", &query.PageRequest{Offset: math.MaxUint64})
			set("key-0xff", &query.PageRequest{Key: []byte{0xff}})
			set("key+offset", &query.PageRequest{Key: []byte{1}, Offset: 1})
			set("reverse+count", &query.PageRequest{Reverse: true, CountTotal: true})
			set("limit-1", &query.PageRequest{Limit: 1, CountTotal: true})
		case ft == reflect.TypeOf(time.Time{}):
			set("zero", time.Time{})
			set("1970", time.Unix(0, 0).UTC())
			set("9999", time.Date(9999, 12, 31, 23, 59, 59, 0, time.UTC))
		}
	}
	return out
}

// c20RawCount / c20RawAt enumerate the raw request byte strings: every string of length 1; length 2 (quick: first byte in c20S7,
// thorough: all); thorough also length 3 with the first two bytes in c20S7.
func c20RawCount(thorough bool) int {
	if thorough {
		return 256 + 65536 + len(c20S7)*len(c20S7)*256
	}
	return 256 + len(c20S7)*256
}

func c20RawAt(i int, thorough bool) []byte {
	if i < 256 {
		return []byte{byte(i)}
	}
	i -= 256
	if !thorough {
		return []byte{c20S7[i>>8], byte(i)}
	}
	if i < 65536 {
		return []byte{byte(i >> 8), byte(i)}
	}
	i -= 65536
	n := len(c20S7)
	return []byte{c20S7[(i>>8)/n], c20S7[(i>>8)%n], byte(i)}
}

// c20QueryUnits: per method one unit with the structured cases (From = To = 0, Shape "structured") and ranges of raw strings.
func c20QueryUnits(tier string) []c20Unit {
	var out []c20Unit
	for _, m := range c20QueryMethods() {
		out = append(out, c20Unit{Part: "b-query", Tier: tier, Family: m.Path, Shape: "structured"})
		out = append(out, func() []c20Unit {
			us := c20Ranges("b-query", tier, m.Path, c20RawCount(tier == "thorough"), 8192, 0)
			for i := range us {
				us[i].Shape = "raw"
			}
			return us
		}()...)
	}
	return out
}

func c20RunBQuery(u c20Unit, rec *c20Rec) {
	var m c20QMethod
	found := false
	for _, x := range c20QueryMethods() {
		if x.Path == u.Family {
			m, found = x, true
		}
	}
	if !found {
		fmt.Fprintf(os.Stderr, "C20: unknown query method %q\n", u.Family)
		os.Exit(2)
	}
	w := c20QueryWorld()
	type qc struct {
		idx  int
		c    c20QCase
		kind string
	}
	var cases []qc
	if u.Shape == "structured" {
		all := c20QCases(w, m)
		want := map[int]bool{}
		for _, i := range u.Only {
			want[i] = true
		}
		for i, c := range all {
			if len(u.Only) == 0 || want[i] {
				cases = append(cases, qc{i, c, c.Label})
			}
		}
	} else {
		for _, i := range u.indices() {
			bz := c20RawAt(i, u.thorough())
			cases = append(cases, qc{i, c20QCase{Label: fmt.Sprintf("raw:%x", bz), Data: bz}, fmt.Sprintf("raw-len%d", len(bz))})
		}
	}
	for _, c := range cases {
		one := u
		one.Only = []int{c.idx}
		class, res, p := c20Query(w, m.Path, c.c.Data)
		rec.count("abci_calls", 1)
		rec.count("inputs", 1)
		if p != "" {
			rec.fail("no-panic-escapes-Query", c20Signature(p), fmt.Sprintf("%s request %s: panic escapes Query: %s", m.Path, c.c.Label, p), one)
			w = c20QueryWorld()
			continue
		}
		if res != nil && c20IsRecoveredPanic(res.Codespace, res.Code) {
			rec.recovered(m.Path+" "+c.c.Label, res.Log)
			class = "recovered-panic"
		}
		if c.c.Valid && class != "ok" {
			log := ""
			if res != nil {
				log = res.Log
			}
			if c20KnownQueryMethods[m.Path] {
				rec.fail("alphabet-sanity", "", fmt.Sprintf("%s: the request built to be valid is refused: %s %s", m.Path, class, log), one)
			} else if rec.run != nil {
				rec.run.Note("C20: no valid request known for new query method %s (%s %s); extend c20FillValid", m.Path, class, log)
			}
		}
		v := m.Name + " " + class
		rec.outcome("b-query: " + v)
		if u.Shape == "structured" {
			rec.distinct("b-query|" + m.Path + "|" + c.kind + "|" + class)
		} else {
			rec.distinct("b-query|" + m.Path + "|" + c.kind + "|" + class)
		}
	}
}

func bigMul(a uint64, b *bigIntT) *bigIntT {
	return new(bigIntT).Mul(new(bigIntT).SetUint64(a), b)
}

var _ = sdk.AccAddress{}
