package checks

// C14 — transaction indexer and JSON-RPC views agree with consensus results.
//
// Histories of blocks over the shared tx alphabet are executed on the real app; for every block the real cmttypes.Block
// and the FinalizeBlock response are recorded (c14_node.go). The real indexer.KVIndexer, the real rpc/backend.Backend
// (+ the eth filters on top of it) and the real server.EVMIndexerService run against a fake CometBFT client serving
// that record. Ground truth is what world.ParseReceipt reads from the consensus events (as in C13).

import (
	"bytes"
	"context"
	"encoding/json"
	"fmt"
	"math/big"
	"os"
	"sort"
	"strings"
	"sync"

	"cosmossdk.io/log"
	dbm "github.com/cosmos/cosmos-db"
	"github.com/cosmos/cosmos-sdk/client"
	"github.com/cosmos/cosmos-sdk/server"
	"github.com/ethereum/go-ethereum/common"
	"github.com/ethereum/go-ethereum/common/hexutil"
	ethtypes "github.com/ethereum/go-ethereum/core/types"
	ethfilters "github.com/ethereum/go-ethereum/eth/filters"

	"github.com/EscanBE/evermint/v12/indexer"
	"github.com/EscanBE/evermint/v12/rpc/backend"
	rpcfilters "github.com/EscanBE/evermint/v12/rpc/namespaces/ethereum/eth/filters"
	rpctypes "github.com/EscanBE/evermint/v12/rpc/types"
	evertypes "github.com/EscanBE/evermint/v12/types"

	"verif/harness/ev"
	"verif/harness/world"
)

func init() { Registry["C14"] = runC14 }

const (
	c14SigResume    = "C14/indexer-resume-from-latest-skips-blocks"
	c14SigSynthetic = "C14/synthetic-receipt-counts-rejected-predecessors"
)

// c14Case is one explored chain (block 1 is always empty; Blocks[i] becomes height i+2) and whether the crash-point
// enumeration runs on it.
type c14Case struct {
	MaxGas int64      `json:"max_gas"`
	Blocks [][]TxSpec `json:"blocks"`
	Crash  bool       `json:"crash"`
}

type c14Obs struct {
	Findings    []ev.Finding
	Outcome     string
	Nontrivial  bool
	States      int // distinct index dumps seen for this chain
	Transitions int // IndexBlock calls made directly + service lives (crash / restart runs)
	Lookups     int
	CrashPoints int
	Restarts    int
	Txs         int
}

var (
	c14SrvOnce sync.Once
	c14SrvCtx  *server.Context
)

func c14ServerCtx() *server.Context {
	c14SrvOnce.Do(func() {
		c14SrvCtx = server.NewDefaultContext()
		c14SrvCtx.Viper.Set("telemetry.global-labels", []interface{}{})
	})
	return c14SrvCtx
}

func c14ClientCtx(w *world.World, node *c14Node) client.Context {
	return client.Context{}.WithChainID(world.ChainID).WithTxConfig(w.Enc.TxConfig).WithCodec(w.Enc.Codec).
		WithInterfaceRegistry(w.Enc.InterfaceRegistry).WithClient(node)
}

// c14Model is the index a chain defines: for every admitted eth tx of the given heights
// hash -> (height, position in block, eth index, failed) and (height, eth index) -> hash.
func c14Model(ch *c14Chain, heights []int64) string {
	m := map[string]string{}
	for _, h := range heights {
		for _, t := range ch.Blocks[h].Admitted {
			r := evertypes.TxResult{Height: h, TxIndex: uint32(t.Pos), EthTxIndex: t.EthIdx, Failed: t.Status != ethtypes.ReceiptStatusSuccessful}
			m[string(indexer.TxHashKey(t.Hash))] = string(ch.W.Enc.Codec.MustMarshal(&r))
			m[string(indexer.TxIndexKey(h, t.EthIdx))] = string(t.Hash.Bytes())
		}
	}
	return c14DumpFromMap(m)
}

func c14Run(c c14Case) (obs c14Obs) {
	fail := func(clause, sig, format string, a ...interface{}) {
		obs.Findings = append(obs.Findings, ev.Finding{Clause: clause, Signature: sig, Detail: fmt.Sprintf(format, a...), Replay: c})
	}
	ch, err := newC14Chain(c)
	if err != nil {
		fail("block-executes", "", "%v", err)
		return obs
	}
	for _, p := range ch.Problems {
		fail("consensus-ground-truth", "", "%s", p)
	}
	dumps := map[string]bool{}
	seen := func(d string) { dumps[d] = true }

	// outcome class + alphabet sanity
	var oc []string
	for _, h := range ch.heights()[1:] {
		b := ch.Blocks[h]
		for _, t := range b.Txs {
			obs.Txs++
			oc = append(oc, t.Class)
			where := fmt.Sprintf("block %d tx %d (%s)", h, t.Pos, t.Spec.Kind)
			switch t.Spec.Kind {
			case KLog1, KCreateOK:
				if t.Class == "ok" && len(t.Logs) != 1 {
					fail("alphabet-sanity", "", "%s: %d logs", where, len(t.Logs))
				}
			case KLog2:
				if t.Class == "ok" && len(t.Logs) != 2 {
					fail("alphabet-sanity", "", "%s: %d logs", where, len(t.Logs))
				}
			case KLogRevert, KCreateFail:
				if t.Class == "ok" {
					fail("alphabet-sanity", "", "%s: expected vm error", where)
				}
			case KBadNonce:
				if t.Class != "rejected" && t.Class != "dropped" {
					fail("alphabet-sanity", "", "%s: class %s", where, t.Class)
				}
			case KIntrinsicLow, KValueTooHigh:
				if t.Class == "ok" || t.Class == "vmerr" {
					fail("alphabet-sanity", "", "%s: class %s", where, t.Class)
				}
			case KCosmosSend:
				if t.Class != "cosmos" {
					fail("alphabet-sanity", "", "%s: class %s", where, t.Class)
				}
			}
			if t.Spec.Kind != KBadNonce && t.Class == "rejected" {
				fail("alphabet-sanity", "", "%s: valid tx rejected", where)
			}
			if c.MaxGas > 1_000_000 && t.Class == "dropped" {
				fail("alphabet-sanity", "", "%s: dropped in a roomy block", where)
			}
		}
		oc = append(oc, "|")
	}
	obs.Outcome = strings.Join(oc, ",")

	node := newC14Node(ch, ch.Tip, true)
	cctx := c14ClientCtx(ch.W, node)
	db := dbm.NewMemDB()
	kv := indexer.NewKVIndexer(db, log.NewNopLogger(), cctx)
	be := backend.NewBackend(c14ServerCtx(), log.NewNopLogger(), cctx, kv)

	// ---- part 1: index <-> chain, after every IndexBlock ----
	indexed := map[int64]bool{}
	seen(c14Dump(db))
	c14CheckIndex(kv, ch, indexed, &obs, fail, "empty index")
	for _, h := range ch.heights() {
		b := ch.Blocks[h]
		if err := kv.IndexBlock(b.Blk, b.Res.TxsResults); err != nil {
			fail("index-block-succeeds", "", "height %d: %v", h, err)
		}
		obs.Transitions++
		indexed[h] = true
		d := c14Dump(db)
		seen(d)
		if want := c14Model(ch, ch.heights()[:h]); d != want {
			fail("index-equals-chain-model", "", "after indexing heights 1..%d:\n%s", h, c14DiffDumps(want, d))
		}
		c14CheckIndex(kv, ch, indexed, &obs, fail, fmt.Sprintf("after indexing 1..%d", h))
		// ---- part 2: JSON-RPC <-> consensus, for everything indexed so far ----
		if h >= 2 {
			c14CheckRPC(be, kv, ch, h, &obs, fail)
		}
	}
	full := c14Dump(db)

	// ---- part 3: idempotence, order independence ----
	// "indexing a block again changes nothing": neither the database nor anything an observer of the indexer / the backend can see
	// (the head the indexer reports, eth_blockNumber, what the tag "latest" resolves to)
	headViews := func() string {
		head, herr := kv.GetLastRequestIndexedBlock()
		bn, berr := be.BlockNumber()
		latest, lerr := be.GetBlockByNumber(rpctypes.EthLatestBlockNumber, false)
		var lh, ln interface{}
		if latest != nil {
			lh, ln = latest["hash"], latest["number"]
		}
		last, _ := kv.LastIndexedBlock()
		return fmt.Sprintf("GetLastRequestIndexedBlock=%d(%v) eth_blockNumber=%d(%v) latest={number %v hash %v}(%v) LastIndexedBlock=%d", head, herr, bn, berr, ln, lh, lerr, last)
	}
	views0 := headViews()
	for _, h := range ch.heights() {
		for rep := 0; rep < 2; rep++ {
			b := ch.Blocks[h]
			if err := kv.IndexBlock(b.Blk, b.Res.TxsResults); err != nil {
				fail("index-block-succeeds", "", "re-indexing height %d: %v", h, err)
			}
			obs.Transitions++
			if d := c14Dump(db); d != full {
				fail("reindex-changes-nothing", "", "re-indexing height %d (time %d):\n%s", h, rep+1, c14DiffDumps(full, d))
			}
			if v := headViews(); v != views0 {
				fail("reindex-changes-nothing", "", "re-indexing height %d (time %d) of a chain indexed up to %d changes the head views: before %s, after %s", h, rep+1, ch.Tip, views0, v)
			}
		}
	}
	c14CheckIndex(kv, ch, indexed, &obs, fail, "after re-indexing")
	var nonEmpty []int64
	for _, h := range ch.heights() {
		if len(ch.Blocks[h].Txs) > 0 {
			nonEmpty = append(nonEmpty, h)
		}
	}
	if len(nonEmpty) >= 2 {
		for _, perm := range c14Perms(nonEmpty) {
			if sort.SliceIsSorted(perm, func(i, j int) bool { return perm[i] < perm[j] }) {
				continue
			}
			db2 := dbm.NewMemDB()
			kv2 := indexer.NewKVIndexer(db2, log.NewNopLogger(), cctx)
			done := map[int64]bool{}
			for _, h := range perm {
				b := ch.Blocks[h]
				if err := kv2.IndexBlock(b.Blk, b.Res.TxsResults); err != nil {
					fail("index-block-succeeds", "", "order %v height %d: %v", perm, h, err)
				}
				obs.Transitions++
				done[h] = true
				seen(c14Dump(db2))
				c14CheckIndex(kv2, ch, done, &obs, fail, fmt.Sprintf("order %v after %d", perm, h))
			}
			if d := c14Dump(db2); d != full {
				fail("index-independent-of-indexing-order", "", "order %v:\n%s", perm, c14DiffDumps(full, d))
			}
		}
	}

	// ---- part 4: crash points of the indexer service ----
	if c.Crash {
		c14CrashPart(ch, cctx, full, &obs, fail, seen)
	}
	obs.States = len(dumps)
	for _, b := range ch.Blocks {
		if b.NLogs > 1 || len(b.Admitted) != len(b.Txs) {
			obs.Nontrivial = true
		}
	}
	for _, b := range ch.Blocks {
		if string(b.Blk.Hash()) != string(b.ID.Hash) {
			fail("recorded-block-untouched", "", "block %d was mutated by the code under test", b.Height)
		}
	}
	return obs
}

func c14Perms(xs []int64) [][]int64 {
	if len(xs) <= 1 {
		return [][]int64{append([]int64{}, xs...)}
	}
	var out [][]int64
	for i := range xs {
		rest := append(append([]int64{}, xs[:i]...), xs[i+1:]...)
		for _, p := range c14Perms(rest) {
			out = append(out, append([]int64{xs[i]}, p...))
		}
	}
	return out
}

func c14DiffDumps(want, got string) string {
	w := map[string]bool{}
	for _, l := range strings.Split(want, "\n") {
		if l != "" {
			w[l] = true
		}
	}
	var sb strings.Builder
	n := 0
	for _, l := range strings.Split(got, "\n") {
		if l == "" {
			continue
		}
		if !w[l] {
			if n < 6 {
				sb.WriteString("  unexpected " + l + "\n")
			}
			n++
		}
		delete(w, l)
	}
	var missing []string
	for l := range w {
		missing = append(missing, l)
	}
	sort.Strings(missing)
	for i, l := range missing {
		if i < 6 {
			sb.WriteString("  missing    " + l + "\n")
		}
	}
	return fmt.Sprintf("%d unexpected, %d missing entries\n%s", n, len(missing), sb.String())
}

type c14Fail func(clause, sig, format string, a ...interface{})

// c14CheckIndex: oracle part 1 for the current content of an index in which exactly the heights `indexed` were indexed.
func c14CheckIndex(kv *indexer.KVIndexer, ch *c14Chain, indexed map[int64]bool, obs *c14Obs, fail c14Fail, when string) {
	// expected owner of each hash: the admitted occurrence (an eth tx is admitted at most once: admission consumes the nonce)
	type loc struct {
		h int64
		t *c14Tx
	}
	owner := map[common.Hash]loc{}
	last, first := int64(-1), int64(-1)
	for _, h := range ch.heights() {
		if !indexed[h] {
			continue
		}
		for _, t := range ch.Blocks[h].Admitted {
			if o, dup := owner[t.Hash]; dup {
				fail("consensus-ground-truth", "", "%s: hash %s admitted twice (heights %d and %d)", when, t.Hash, o.h, h)
			}
			owner[t.Hash] = loc{h, t}
		}
		if len(ch.Blocks[h].Admitted) > 0 {
			if first == -1 {
				first = h
			}
			last = h
		}
	}
	match := func(r *evertypes.TxResult, l loc) string {
		want := evertypes.TxResult{Height: l.h, TxIndex: uint32(l.t.Pos), EthTxIndex: l.t.EthIdx, Failed: l.t.Status != ethtypes.ReceiptStatusSuccessful}
		if *r != want {
			return fmt.Sprintf("got {height %d txIndex %d ethTxIndex %d failed %v} want {height %d txIndex %d ethTxIndex %d failed %v}",
				r.Height, r.TxIndex, r.EthTxIndex, r.Failed, want.Height, want.TxIndex, want.EthTxIndex, want.Failed)
		}
		return ""
	}
	for _, h := range ch.heights() {
		b := ch.Blocks[h]
		for _, t := range b.Txs {
			if t.Eth == nil {
				continue
			}
			obs.Lookups++
			r, err := kv.GetByTxHash(t.Hash)
			l, ok := owner[t.Hash]
			where := fmt.Sprintf("%s: GetByTxHash(%s) [block %d tx %d %s/%s]", when, t.Hash.Hex()[:10], h, t.Pos, t.Spec.Kind, t.Class)
			switch {
			case ok && (err != nil || r == nil):
				fail("indexed-tx-found-by-hash", "", "%s: %v", where, err)
			case ok:
				if d := match(r, l); d != "" {
					fail("hash-lookup-agrees-with-position", "", "%s: %s", where, d)
				}
			case err == nil && r != nil:
				fail("unindexed-tx-not-found", "", "%s: got {height %d txIndex %d ethTxIndex %d failed %v}", where, r.Height, r.TxIndex, r.EthTxIndex, r.Failed)
			}
		}
	}
	for _, h := range append(ch.heights(), ch.Tip+1, 0) {
		var adm []*c14Tx
		if b := ch.Blocks[h]; b != nil && indexed[h] {
			adm = b.Admitted
		}
		for e := int32(-1); e <= int32(len(adm))+1; e++ {
			obs.Lookups++
			r, err := kv.GetByBlockAndIndex(h, e)
			where := fmt.Sprintf("%s: GetByBlockAndIndex(%d, %d)", when, h, e)
			if e >= 0 && int(e) < len(adm) {
				if err != nil || r == nil {
					fail("indexed-tx-found-by-block-and-index", "", "%s: %v", where, err)
					continue
				}
				if d := match(r, loc{h, adm[e]}); d != "" {
					fail("index-lookup-agrees-with-position", "", "%s: %s", where, d)
				}
				r2, err2 := kv.GetByTxHash(adm[e].Hash)
				if err2 != nil || r2 == nil || *r2 != *r {
					fail("both-lookups-agree", "", "%s differs from GetByTxHash(%s): %v / %v (%v)", where, adm[e].Hash, r, r2, err2)
				}
			} else if err == nil && r != nil {
				fail("out-of-range-index-not-found", "", "%s: got {height %d txIndex %d ethTxIndex %d}", where, r.Height, r.TxIndex, r.EthTxIndex)
			}
		}
	}
	for _, unknown := range []common.Hash{{}, common.HexToHash("0xdeadbeef"), common.BytesToHash(bytes.Repeat([]byte{0xff}, 32))} {
		obs.Lookups++
		if r, err := kv.GetByTxHash(unknown); err == nil && r != nil {
			fail("unknown-hash-not-found", "", "%s: GetByTxHash(%s) = %v", when, unknown, r)
		}
	}
	if got, err := kv.LastIndexedBlock(); err != nil || got != last {
		fail("last-indexed-block", "", "%s: LastIndexedBlock=%d (%v) want %d", when, got, err, last)
	}
	if got, err := kv.FirstIndexedBlock(); err != nil || got != first {
		fail("first-indexed-block", "", "%s: FirstIndexedBlock=%d (%v) want %d", when, got, err, first)
	}
}

func c14LogDiff(got, want *ethtypes.Log, withBlockHash bool) string {
	var d []string
	if got.Address != want.Address {
		d = append(d, fmt.Sprintf("address %s want %s", got.Address, want.Address))
	}
	if len(got.Topics) != len(want.Topics) {
		d = append(d, fmt.Sprintf("%d topics want %d", len(got.Topics), len(want.Topics)))
	} else {
		for i := range got.Topics {
			if got.Topics[i] != want.Topics[i] {
				d = append(d, fmt.Sprintf("topic %d", i))
			}
		}
	}
	if !bytes.Equal(got.Data, want.Data) {
		d = append(d, "data")
	}
	if got.Index != want.Index {
		d = append(d, fmt.Sprintf("logIndex %d want %d", got.Index, want.Index))
	}
	if got.TxIndex != want.TxIndex {
		d = append(d, fmt.Sprintf("transactionIndex %d want %d", got.TxIndex, want.TxIndex))
	}
	if got.TxHash != want.TxHash {
		d = append(d, fmt.Sprintf("transactionHash %s want %s", got.TxHash, want.TxHash))
	}
	if got.BlockNumber != want.BlockNumber {
		d = append(d, fmt.Sprintf("blockNumber %d want %d", got.BlockNumber, want.BlockNumber))
	}
	if withBlockHash && got.BlockHash != want.BlockHash {
		d = append(d, fmt.Sprintf("blockHash %s want %s", got.BlockHash, want.BlockHash))
	}
	if got.Removed {
		d = append(d, "removed")
	}
	return strings.Join(d, "; ")
}

func c14LogsDiff(got, want []*ethtypes.Log, withBlockHash bool) string {
	if len(got) != len(want) {
		return fmt.Sprintf("%d logs want %d", len(got), len(want))
	}
	for i := range got {
		if d := c14LogDiff(got[i], want[i], withBlockHash); d != "" {
			return fmt.Sprintf("log %d: %s", i, d)
		}
	}
	return ""
}

// c14CheckRPC: oracle part 2, on a fully indexed chain.
// Blocks 1..upTo are indexed (the node may already know later blocks, for which nothing is demanded).
func c14CheckRPC(be *backend.Backend, kv *indexer.KVIndexer, ch *c14Chain, upTo int64, obs *c14Obs, fail0 c14Fail) {
	fail := func(clause, sig, format string, a ...interface{}) {
		fail0(clause, sig, "[heights 1..%d indexed] "+format, append([]interface{}{upTo}, a...)...)
	}
	w := ch.W
	checkTx := func(where string, rt *rpctypes.RPCTransaction, b *c14Block, t *c14Tx) {
		if rt == nil {
			fail("rpc-tx-found", "", "%s: nil", where)
			return
		}
		var d []string
		if rt.Hash != t.Hash {
			d = append(d, fmt.Sprintf("hash %s want %s", rt.Hash, t.Hash))
		}
		if rt.From != t.From {
			d = append(d, fmt.Sprintf("from %s want %s", rt.From, t.From))
		}
		if rt.BlockHash == nil || *rt.BlockHash != b.Hash {
			d = append(d, fmt.Sprintf("blockHash %v want %s", rt.BlockHash, b.Hash))
		}
		if rt.BlockNumber == nil || rt.BlockNumber.ToInt().Int64() != b.Height {
			d = append(d, fmt.Sprintf("blockNumber %v want %d", rt.BlockNumber, b.Height))
		}
		if rt.TransactionIndex == nil || uint64(*rt.TransactionIndex) != uint64(t.EthIdx) {
			d = append(d, fmt.Sprintf("transactionIndex %v want %d", rt.TransactionIndex, t.EthIdx))
		}
		if uint64(rt.Nonce) != t.Eth.Nonce() || uint64(rt.Gas) != t.Eth.Gas() || rt.Value.ToInt().Cmp(t.Eth.Value()) != 0 || !bytes.Equal(rt.Input, t.Eth.Data()) ||
			(rt.To == nil) != (t.Eth.To() == nil) || (rt.To != nil && *rt.To != *t.Eth.To()) {
			d = append(d, "nonce/gas/value/input/to differ from the signed tx")
		}
		if len(d) > 0 {
			fail("rpc-tx-agrees-with-consensus", "", "%s [%s/%s]: %s", where, t.Spec.Kind, t.Class, strings.Join(d, "; "))
		}
	}
	unknownHash := common.HexToHash("0x00000000000000000000000000000000000000000000000000000000deadbeef")

	var allLogs []*ethtypes.Log // whole chain, for the range filter
	for _, h := range ch.heights()[:upTo] {
		b := ch.Blocks[h]
		bn := rpctypes.BlockNumber(h)
		// --- per transaction ---
		for _, t := range b.Txs {
			if t.Eth == nil {
				continue
			}
			tag := fmt.Sprintf("block %d tx %d (%s/%s)", h, t.Pos, t.Spec.Kind, t.Class)
			obs.Lookups += 2
			rc, err := be.GetTransactionReceipt(t.Hash)
			rt, err2 := be.GetTransactionByHash(t.Hash)
			if !t.Admitted {
				// never reached execution: not part of the eth view of the block (unless the same tx was admitted in another block)
				if other := c14Owner(ch, t.Hash, upTo); other == nil {
					if rc != nil || err != nil {
						fail("rpc-unadmitted-tx-has-no-receipt", "", "%s: receipt %v err %v", tag, rc, err)
					}
					if rt != nil || err2 != nil {
						fail("rpc-unadmitted-tx-not-found", "", "%s: tx %v err %v", tag, rt, err2)
					}
				}
				continue
			}
			if err2 != nil {
				fail("rpc-tx-found", "", "%s: GetTransactionByHash: %v", tag, err2)
			} else {
				checkTx(tag+": GetTransactionByHash", rt, b, t)
			}
			if err != nil || rc == nil {
				fail("rpc-receipt-found", "", "%s: GetTransactionReceipt = %v, %v", tag, rc, err)
				continue
			}
			var d []string
			if rc.From != t.From {
				d = append(d, fmt.Sprintf("from %s want %s", rc.From, t.From))
			}
			if uint64(rc.Status) != t.Status {
				d = append(d, fmt.Sprintf("status %d want %d", rc.Status, t.Status))
			}
			if uint64(rc.GasUsed) != t.GasUsed {
				d = append(d, fmt.Sprintf("gasUsed %d want %d", rc.GasUsed, t.GasUsed))
			}
			if uint64(rc.TransactionIndex) != uint64(t.EthIdx) {
				d = append(d, fmt.Sprintf("transactionIndex %d want %d", rc.TransactionIndex, t.EthIdx))
			}
			if rc.TransactionHash != t.Hash {
				d = append(d, fmt.Sprintf("transactionHash %s want %s", rc.TransactionHash, t.Hash))
			}
			if uint64(rc.BlockNumber) != uint64(h) || rc.BlockHash != b.Hash {
				d = append(d, fmt.Sprintf("block %d/%s want %d/%s", rc.BlockNumber, rc.BlockHash, h, b.Hash))
			}
			if (rc.ContractAddress == nil) != (t.Contract == nil) || (t.Contract != nil && *rc.ContractAddress != *t.Contract) {
				d = append(d, fmt.Sprintf("contractAddress %v want %v", rc.ContractAddress, t.Contract))
			}
			if (rc.To == nil) != (t.Eth.To() == nil) || (rc.To != nil && *rc.To != *t.Eth.To()) {
				d = append(d, "to")
			}
			if ld := c14LogsDiff(rc.Logs, t.Logs, true); ld != "" {
				d = append(d, ld)
			}
			if len(d) > 0 {
				fail("rpc-receipt-agrees-with-consensus", "", "%s: %s", tag, strings.Join(d, "; "))
			}
			if uint64(rc.CumulativeGasUsed) != t.Cum {
				// defect-aware test: the synthetic receipt (no tx_receipt event) adds the gas limit of every earlier eth tx
				// of the block that has no receipt, including those that never passed the ante handler
				sig := ""
				var phantom uint64
				for _, p := range b.Txs[:t.Pos] {
					if p.Eth != nil && !p.Admitted {
						phantom += p.GasLimit
					}
				}
				if !t.HasReceipt && t.EthIdx > 0 && phantom > 0 && uint64(rc.CumulativeGasUsed) == t.Cum+phantom {
					sig = c14SigSynthetic
				}
				fail("rpc-receipt-cumulative-gas", sig, "%s: cumulativeGasUsed %d want %d (gas limits of earlier txs that never reached execution: %d)", tag, rc.CumulativeGasUsed, t.Cum, phantom)
			}
		}
		// --- by (block, index) ---
		for e := 0; e <= len(b.Admitted)+1; e++ {
			obs.Lookups += 2
			r1, err1 := be.GetTransactionByBlockNumberAndIndex(bn, hexutil.Uint(e))
			r2, err2 := be.GetTransactionByBlockHashAndIndex(b.Hash, hexutil.Uint(e))
			tag := fmt.Sprintf("block %d index %d", h, e)
			if e < len(b.Admitted) {
				if err1 != nil || err2 != nil {
					fail("rpc-tx-found", "", "%s: %v / %v", tag, err1, err2)
					continue
				}
				checkTx(tag+": GetTransactionByBlockNumberAndIndex", r1, b, b.Admitted[e])
				checkTx(tag+": GetTransactionByBlockHashAndIndex", r2, b, b.Admitted[e])
			} else if r1 != nil || r2 != nil || err1 != nil || err2 != nil {
				fail("rpc-out-of-range-index-is-null", "", "%s: %v %v / %v %v", tag, r1, err1, r2, err2)
			}
		}
		// --- block views ---
		obs.Lookups += 4
		fullBlk, err := be.GetBlockByNumber(bn, true)
		hashBlk, err2 := be.GetBlockByNumber(bn, false)
		byHash, err3 := be.GetBlockByHash(b.Hash, true)
		cnt := be.GetBlockTransactionCountByNumber(bn)
		if err != nil || err2 != nil || err3 != nil || fullBlk == nil || hashBlk == nil || byHash == nil {
			fail("rpc-block-found", "", "block %d: %v %v %v", h, err, err2, err3)
			continue
		}
		if cnt == nil || int(*cnt) != len(b.Admitted) {
			fail("rpc-block-tx-count", "", "block %d: %v want %d", h, cnt, len(b.Admitted))
		}
		j1, _ := json.Marshal(fullBlk)
		j3, _ := json.Marshal(byHash)
		if string(j1) != string(j3) {
			fail("rpc-block-by-hash-equals-by-number", "", "block %d:\n%s\n%s", h, j1, j3)
		}
		var d []string
		if n, ok := fullBlk["number"].(hexutil.Uint64); !ok || int64(n) != h {
			d = append(d, fmt.Sprintf("number %v", fullBlk["number"]))
		}
		if x, ok := fullBlk["hash"].(hexutil.Bytes); !ok || !bytes.Equal(x, b.Hash.Bytes()) {
			d = append(d, fmt.Sprintf("hash %v want %s", fullBlk["hash"], b.Hash))
		}
		if h > 1 {
			if x, ok := fullBlk["parentHash"].(common.Hash); !ok || x != ch.Blocks[h-1].Hash {
				d = append(d, fmt.Sprintf("parentHash %v", fullBlk["parentHash"]))
			}
		}
		if x, ok := fullBlk["gasUsed"].(*hexutil.Big); !ok || x.ToInt().Cmp(new(big.Int).SetUint64(b.TotalGas)) != 0 {
			d = append(d, fmt.Sprintf("gasUsed %v want %d", fullBlk["gasUsed"], b.TotalGas))
		}
		if x, ok := fullBlk["logsBloom"].(ethtypes.Bloom); !ok || x != b.Bloom {
			d = append(d, "logsBloom differs from the block_bloom event")
		}
		if x, ok := fullBlk["gasLimit"].(hexutil.Uint64); !ok || int64(x) != w.Cfg.MaxGas {
			d = append(d, fmt.Sprintf("gasLimit %v want %d", fullBlk["gasLimit"], w.Cfg.MaxGas))
		}
		txl, _ := fullBlk["transactions"].([]interface{})
		hl, _ := hashBlk["transactions"].([]interface{})
		if len(txl) != len(b.Admitted) || len(hl) != len(b.Admitted) {
			d = append(d, fmt.Sprintf("%d / %d transactions want %d", len(txl), len(hl), len(b.Admitted)))
		} else {
			for e, t := range b.Admitted {
				rt, _ := txl[e].(*rpctypes.RPCTransaction)
				checkTx(fmt.Sprintf("block %d: GetBlockByNumber(full).transactions[%d]", h, e), rt, b, t)
				if x, ok := hl[e].(common.Hash); !ok || x != t.Hash {
					d = append(d, fmt.Sprintf("transactions[%d] = %v want %s", e, hl[e], t.Hash))
				}
			}
		}
		if len(d) > 0 {
			fail("rpc-block-agrees-with-consensus", "", "block %d: %s", h, strings.Join(d, "; "))
		}
		// --- logs ---
		var perTx [][]*ethtypes.Log
		var flat, fromLog1 []*ethtypes.Log
		for _, t := range b.Admitted {
			if !t.HasReceipt {
				continue
			}
			perTx = append(perTx, t.Logs)
			flat = append(flat, t.Logs...)
			for _, l := range t.Logs {
				if l.Address == AddrLog1 {
					fromLog1 = append(fromLog1, l)
				}
			}
		}
		allLogs = append(allLogs, flat...)
		obs.Lookups += 4
		g1, err1 := be.GetLogs(b.Hash)
		g2, err2 := be.GetLogsByHeight(&b.Height)
		for i, g := range [][][]*ethtypes.Log{g1, g2} {
			name := []string{"GetLogs(hash)", "GetLogsByHeight"}[i]
			if e := []error{err1, err2}[i]; e != nil {
				fail("rpc-logs-found", "", "block %d %s: %v", h, name, e)
				continue
			}
			if len(g) != len(perTx) {
				fail("rpc-logs-agree-with-consensus", "", "block %d %s: %d tx log lists want %d", h, name, len(g), len(perTx))
				continue
			}
			for k := range g {
				if ld := c14LogsDiff(g[k], perTx[k], false); ld != "" {
					fail("rpc-logs-agree-with-consensus", "", "block %d %s: tx list %d: %s", h, name, k, ld)
				}
			}
		}
		bh := b.Hash
		fl, err := rpcfilters.NewBlockFilter(log.NewNopLogger(), be, ethfilters.FilterCriteria{BlockHash: &bh}).Logs(context.Background(), 10000, 10000)
		if err != nil {
			fail("rpc-logs-found", "", "block %d block filter: %v", h, err)
		} else if ld := c14LogsDiff(fl, flat, false); ld != "" {
			fail("rpc-filter-logs-agree-with-consensus", "", "block %d block filter: %s", h, ld)
		}
		fa, err := rpcfilters.NewBlockFilter(log.NewNopLogger(), be, ethfilters.FilterCriteria{BlockHash: &bh, Addresses: []common.Address{AddrLog1}}).Logs(context.Background(), 10000, 10000)
		if err != nil {
			fail("rpc-logs-found", "", "block %d address filter: %v", h, err)
		} else if ld := c14LogsDiff(fa, fromLog1, false); ld != "" {
			fail("rpc-filter-logs-agree-with-consensus", "", "block %d address filter: %s", h, ld)
		}
	}
	// range filter over the whole chain (latest = last block handed to IndexBlock)
	obs.Lookups++
	rl, err := rpcfilters.NewRangeFilter(log.NewNopLogger(), be, 1, upTo, nil, nil).Logs(context.Background(), 10000, 10000)
	if err != nil {
		fail("rpc-logs-found", "", "range filter 1..%d: %v", upTo, err)
	} else if ld := c14LogsDiff(rl, allLogs, false); ld != "" {
		fail("rpc-filter-logs-agree-with-consensus", "", "range filter 1..%d: %s", upTo, ld)
	}
	// "latest" is the last block handed to the indexer
	obs.Lookups++
	latest, err := be.GetBlockByNumber(rpctypes.EthLatestBlockNumber, false)
	if err != nil || latest == nil {
		fail("rpc-block-found", "", "GetBlockByNumber(latest): %v", err)
	} else if n, ok := latest["number"].(hexutil.Uint64); !ok || int64(n) != upTo {
		fail("rpc-block-number", "", "GetBlockByNumber(latest).number = %v want %d", latest["number"], upTo)
	}
	// unknown hash / block
	obs.Lookups += 6
	if rc, err := be.GetTransactionReceipt(unknownHash); rc != nil || err != nil {
		fail("rpc-unknown-hash-is-null", "", "GetTransactionReceipt: %v %v", rc, err)
	}
	if rt, err := be.GetTransactionByHash(unknownHash); rt != nil || err != nil {
		fail("rpc-unknown-hash-is-null", "", "GetTransactionByHash: %v %v", rt, err)
	}
	if rb, err := be.GetBlockByNumber(rpctypes.BlockNumber(ch.Tip+1), true); rb != nil || err != nil {
		fail("rpc-unknown-block-is-null", "", "GetBlockByNumber(%d): %v %v", ch.Tip+1, rb, err)
	}
	if rb, err := be.GetBlockByHash(unknownHash, true); rb != nil || err != nil {
		fail("rpc-unknown-block-is-null", "", "GetBlockByHash: %v %v", rb, err)
	}
	if rt, err := be.GetTransactionByBlockNumberAndIndex(rpctypes.BlockNumber(ch.Tip+1), 0); rt != nil || err != nil {
		fail("rpc-unknown-block-is-null", "", "GetTransactionByBlockNumberAndIndex(%d,0): %v %v", ch.Tip+1, rt, err)
	}
	if rt, err := be.GetTransactionByBlockHashAndIndex(unknownHash, 0); rt != nil || err != nil {
		fail("rpc-unknown-block-is-null", "", "GetTransactionByBlockHashAndIndex: %v %v", rt, err)
	}
	if n, err := be.BlockNumber(); err != nil || int64(n) != upTo {
		fail("rpc-block-number", "", "BlockNumber = %d, %v; last block handed to the indexer is %d", n, err, upTo)
	}
}

// c14Owner returns the admitted occurrence of a hash in the chain (nil if none).
func c14Owner(ch *c14Chain, hash common.Hash, upTo int64) *c14Tx {
	for _, h := range ch.heights()[:upTo] {
		for _, t := range ch.Blocks[h].Admitted {
			if t.Hash == hash {
				return t
			}
		}
	}
	return nil
}

// c14CrashPart: oracle part 4. The reference is the index an uninterrupted service life produces when it is started at
// height 1 (nothing to index yet) and sees every later block live; it must equal the direct index `full`.
func c14CrashPart(ch *c14Chain, cctx client.Context, full string, obs *c14Obs, fail c14Fail, seen func(string)) {
	refDB := newC14FaultDB(dbm.NewMemDB(), -1, "")
	ref := c14DriveService(ch, cctx, refDB, 1, ch.Tip)
	obs.Transitions++
	if ref.Crashed || ref.StartErr != "" {
		fail("service-runs", "", "uninterrupted run: %+v", ref)
		return
	}
	refDump := c14Dump(refDB.DB)
	seen(refDump)
	if refDump != full {
		fail("service-index-equals-direct-index", "", "uninterrupted service life 1..%d:\n%s", ch.Tip, c14DiffDumps(full, refDump))
	}
	writes := refDB.writes
	// every (write, mode) job is independent of the others and never touches the app: run them side by side (the
	// service spends its time in 50 ms polling sleeps) and merge the results in enumeration order
	type job struct {
		k        int
		mode     string
		findings []ev.Finding
		dumps    []string
		lives    int
		restarts int
	}
	var jobs []*job
	for k := 0; k < writes; k++ {
		for _, mode := range []string{c14Before, c14After} {
			jobs = append(jobs, &job{k: k, mode: mode})
		}
	}
	var wg sync.WaitGroup
	for _, j := range jobs {
		wg.Add(1)
		go func(j *job) {
			defer wg.Done()
			jfail := func(clause, sig, format string, a ...interface{}) {
				j.findings = append(j.findings, ev.Finding{Clause: clause, Signature: sig, Detail: fmt.Sprintf(format, a...)})
			}
			k, mode := j.k, j.mode
			fdb := newC14FaultDB(dbm.NewMemDB(), k, mode)
			life := c14DriveService(ch, cctx, fdb, 1, ch.Tip)
			j.lives++
			if !life.Crashed {
				jfail("crash-point-reached", "", "write %d/%s: the run did not reach the crash point (%+v)", k, mode, life)
				return
			}
			survivor := c14Dump(fdb.DB)
			j.dumps = append(j.dumps, survivor)
			for restart := life.CrashHeight; restart <= ch.Tip; restart++ {
				j.restarts++
				db := c14Load(survivor)
				second := c14DriveService(ch, cctx, db, restart, ch.Tip)
				j.lives++
				tag := fmt.Sprintf("crash at write %d (%s; %s, indexing block %d), restart with the chain at height %d", k, refDB.ops[k], mode, life.CrashHeight, restart)
				if second.Crashed || second.StartErr != "" {
					jfail("service-runs", "", "%s: %+v", tag, second)
					continue
				}
				final := c14Dump(db)
				j.dumps = append(j.dumps, final)
				if final == refDump {
					continue
				}
				// defect-aware test: an index without any (block, index) key makes the service start at the latest height, so
				// exactly the blocks up to the restart height are missing and nothing else differs
				sig := ""
				var later []int64
				for h := restart + 1; h <= ch.Tip; h++ {
					later = append(later, h)
				}
				if survivor == "" && final == c14Model(ch, later) {
					sig = c14SigResume
				}
				jfail("crash-restart-converges", sig, "%s: survivor has %d entries; final index differs from the uninterrupted run:\n%s", tag, strings.Count(survivor, "\n"), c14DiffDumps(refDump, final))
			}
		}(j)
	}
	wg.Wait()
	for _, j := range jobs {
		obs.CrashPoints++
		obs.Transitions += j.lives
		obs.Restarts += j.restarts
		for _, d := range j.dumps {
			seen(d)
		}
		for _, f := range j.findings {
			fail(f.Clause, f.Signature, "%s", f.Detail)
		}
	}
}

// ---------------------------------------------------------------------------------------------------------------------
// case enumeration
// ---------------------------------------------------------------------------------------------------------------------

func c14Seqs(maxLen int) [][]TxKind {
	var seqs [][]TxKind
	var rec func(prefix []TxKind)
	rec = func(prefix []TxKind) {
		if len(prefix) > 0 {
			seqs = append(seqs, append([]TxKind{}, prefix...))
		}
		if len(prefix) == maxLen {
			return
		}
		for _, k := range c13Alphabet {
			rec(append(prefix, k))
		}
	}
	rec(nil)
	return seqs
}

// c14Firsts are first blocks that leave the index non-empty / produce a dropped tx / an admitted-but-failed tx.
var c14Firsts = [][]TxKind{{KLog2, KLog1}, {KBurn, KBurn, KLog1}, {KCreateOK}, {KCosmosSend}, {KTransfer, KBadNonce, KIntrinsicLow}}

// c14Reduced is the alphabet of the 4-tx blocks of the thorough tier.
var c14Reduced = []TxKind{KTransfer, KLog2, KLogRevert, KIntrinsicLow, KBadNonce, KCosmosSend}

var c14Thirds = [][]TxKind{{KLog1}, {KBadNonce}, {KIntrinsicLow, KLog2}, {KCosmosSend}}

func c14Cases(thorough bool) ([]c14Case, string) {
	var cases []c14Case
	mk := func(blocks ...[]TxKind) [][]TxSpec { return c13Specs(blocks) }
	seqs := c14Seqs(3)
	// (a) one-block chains
	for _, mg := range []int64{100_000, 40_000_000} {
		for _, s := range seqs {
			if !thorough && mg == 40_000_000 && len(s) > 2 {
				continue
			}
			cases = append(cases, c14Case{MaxGas: mg, Blocks: mk(s), Crash: thorough || len(s) <= 1})
		}
	}
	if thorough {
		var rec func(prefix []TxKind)
		rec = func(prefix []TxKind) {
			if len(prefix) == 4 {
				cases = append(cases, c14Case{MaxGas: 40_000_000, Blocks: mk(append([]TxKind{}, prefix...)), Crash: false})
				return
			}
			for _, k := range c14Reduced {
				rec(append(prefix, k))
			}
		}
		rec(nil)
	}
	// (b) two-block chains
	for fi, f := range c14Firsts[:3] {
		for _, s := range seqs {
			if len(s) > 2 || (!thorough && len(s) == 2 && fi > 0) {
				continue
			}
			cases = append(cases, c14Case{MaxGas: 100_000, Blocks: mk(f, s), Crash: thorough || len(s) <= 1})
		}
	}
	// (c) three-block chains
	thirds := c14Thirds
	if !thorough {
		thirds = thirds[:2]
	}
	for _, f := range c14Firsts {
		for _, s := range seqs {
			if len(s) > 2 || (!thorough && len(s) == 2) {
				continue
			}
			for _, t := range thirds {
				cases = append(cases, c14Case{MaxGas: 100_000, Blocks: mk(f, s, t), Crash: true})
			}
		}
	}
	rule := fmt.Sprintf("chains = empty block 1 + blocks over the %d-kind alphabet %v: ", len(c13Alphabet), c13Alphabet)
	if thorough {
		rule += fmt.Sprintf("(a) every block of 1..3 txs in worlds MaxGas∈{100k,40M} and every 4-tx block over %v (40M); (b) first blocks %v × every second block of ≤2 txs (100k); (c) first blocks %v × every second block of ≤2 txs × third blocks %v (100k). ", c14Reduced, c14Firsts[:3], c14Firsts, thirds)
	} else {
		rule += fmt.Sprintf("(a) every block of 1..3 txs in the 100k world and of 1..2 txs in the 40M world; (b) first blocks %v × every second block of ≤1 tx, first block %v × every second block of 2 txs (100k); (c) first blocks %v × every second block of 1 tx × third blocks %v (100k). ", c14Firsts[:3], c14Firsts[0], c14Firsts, thirds)
	}
	rule += "Per chain: IndexBlock height by height and after each call every hash lookup (all eth txs of the chain, 3 unknown hashes) and every (block,index) lookup (heights 0..tip+1 × indices -1..n+1), First/LastIndexedBlock, index dump = chain model; all Backend views per tx hash, per (block, index ≤ n+1) by number and by hash, per block (full, hashes, by hash, count), logs by hash / height / block filter / address filter / range filter, unknown hash and block; every block re-indexed twice (database dump and the head views GetLastRequestIndexedBlock / eth_blockNumber / block behind 'latest' must not move); every non-sorted permutation of the non-empty blocks indexed into a fresh DB. "
	if thorough {
		rule += "Crash part on every chain with blocks of ≤3 txs: "
	} else {
		rule += "Crash part on 1-tx one-block chains, two-block chains whose second block has 1 tx and all three-block chains: "
	}
	rule += "every database write k of an uninterrupted EVMIndexerService life (started at height 1, blocks arriving live) × {write lost, write durable} × every restart height from the crash height to the tip, restarted service runs to the tip. A state is a distinct index dump of a chain; a transition is an IndexBlock call or a service life"
	return cases, rule
}

func runC14(replay string) int {
	run := ev.NewRun("C14", "model_checking")
	run.Assumptions = []string{
		"ground truth is what world.ParseReceipt reads from the ethereum_tx / tx_receipt / block_bloom events of the FinalizeBlock responses of the real app (C13 checks those against each other); a tx counts as an Ethereum transaction of the block for the eth views when it carries the ethereum_tx event (it passed the ante handler)",
		"the CometBFT node is replaced by a fake RPC client that serves real cmttypes.Block values (header hash = block id, FinalizeBlock received that hash) and the proto round-tripped FinalizeBlock responses, and routes ABCI queries to BaseApp.Query of the same app; validator-set hashes and commit signatures are placeholders",
		"a crash is modelled as a panic out of the k-th database write (Set/Delete on the DB, Write/WriteSync on a batch) that unwinds the service goroutine: 'before' loses the write, 'after' keeps it; a batch write is atomic (torn batches are not enumerated); one crash per run; the restarted service is a fresh KVIndexer + EVMIndexerService over a copy of the surviving MemDB",
		"the service is observed through a decorator of the indexer (IndexBlock returned, Ready called), never through time; its internal 50 ms polling only delays the run",
		"every tx of a block is sent by a different wallet",
	}
	if replay != "" {
		return replayCase(run, replay, func(raw json.RawMessage) []ev.Finding {
			var c c14Case
			dec := json.NewDecoder(bytes.NewReader(raw))
			if err := dec.Decode(&c); err != nil {
				fmt.Fprintln(os.Stderr, err)
				os.Exit(2)
			}
			o := c14Run(c)
			fmt.Println("outcome:", o.Outcome, "states:", o.States, "transitions:", o.Transitions, "lookups:", o.Lookups, "crash points:", o.CrashPoints, "restarts:", o.Restarts)
			return o.Findings
		})
	}
	cases, rule := c14Cases(run.Thorough())
	run.Sharded(Shards(), func(shard, n int) {
		for i, c := range cases {
			if i%n != shard {
				continue
			}
			o := c14Run(c)
			if i < 2*n || (c.Crash && len(c.Blocks) == 3 && i%(7*n) == shard) { // determinism self-check
				o2 := c14Run(c)
				if o2.Outcome != o.Outcome || len(o2.Findings) != len(o.Findings) || o2.States != o.States || o2.Transitions != o.Transitions || o2.Lookups != o.Lookups {
					fmt.Fprintf(os.Stderr, "HARNESS-NONDETERMINISM in C14 case %d\n", i)
					os.Exit(2)
				}
			}
			run.Count("states", int64(o.States))
			run.Count("transitions", int64(o.Transitions))
			run.Count("traces_validated_against_impl", 1)
			run.Count("rpc_lookups", int64(o.Lookups))
			run.Count("crash_points", int64(o.CrashPoints))
			run.Count("restart_runs", int64(o.Restarts))
			run.Count("txs_executed", int64(o.Txs))
			run.Count(fmt.Sprintf("chains_%d_blocks", len(c.Blocks)), 1)
			run.Outcome(o.Outcome)
			if o.Nontrivial {
				run.Distinct(o.Outcome)
			}
			if i%(len(cases)/4+1) == 0 {
				run.Sample(map[string]interface{}{"case": c, "outcome": o.Outcome, "states": o.States, "crash_points": o.CrashPoints})
			}
			for _, f := range o.Findings {
				run.Fail(f)
			}
		}
	})
	run.Coverage["evaluations"] = len(cases)
	run.Coverage["exhaustive"] = true
	run.Coverage["max_depth"] = 3
	run.Coverage["rule"] = rule
	return run.Finish()
}
