package checks

import (
	"fmt"
	"math/big"
	"sort"
	"strings"

	sdk "github.com/cosmos/cosmos-sdk/types"
	authtypes "github.com/cosmos/cosmos-sdk/x/auth/types"
	"github.com/ethereum/go-ethereum/common"
	ethtypes "github.com/ethereum/go-ethereum/core/types"

	evmtypes "github.com/EscanBE/evermint/v12/x/evm/types"

	"verif/harness/world"
)

// ledgerCase is a history of blocks in a world with the given MaxGas / base fee; shared by C04, C05, C06, C09.
type ledgerCase struct {
	MaxGas  int64      `json:"max_gas"`
	BaseFee string     `json:"base_fee,omitempty"` // decimal; "" = 1 gwei
	MinGas  string     `json:"min_gas_price,omitempty"`
	Blocks  [][]TxSpec `json:"blocks"`
	// Warm puts one block with a plain transfer (wallet 3 -> sink) before the observed blocks, so that the history starts from the
	// state of a chain that has already processed an EVM balance change (the evm module account exists), not from a virgin genesis.
	Warm bool `json:"warm,omitempty"`
	// WalletBalance (decimal, per wallet and per denom; "" = the world's default 2e18) funds the wallets for the magnitude dimension:
	// a fee or value of 2^64 wei and more (18.4 native coins) must be affordable to be executed at all.
	WalletBalance string `json:"wallet_balance,omitempty"`
	// Exist ("" = off) selects the account-existence mode of the world (c04_exist.go): which of the addresses that receive or hold
	// value own a bank balance and whether they have an x/auth account record.
	Exist string `json:"exist,omitempty"`
}

// txObs is what one tx did, as reported by consensus.
type txObs struct {
	Spec      TxSpec
	Eth       *ethtypes.Transaction
	Code      uint32
	Log       string
	GasWanted int64
	GasUsedR  int64 // ExecTxResult.GasUsed
	Rc        *world.Receipt
	Class     string // committed-ok | committed-vmerr | failed-after-admission | not-admitted | cosmos-ok | cosmos-fail
	VmErr     string
}

// blockObs is the ledger around one block.
type blockObs struct {
	Height            int64
	BaseFee           *big.Int // base fee in force while the block executed
	Txs               []txObs
	Pre               map[string]map[string]*big.Int // addr(hex) -> denom -> balance, before the block (after previous commit)
	Post              map[string]map[string]*big.Int
	SupPre            map[string]*big.Int
	SupPost           map[string]*big.Int
	NoncePre          map[string]uint64
	NoncePost         map[string]uint64
	Panic             string
	Err               error
	NextBase          *big.Int
	GasUsedBlock      uint64
	ContractsAlivePre map[string]bool
	AppHash           []byte
}

var ledgerDenoms = []string{world.Denom, "utwo", "uthree"}

func ledgerWorld(c ledgerCase) *world.World {
	cfg := world.Config{MaxGas: c.MaxGas, NumWallets: 4, Contracts: LedgerContracts(), MinGasPrice: c.MinGas, DeployErc20: true}
	if c.BaseFee != "" {
		b, ok := new(big.Int).SetString(c.BaseFee, 10)
		if !ok {
			panic("bad base fee")
		}
		cfg.BaseFee = b
	}
	if c.WalletBalance != "" {
		b, ok := new(big.Int).SetString(c.WalletBalance, 10)
		if !ok || b.Sign() <= 0 {
			panic("bad wallet balance")
		}
		cfg.WalletBalance = b
	}
	if c.Exist != "" {
		c04ExistConfig(&cfg, c.Exist)
	}
	return world.New(cfg)
}

// allBalances reads every balance of every account from the bank keeper.
func allBalances(w *world.World, ctx sdk.Context) map[string]map[string]*big.Int {
	out := map[string]map[string]*big.Int{}
	w.App.BankKeeper.IterateAllBalances(ctx, func(addr sdk.AccAddress, c sdk.Coin) bool {
		k := common.BytesToAddress(addr).Hex()
		if out[k] == nil {
			out[k] = map[string]*big.Int{}
		}
		out[k][c.Denom] = c.Amount.BigInt()
		return false
	})
	return out
}

func bal(m map[string]map[string]*big.Int, a common.Address, denom string) *big.Int {
	if x := m[a.Hex()]; x != nil {
		if v := x[denom]; v != nil {
			return v
		}
	}
	return new(big.Int)
}

func delta(b *blockObs, a common.Address, denom string) *big.Int {
	return new(big.Int).Sub(bal(b.Post, a, denom), bal(b.Pre, a, denom))
}

var (
	feeCollector = world.ModuleAddr(authtypes.FeeCollectorName)
	evmModule    = world.ModuleAddr(evmtypes.ModuleName)
)

// ledgerRun executes the case on a fresh world. Nonces of specs are assigned here (per wallet, advancing when a tx is admitted).
func ledgerRun(c ledgerCase) (w *world.World, blocks []*blockObs) {
	w = ledgerWorld(c)
	w.Block(nil)
	nonce := map[int]uint64{}
	if c.Warm {
		const warmWallet = 3
		b := w.App.FeeMarketKeeper.GetBaseFee(w.Ctx()).BigInt()
		br := w.Block([][]byte{BuildTx(w, TxSpec{Kind: KTransfer, Sender: warmWallet, Fee: FLegacyB}, b)})
		if br.Panic != "" || br.Err != nil || len(br.Res.TxResults) != 1 || br.Res.TxResults[0].Code != 0 {
			panic(fmt.Sprintf("warm-up block failed: %+v", br))
		}
		nonce[warmWallet] = w.Nonce(w.Ctx(), w.Wallets[warmWallet].Eth())
	}
	for _, blk := range c.Blocks {
		ctx := w.Ctx()
		bo := &blockObs{Height: w.Height + 1}
		bo.BaseFee = w.App.FeeMarketKeeper.GetBaseFee(ctx).BigInt()
		bo.Pre = allBalances(w, ctx)
		bo.SupPre = map[string]*big.Int{}
		for _, d := range ledgerDenoms {
			bo.SupPre[d] = w.Supply(ctx, d)
		}
		bo.NoncePre = map[string]uint64{}
		for _, a := range w.Wallets {
			bo.NoncePre[a.Eth().Hex()] = w.Nonce(ctx, a.Eth())
		}
		bo.ContractsAlivePre = map[string]bool{}
		for _, ct := range LedgerContracts() {
			bo.ContractsAlivePre[ct.Addr.Hex()] = w.App.AccountKeeper.HasAccount(ctx, ct.Addr.Bytes()) && len(w.App.EvmKeeper.GetCode(ctx, w.App.EvmKeeper.GetCodeHash(ctx, ct.Addr.Bytes()))) > 0
		}
		var txs [][]byte
		for _, s := range blk {
			s.Nonce = nonce[s.Sender]
			bz := BuildTx(w, s, bo.BaseFee)
			txs = append(txs, bz)
			bo.Txs = append(bo.Txs, txObs{Spec: s, Eth: decodeEth(w, bz)})
			// optimistic: assume admitted; corrected below from the observed sequence
			nonce[s.Sender]++
		}
		br := w.Block(txs)
		bo.Panic, bo.Err = br.Panic, br.Err
		blocks = append(blocks, bo)
		if br.Panic != "" || br.Err != nil {
			return
		}
		for i, r := range br.Res.TxResults {
			t := &bo.Txs[i]
			t.Code, t.Log, t.GasWanted, t.GasUsedR = r.Code, r.Log, r.GasWanted, r.GasUsed
			rc, _ := world.ParseReceipt(i, r)
			t.Rc = rc
			switch {
			case !t.Spec.Kind.IsEth():
				if r.Code == 0 {
					t.Class = "cosmos-ok"
				} else {
					t.Class = "cosmos-fail"
				}
			case rc != nil && rc.HasReceipt:
				if rc.HasVmError {
					t.Class = "committed-vmerr"
					t.VmErr = rc.VmError
				} else {
					t.Class = "committed-ok"
				}
			case rc != nil && rc.HasEthTx:
				t.Class = "failed-after-admission"
			default:
				t.Class = "not-admitted"
			}
		}
		ctx = w.Ctx()
		bo.Post = allBalances(w, ctx)
		bo.SupPost = map[string]*big.Int{}
		for _, d := range ledgerDenoms {
			bo.SupPost[d] = w.Supply(ctx, d)
		}
		bo.NoncePost = map[string]uint64{}
		for i, a := range w.Wallets {
			bo.NoncePost[a.Eth().Hex()] = w.Nonce(ctx, a.Eth())
			nonce[i] = bo.NoncePost[a.Eth().Hex()]
		}
		bo.NextBase = w.App.FeeMarketKeeper.GetBaseFee(ctx).BigInt()
		bo.AppHash = append([]byte{}, w.LastHash...)
	}
	return
}

func (b *blockObs) outcome() string {
	var s []string
	for _, t := range b.Txs {
		s = append(s, t.Class)
	}
	return strings.Join(s, ",")
}

func outcomeOf(blocks []*blockObs) string {
	var s []string
	for _, b := range blocks {
		if b.Panic != "" {
			s = append(s, "PANIC")
		} else if b.Err != nil {
			s = append(s, "ERR")
		} else {
			s = append(s, b.outcome())
		}
	}
	return strings.Join(s, "|")
}

// price is the effective gas price the tx pays under base fee b.
func price(t *txObs, b *big.Int) *big.Int { return EffectivePrice(t.Spec.Fee, b) }

func sortedKeys(m map[string]map[string]*big.Int) []string {
	var k []string
	for x := range m {
		k = append(k, x)
	}
	sort.Strings(k)
	return k
}

func fmtBig(x *big.Int) string { return x.String() }

var _ = fmt.Sprintf

func walletAddr(i int) common.Address { return world.NewAcct(fmt.Sprintf("wal%d", i+1)).Eth() }
