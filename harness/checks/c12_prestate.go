package checks

import (
	"bytes"
	"encoding/hex"
	"fmt"
	"math/big"
	"os"
	"reflect"
	"strings"

	sdkmath "cosmossdk.io/math"
	sdk "github.com/cosmos/cosmos-sdk/types"
	authtypes "github.com/cosmos/cosmos-sdk/x/auth/types"
	ethabi "github.com/ethereum/go-ethereum/accounts/abi"
	"github.com/ethereum/go-ethereum/common"
	ethtypes "github.com/ethereum/go-ethereum/core/types"

	cpcabi "github.com/EscanBE/evermint/v12/x/cpc/abi"
	cpctypes "github.com/EscanBE/evermint/v12/x/cpc/types"

	"verif/harness/asm"
	"verif/harness/ev"
	"verif/harness/world"
)

// C12, pre-state dimension.
//
// The chain exploration of c12.go evaluates every method from ONE tidy state (every address that occurs in a record has an
// account, every record has a non-zero value, every contract is enabled). A view that cleans up or initialises lazily only
// writes when it meets a record that is NOT tidy. This file adds the states in which such records exist, built by real
// executions in committed blocks, and calls every method declared ReadOnly() of every registered precompile with arguments
// drawn from the addresses those states made special — in a normal context and through call chains with STATICCALL — under
// the same oracle as c12.go: dump of every KV store before/after (x/cpc included) + logs.
//
// "Mortal" contracts M* (code: empty call data => SELFDESTRUCT(sink); otherwise forward the payload by CALL) are the only
// way an address that owns records can lose its auth account.
//
//	block 2  MA: approve(S,500), approve(H,77)            MC: delegate(val0), delegate(val1), approve(S,55)
//	         ML: approve(S,44), delegate(val0)            MR: approve(S,66)              E: delegate(val0)
//	         H : approve(MB,400) approve(N,300) approve(Z,9) approve(erc20,21) approve(staking,22) approve(S,1000) approve(ML,2^256-1)
//	block 3  H : approve(Z,0)  (record removed again)     + fee paying txs, so that delegators have rewards
//	block 4  MA, MB, MC, MR self-destruct                 (accounts gone; allowances, delegations, rewards stay)
//	block 5  E pays 1 wei to MR                           (address has an account again, without code)
//	block 6  empty
//
// N never had an account, Z never had an account and its allowance was set back to zero.

const (
	c12PreKind       = "prestate"
	c12PreSanityKind = "prestate-sanity"
	c12PreTupleCap   = 400 // argument tuples per method (cross product of the per-type domains); never reached by today's ABIs
)

type c12PreAddr struct {
	Name   string
	Addr   common.Address
	Caller bool // placeholder: resolved to the address the precompile sees as caller
}

type c12PreState struct {
	Name string
	What string
	cw   *c12World
}

type c12PreWorld struct {
	states  []*c12PreState
	addrs   []c12PreAddr
	strs    []string
	sanity  []ev.Finding
	facts   map[string]interface{}
	skipped map[string]string
}

// c12MortalCode: empty call data => SELFDESTRUCT(sink); otherwise the call data layout of asm.Forwarder, always CALL,
// failure of the inner call bubbles up.
func c12MortalCode(sink common.Address) []byte {
	p := asm.NewProg()
	p.Op(asm.CALLDATASIZE)
	p.JumpIf("fwd")
	p.PushAddr(sink).Op(asm.SELFDESTRUCT)
	p.Label("fwd")
	p.PushU(21).Op(asm.CALLDATASIZE, asm.SUB).PushU(0x400).Op(asm.MSTORE)
	p.PushU(0x400).Op(asm.MLOAD).PushU(21).PushU(0).Op(asm.CALLDATACOPY)
	p.PushU(0).PushU(0).PushU(0x400).Op(asm.MLOAD).PushU(0).PushU(0)
	p.PushU(1).Op(asm.CALLDATALOAD).PushU(96).Op(asm.SHR)
	p.Op(asm.GAS, asm.CALL)
	p.Op(asm.RETURNDATASIZE).PushU(0).PushU(0).Op(asm.RETURNDATACOPY)
	p.JumpIf("ok")
	p.Op(asm.RETURNDATASIZE).PushU(0).Op(asm.REVERT)
	p.Label("ok")
	p.Op(asm.RETURNDATASIZE).PushU(0).Op(asm.RETURN)
	return p.Assemble()
}

type c12PreTx struct {
	from  *world.Acct
	to    common.Address
	data  []byte
	value int64
	what  string
}

// c12PreBlock commits one block of real signed Ethereum transactions; every one of them must be executed without VM error.
func c12PreBlock(w *world.World, txs []c12PreTx) {
	ctx := w.Ctx()
	nonces := map[common.Address]uint64{}
	var raw [][]byte
	for _, t := range txs {
		from := t.from.Eth()
		if _, ok := nonces[from]; !ok {
			nonces[from] = w.Nonce(ctx, from)
		}
		to := t.to
		raw = append(raw, w.EthTx(t.from, &ethtypes.LegacyTx{Nonce: nonces[from], GasPrice: new(big.Int).Mul(big.NewInt(10), Gwei), Gas: 1_500_000, To: &to, Value: big.NewInt(t.value), Data: t.data}))
		nonces[from]++
	}
	br := w.Block(raw)
	if br.Err != nil || br.Panic != "" || len(br.Res.TxResults) != len(txs) {
		panic(fmt.Sprintf("C12 pre-state block %d: %v %s", w.Height, br.Err, br.Panic))
	}
	for i, r := range br.Res.TxResults {
		resp := w.EthResponse(r)
		if r.Code != 0 || resp == nil || resp.VmError != "" {
			vm := ""
			if resp != nil {
				vm = resp.VmError
			}
			panic(fmt.Sprintf("C12 pre-state block %d: tx %d (%s) not executed as planned: code=%d vm=%q log=%s", w.Height, i, txs[i].what, r.Code, vm, strings.SplitN(r.Log, "\n", 2)[0]))
		}
	}
}

func c12PreSetup(thorough bool) *c12PreWorld {
	pw := &c12PreWorld{facts: map[string]interface{}{}, skipped: map[string]string{}}
	cw := &c12World{}
	big1e18 := new(big.Int).Exp(big.NewInt(10), big.NewInt(18), nil)
	coins := sdk.NewCoins(sdk.NewCoin(world.Denom, sdkmath.NewIntFromBigInt(big1e18)), sdk.NewCoin("utwo", sdkmath.NewIntFromBigInt(big1e18)))
	rich := sdk.NewCoins(sdk.NewCoin(world.Denom, sdkmath.NewIntFromBigInt(new(big.Int).Mul(big1e18, big.NewInt(100)))), sdk.NewCoin("utwo", sdkmath.NewIntFromBigInt(big1e18)))
	var contracts []world.Contract
	for mode := 0; mode < 2; mode++ {
		for i := 0; i < c12MaxFrames; i++ {
			a := world.NewAcct(fmt.Sprintf("c12-%s-F%d", c12ModeName[mode], i))
			cw.frames[mode] = append(cw.frames[mode], c12Actor{Name: fmt.Sprintf("F%d", i), Acct: a, Addr: a.Eth()})
			contracts = append(contracts, world.Contract{Addr: a.Eth(), Code: asm.Forwarder(mode == c12ModeSwallow), Coins: coins})
		}
	}
	addrOf := func(name string) common.Address { return world.NewAcct("c12-pre-" + name).Eth() }
	sink := addrOf("sink")
	MA, MB, MC, MR, ML := addrOf("MA"), addrOf("MB"), addrOf("MC"), addrOf("MR"), addrOf("ML")
	N, Z := addrOf("N"), addrOf("Z")
	for _, m := range []common.Address{MA, MB, MC, MR, ML} {
		contracts = append(contracts, world.Contract{Addr: m, Code: c12MortalCode(sink), Coins: coins})
	}
	e := world.NewAcct("c12-eoa")
	cw.eoa = c12Actor{Name: "E", Acct: e, Addr: e.Eth()}
	w := world.New(world.Config{
		NumWallets: 2, DeployErc20: true, DeployStaking: true,
		Extra:     []world.ExtraAccount{{Account: authtypes.NewBaseAccount(e.Acc(), nil, 0, 0), Coins: rich}},
		Contracts: contracts,
	})
	w.Block(nil)
	cw.w = w
	cw.holder = c12Actor{Name: "H", Acct: w.Wallets[0], Addr: w.Wallets[0].Eth()}
	H, S := w.Wallets[0].Eth(), w.Wallets[1].Eth()
	for _, v := range w.Validators {
		cw.vals = append(cw.vals, v.Eth())
		cw.valoper = append(cw.valoper, v.Val().String())
	}
	cw.chainID = big.NewInt(int64(world.EvmChainID))
	cw.hrp = sdk.GetConfig().GetBech32AccountAddrPrefix()

	var erc20, staking common.Address
	for _, c := range w.App.CPCKeeper.GetAllCustomPrecompiledContractsMeta(w.Ctx()) {
		switch c.CustomPrecompiledType {
		case cpctypes.CpcTypeErc20:
			erc20 = common.BytesToAddress(c.Address)
		case cpctypes.CpcTypeStaking:
			staking = common.BytesToAddress(c.Address)
		}
	}
	if erc20 == (common.Address{}) || staking == (common.Address{}) {
		panic("C12 pre-state: the genesis did not deploy the ERC-20 / staking precompile")
	}
	packE := func(name string, args ...interface{}) []byte {
		bz, err := cpcabi.Erc20CpcInfo.ABI.Pack(name, args...)
		if err != nil {
			panic(err)
		}
		return bz
	}
	packS := func(name string, args ...interface{}) []byte {
		bz, err := cpcabi.StakingCpcInfo.ABI.Pack(name, args...)
		if err != nil {
			panic(err)
		}
		return bz
	}
	n := func(v int64) *big.Int { return big.NewInt(v) }
	e17 := func(k int64) *big.Int {
		return new(big.Int).Mul(big.NewInt(k), new(big.Int).Exp(big.NewInt(10), big.NewInt(17), nil))
	}
	via := func(m common.Address, target common.Address, payload []byte, what string) c12PreTx {
		return c12PreTx{from: e, to: m, data: asm.ForwardData(asm.KCall, target, payload), what: what}
	}
	h := w.Wallets[0]
	c12PreBlock(w, []c12PreTx{
		via(MA, erc20, packE("approve", S, n(500)), "MA approve(S,500)"),
		via(MA, erc20, packE("approve", H, n(77)), "MA approve(H,77)"),
		via(MC, staking, packS("delegate", cw.vals[0], e17(2)), "MC delegate(val0)"),
		via(MC, staking, packS("delegate", cw.vals[1], e17(1)), "MC delegate(val1)"),
		via(MC, erc20, packE("approve", S, n(55)), "MC approve(S,55)"),
		via(ML, erc20, packE("approve", S, n(44)), "ML approve(S,44)"),
		via(ML, staking, packS("delegate", cw.vals[0], e17(2)), "ML delegate(val0)"),
		via(MR, erc20, packE("approve", S, n(66)), "MR approve(S,66)"),
		{from: e, to: staking, data: packS("delegate", cw.vals[0], e17(1)), what: "E delegate(val0)"},
		{from: h, to: erc20, data: packE("approve", MB, n(400)), what: "H approve(MB,400)"},
		{from: h, to: erc20, data: packE("approve", N, n(300)), what: "H approve(N,300)"},
		{from: h, to: erc20, data: packE("approve", Z, n(9)), what: "H approve(Z,9)"},
		{from: h, to: erc20, data: packE("approve", erc20, n(21)), what: "H approve(erc20,21)"},
		{from: h, to: erc20, data: packE("approve", staking, n(22)), what: "H approve(staking,22)"},
		{from: h, to: erc20, data: packE("approve", S, n(1000)), what: "H approve(S,1000)"},
		{from: h, to: erc20, data: packE("approve", ML, cpctypes.BigMaxUint256), what: "H approve(ML,max)"},
	})
	c12PreBlock(w, []c12PreTx{
		{from: h, to: erc20, data: packE("approve", Z, n(0)), what: "H approve(Z,0)"},
		{from: e, to: erc20, data: packE("transfer", H, n(1)), what: "E transfer(H,1)"},
	})
	c12PreBlock(w, []c12PreTx{
		{from: e, to: MA, what: "MA self-destructs"},
		{from: e, to: MB, what: "MB self-destructs"},
		{from: e, to: MC, what: "MC self-destructs"},
		{from: e, to: MR, what: "MR self-destructs"},
	})
	c12PreBlock(w, []c12PreTx{
		{from: e, to: MR, value: 1, what: "E pays 1 wei to the destroyed MR"},
		{from: e, to: erc20, data: packE("transfer", H, n(1)), what: "E transfer(H,1)"},
	})
	if br := w.Block(nil); br.Err != nil || br.Panic != "" {
		panic(fmt.Sprintf("C12 pre-state block: %v %s", br.Err, br.Panic))
	}

	root := w.Ctx()
	// the second ERC-20 precompile, deployed exactly as c12Setup does
	utwo, err := w.App.CPCKeeper.DeployErc20CustomPrecompiledContract(root, "Token utwo", cpctypes.Erc20CustomPrecompiledContractMeta{Symbol: "TK2", Decimals: 6, MinDenom: "utwo"})
	if err != nil {
		panic(err)
	}
	cw.root = root.WithEventManager(sdk.NewEventManager())
	cw.pre = w.Dump(cw.root)
	cw.methods = cw.enumerate()
	cw.periodBumps = c12PrePeriodBumps(cw)

	pw.addrs = []c12PreAddr{
		{Name: "caller", Caller: true},
		{Name: "H", Addr: H}, {Name: "S", Addr: S}, {Name: "ML(live contract)", Addr: ML},
		{Name: "MA(owner gone)", Addr: MA}, {Name: "MB(spender gone)", Addr: MB}, {Name: "MC(delegator gone)", Addr: MC},
		{Name: "MR(gone, paid again)", Addr: MR}, {Name: "N(never existed)", Addr: N}, {Name: "Z(allowance zeroed)", Addr: Z},
		{Name: "erc20[wei]", Addr: erc20}, {Name: "erc20[utwo]", Addr: utwo}, {Name: "staking", Addr: staking},
		{Name: "0x0", Addr: common.Address{}}, {Name: "val0", Addr: cw.vals[0]},
	}
	pw.strs = []string{cw.hrp, sdk.AccAddress(MA.Bytes()).String(), ""}

	// ---- sanity of the pre-state: it must be what it claims to be (alphabet-sanity) ----
	sane := func(ok bool, what string, a ...interface{}) {
		if !ok {
			msg := fmt.Sprintf(what, a...)
			pw.sanity = append(pw.sanity, ev.Finding{Clause: "alphabet-sanity", Detail: "pre-state \"orphans\" is not what it claims to be: " + msg,
				Replay: c12Case{Kind: c12PreSanityKind, Pre: "orphans", Method: msg}})
		}
	}
	ak, ck := w.App.AccountKeeper, w.App.CPCKeeper
	hasAcc := func(a common.Address) bool { return ak.HasAccount(cw.root, a.Bytes()) }
	hasCode := func(a common.Address) bool {
		return len(w.App.EvmKeeper.GetCode(cw.root, w.App.EvmKeeper.GetCodeHash(cw.root, a.Bytes()))) > 0
	}
	allow := func(o, s common.Address) int64 {
		v := ck.GetErc20CpcAllowance(cw.root, o, s)
		if !v.IsInt64() {
			return -1
		}
		return v.Int64()
	}
	for _, g := range []struct {
		n string
		a common.Address
	}{{"MA", MA}, {"MB", MB}, {"MC", MC}, {"N", N}, {"Z", Z}} {
		sane(!hasAcc(g.a), "%s has an auth account", g.n)
		sane(!hasCode(g.a), "%s has code", g.n)
	}
	sane(hasAcc(MR) && !hasCode(MR), "MR: account=%v code=%v, want an account without code", hasAcc(MR), hasCode(MR))
	sane(hasAcc(ML) && hasCode(ML), "ML is not a live contract")
	sane(allow(MA, S) == 500 && allow(MA, H) == 77, "allowances of the destroyed owner MA: %d %d, want 500 77", allow(MA, S), allow(MA, H))
	sane(allow(H, MB) == 400 && allow(H, N) == 300, "allowances to spenders without account: %d %d, want 400 300", allow(H, MB), allow(H, N))
	sane(allow(MC, S) == 55 && allow(MR, S) == 66 && allow(ML, S) == 44, "allowances of MC, MR, ML: %d %d %d", allow(MC, S), allow(MR, S), allow(ML, S))
	sane(allow(H, erc20) == 21 && allow(H, staking) == 22, "allowances to the precompile addresses: %d %d", allow(H, erc20), allow(H, staking))
	sane(ck.GetErc20CpcAllowance(cw.root, H, ML).Cmp(cpctypes.BigMaxUint256) == 0, "infinite allowance H→ML missing")
	sane(allow(H, Z) == 0, "allowance H→Z is %d, want 0", allow(H, Z))
	// the store-diff oracle sees the x/cpc store: the orphaned record is an entry of the dump
	inDump := func(key []byte) bool {
		for _, kv := range cw.pre[cpctypes.StoreKey] {
			if bytes.Equal(kv[0], key) {
				return true
			}
		}
		return false
	}
	_, cpcMounted := w.Keys[cpctypes.StoreKey]
	sane(cpcMounted, "the store dump does not cover the x/cpc store (%q not among the mounted KV stores %v)", cpctypes.StoreKey, w.StoreNames())
	sane(inDump(cpctypes.Erc20CustomPrecompiledContractAllowanceKey(MA, S)), "the allowance record MA→S is not an entry of the x/cpc dump")
	sane(!inDump(cpctypes.Erc20CustomPrecompiledContractAllowanceKey(H, Z)), "the zeroed allowance record H→Z is still an entry of the x/cpc dump")
	for _, d := range []struct {
		n string
		a common.Address
	}{{"MC", MC}, {"ML", ML}} {
		del, err := w.App.StakingKeeper.GetDelegation(cw.root, d.a.Bytes(), sdk.ValAddress(cw.vals[0].Bytes()))
		sane(err == nil && del.Shares.IsPositive(), "%s has no delegation to val0 (%v)", d.n, err)
	}
	// the views answer non-trivially about the orphans (facts, not verdicts: what a view answers is not C12's business)
	view := func(name, label string, args ...interface{}) {
		var m *c12Method
		for _, x := range cw.methods {
			if x.Label == name {
				m = x
			}
		}
		if m == nil {
			pw.facts[name+label] = "method not registered"
			return
		}
		o := cw.exec(m, cw.pack(m, c12Variant{Args: args}), nil, c12ModeBubble, c12Gas)
		pw.facts[name+label] = fmt.Sprintf("err=%v ret=0x%s", o.Res.Err, strings.TrimLeft(hex.EncodeToString(o.Res.Ret), "0"))
	}
	view("erc20[wei].allowance", "(MA,S)", MA, S)
	view("erc20[wei].allowance", "(H,MB)", H, MB)
	view("staking.delegationOf", "(MC,val0)", MC, cw.vals[0])
	view("staking.rewardOf", "(MC,val0)", MC, cw.vals[0])
	view("staking.rewardsOf", "(MC)", MC)
	view("staking.balanceOf", "(MC)", MC)
	{
		rm := cw.find(staking.Hex(), hex.EncodeToString(cpcabi.StakingCpcInfo.ABI.Methods["rewardsOf"].ID))
		if rm != nil {
			o := cw.exec(rm, cw.pack(rm, c12Variant{Args: []interface{}{MC}}), nil, c12ModeBubble, c12Gas)
			sane(o.ok() && len(bytes.TrimLeft(o.Res.Ret, "\x00")) > 0, "the destroyed delegator MC has no rewards (rewardsOf: err=%v ret=%x)", o.Res.Err, o.Res.Ret)
		}
	}
	pw.skipped["balance held by an address without auth account"] = "unreachable: SELFDESTRUCT burns what is left of the balance (DestroyAccount) and bank.SendCoins creates the recipient's account; the destroyed addresses are still used as balanceOf arguments"
	pw.skipped["precompile address as owner / delegator of a real record"] = "unreachable by execution (a precompile never calls approve / delegate itself): owner records are set through the keeper in pre-state \"orphans+keeper-set-records\" only; as spender (real approve) and as argument of every view it is covered"

	pw.states = append(pw.states, &c12PreState{Name: "orphans", What: "the committed state after blocks 2–6", cw: cw})

	derive := func(name, what string, mod func(ctx sdk.Context)) {
		ctx, _ := cw.root.CacheContext()
		mod(ctx)
		c := *cw
		c.root = ctx.WithEventManager(sdk.NewEventManager())
		c.pre = w.Dump(c.root)
		c.methods = c.enumerate()
		pw.states = append(pw.states, &c12PreState{Name: name, What: what, cw: &c})
	}
	disable := func(a common.Address) func(ctx sdk.Context) {
		return func(ctx sdk.Context) {
			meta := ck.GetCustomPrecompiledContractMeta(ctx, a)
			if meta == nil {
				panic("C12 pre-state: no metadata for " + a.Hex())
			}
			meta.Disabled = true
			if err := ck.SetCustomPrecompiledContractMeta(ctx, *meta, false); err != nil {
				panic(err)
			}
			got := ck.GetCustomPrecompiledContractMeta(ctx, a)
			sane(got != nil && got.Disabled, "precompile %s is not disabled", a.Hex())
		}
	}
	derive("orphans+erc20[utwo]-disabled", "orphans, then the metadata of the ERC-20 precompile of utwo gets Disabled=true (keeper)", disable(utwo))
	derive("orphans+keeper-set-records", "orphans, then allowance records that no execution can create are written through the keeper: owner = each precompile address, owner = an address that never existed, owner = 0x0, owner = spender = destroyed contract",
		func(ctx sdk.Context) {
			ck.SetErc20CpcAllowance(ctx, erc20, S, n(31))
			ck.SetErc20CpcAllowance(ctx, staking, S, n(32))
			ck.SetErc20CpcAllowance(ctx, N, S, n(33))
			ck.SetErc20CpcAllowance(ctx, common.Address{}, S, n(34))
			ck.SetErc20CpcAllowance(ctx, MA, MA, n(35))
			ck.SetErc20CpcAllowance(ctx, utwo, erc20, n(36))
		})
	if thorough {
		derive("orphans+erc20[wei]-disabled", "orphans, then the metadata of the native ERC-20 precompile gets Disabled=true (keeper)", disable(erc20))
		derive("orphans+staking-disabled", "orphans, then the metadata of the staking precompile gets Disabled=true (keeper)", disable(staking))
	}
	return pw
}

// c12PrePeriodBumps: as in c12Setup (classification of the fixed defect C12/readonly-reward-view-increments-validator-period).
func c12PrePeriodBumps(cw *c12World) (out [][]world.DiffEntry) {
	for _, set := range [][]int{{0}, {1}, {0, 1}} {
		ctx, _ := cw.root.CacheContext()
		ok := true
		for _, vi := range set {
			val, err := cw.w.App.StakingKeeper.Validator(ctx, sdk.ValAddress(cw.vals[vi].Bytes()))
			if err != nil {
				ok = false
				break
			}
			if _, err = cw.w.App.DistrKeeper.IncrementValidatorPeriod(ctx, val); err != nil {
				ok = false
				break
			}
		}
		if d, _ := cw.filter(world.Diff(cw.pre, cw.w.Dump(ctx))); ok && len(d) > 0 {
			out = append(out, d)
		}
	}
	return out
}

// ---- arguments ----

type c12PreArg struct {
	Label  string
	Val    interface{}
	Caller bool
}

type c12PreTuple struct{ Args []c12PreArg }

func (t c12PreTuple) label() string {
	var s []string
	for _, a := range t.Args {
		s = append(s, a.Label)
	}
	return "(" + strings.Join(s, ",") + ")"
}

// domain: the values of one ABI input type. Addresses: the special addresses of the pre-state; the other types are filled
// from the same addresses where the type can carry one.
func (pw *c12PreWorld) domain(t ethabi.Type) []c12PreArg {
	switch {
	case t.T == ethabi.AddressTy:
		var out []c12PreArg
		for _, a := range pw.addrs {
			out = append(out, c12PreArg{Label: a.Name, Val: a.Addr, Caller: a.Caller})
		}
		return out
	case t.T == ethabi.StringTy:
		var out []c12PreArg
		for _, s := range pw.strs {
			out = append(out, c12PreArg{Label: fmt.Sprintf("%q", s), Val: s})
		}
		return out
	case t.T == ethabi.FixedBytesTy && t.Size == 32:
		var out []c12PreArg
		for _, a := range pw.addrs {
			if strings.HasPrefix(a.Name, "MA") || strings.HasPrefix(a.Name, "MC") {
				var b [32]byte
				copy(b[12:], a.Addr.Bytes())
				out = append(out, c12PreArg{Label: "bytes32(" + a.Name + ")", Val: b})
			}
		}
		return out
	case t.T == ethabi.BytesTy:
		for _, a := range pw.addrs {
			if strings.HasPrefix(a.Name, "MA") {
				return []c12PreArg{{Label: "bytes(" + a.Name + ")", Val: append([]byte{}, a.Addr.Bytes()...)}, {Label: "bytes()", Val: []byte{}}}
			}
		}
	case (t.T == ethabi.UintTy || t.T == ethabi.IntTy) && t.Size > 64:
		return []c12PreArg{{Label: "0", Val: big.NewInt(0)}, {Label: "1", Val: big.NewInt(1)}}
	case t.T == ethabi.BoolTy:
		return []c12PreArg{{Label: "false", Val: false}, {Label: "true", Val: true}}
	}
	return []c12PreArg{{Label: "zero", Val: reflect.Zero(t.GetType()).Interface()}}
}

// tuples: the cross product of the domains of m's inputs, in lexicographic order of the domains, capped.
func (pw *c12PreWorld) tuples(m *c12Method) (out []c12PreTuple, capped bool) {
	if m.Abi == nil {
		return []c12PreTuple{{}}, false
	}
	out = []c12PreTuple{{}}
	for _, in := range m.Abi.Inputs {
		var next []c12PreTuple
		for _, t := range out {
			for _, v := range pw.domain(in.Type) {
				next = append(next, c12PreTuple{Args: append(append([]c12PreArg{}, t.Args...), v)})
			}
		}
		out = next
	}
	if len(out) > c12PreTupleCap {
		return out[:c12PreTupleCap], true
	}
	return out, false
}

func c12PrePack(m *c12Method, t c12PreTuple, caller common.Address) []byte {
	data := append([]byte{}, m.Sel...)
	if m.Abi == nil {
		return data
	}
	var args []interface{}
	for _, a := range t.Args {
		if a.Caller {
			args = append(args, caller)
		} else {
			args = append(args, a.Val)
		}
	}
	bz, err := m.Abi.Inputs.Pack(args...)
	if err != nil {
		panic(fmt.Sprintf("C12 pre-state: cannot pack %s%s: %v", m.Label, t.label(), err))
	}
	return append(data, bz...)
}

// ---- evaluation ----

// c12PreUnit evaluates one (pre-state, read-only method, argument tuple) over a list of opcode sequences.
type c12PreUnit struct {
	ps    *c12PreState
	m     *c12Method
	t     c12PreTuple
	run   *ev.Run
	cache map[string]*c12Obs // executions of normal programs, by c12OpsKey
}

func (u *c12PreUnit) mkCase(ops []asm.CallKind, mode int, data []byte) c12Case {
	return c12Case{Kind: c12PreKind, Pre: u.ps.Name, Contract: u.m.Addr.Hex(), Selector: hex.EncodeToString(u.m.Sel), Method: u.m.Label, Mode: c12ModeName[mode],
		Ops: c12OpNames(ops), Data: hex.EncodeToString(data), ArgLabel: u.t.label()}
}

func (u *c12PreUnit) execOne(ops []asm.CallKind, mode int, data []byte) *c12Obs {
	if u.run != nil {
		u.run.Count("prestate_evm_executions", 1)
	}
	return u.ps.cw.exec(u.m, data, ops, mode, c12Gas)
}

// judge runs the program (ops, mode) with the given call data (nil: packed from the tuple for the caller the chain produces).
func (u *c12PreUnit) judge(ops []asm.CallKind, mode int, data []byte) (*c12Obs, []ev.Finding) {
	cw := u.ps.cw
	caller, idx := cw.caller(ops, mode)
	if data == nil {
		data = c12PrePack(u.m, u.t, caller.Addr)
	}
	twinOps, static := c12Twin(ops)
	key := c12OpsKey(ops, mode)
	if !static {
		if o, ok := u.cache[key]; ok {
			return o, nil
		}
	}
	o := u.execOne(ops, mode, data)
	if !static {
		u.cache[key] = o
	}
	cs := u.mkCase(ops, mode, data)
	var fs []ev.Finding
	ctxName, clause := "normal", "readonly-method-never-writes"
	if static {
		ctxName, clause = "static", "static-context-no-write-no-log"
	}
	cls := "ok"
	switch {
	case o.Res.Panic != "":
		cls = "PANIC"
		fs = append(fs, ev.Finding{Clause: "no-panic", Detail: cs.String() + ": panic: " + o.Res.Panic, Replay: cs})
	case len(o.Diff) > 0 || len(o.Res.Logs) > 0:
		cls = "RO-METHOD-WRITES"
		f := ev.Finding{Clause: clause, Replay: cs,
			Detail: fmt.Sprintf("%s: method declared ReadOnly changed state or logged in a %s context (caller seen by the precompile: %s, call status err=%v): diff=%s logs=%s", cs, ctxName, caller.Name, o.Res.Err, c12DiffString(o.Diff, 6), fmtLogs(o.Res.Logs))}
		if cw.periodBumpOnly(u.m, o) {
			f.Signature = c12PeriodSig
		}
		fs = append(fs, f)
	default:
		if mode == c12ModeBubble {
			if !o.ok() {
				cls = "fails"
			} else if len(bytes.TrimLeft(o.Res.Ret, "\x00")) == 0 {
				cls = "ok-zero-answer"
			}
		}
		// a read-only method keeps answering inside a read-only context exactly as outside
		if static && mode == c12ModeBubble {
			twin, tf := u.judge(twinOps, mode, data)
			fs = append(fs, tf...)
			if twin.ok() && twin.Res.Panic == "" && len(twin.Diff) == 0 && (!o.ok() || !bytes.Equal(o.Res.Ret, twin.Res.Ret)) {
				cls = "ANSWER-DIFFERS"
				fs = append(fs, ev.Finding{Clause: "alphabet-sanity", Replay: cs,
					Detail: fmt.Sprintf("%s: read-only method answers differently inside a read-only context: err=%v ret=%x, normal ret=%x", cs, o.Res.Err, o.Res.Ret, twin.Res.Ret)})
			}
		}
	}
	if u.run != nil {
		last := "direct"
		if len(ops) > 0 {
			last = ops[len(ops)-1].String()
		}
		u.run.Outcome(fmt.Sprintf("prestate/%s/%s/%s/last=%s/%s", u.ps.Name, strings.SplitN(u.m.Contract, "[", 2)[0], ctxName, last, cls))
		u.run.Distinct(fmt.Sprintf("prestate|%s|%s%s|%s|caller=%d|%s|%s", u.ps.Name, u.m.Label, u.t.label(), ctxName, idx, last, cls))
	}
	return o, fs
}

func c12PreSeqs(thorough bool) (seqs [][]asm.CallKind, modes []int, maxL int) {
	maxL, modes = 2, []int{c12ModeBubble}
	if thorough {
		maxL, modes = 3, []int{c12ModeBubble, c12ModeSwallow}
	}
	var normal, static [][]asm.CallKind
	for l := 0; l <= maxL; l++ {
		for _, ops := range c12Sequences(l) {
			if _, s := c12Twin(ops); s {
				static = append(static, ops)
			} else {
				normal = append(normal, ops)
			}
		}
	}
	return append(normal, static...), modes, maxL
}

// c12PreExplore is the body of the pre-state dimension for one shard.
func c12PreExplore(run *ev.Run, shard, n int) {
	pw := c12PreSetup(run.Thorough())
	seqs, modes, _ := c12PreSeqs(run.Thorough())
	if shard == 0 {
		for _, f := range pw.sanity {
			run.Fail(f)
		}
		var states []string
		for _, ps := range pw.states {
			states = append(states, ps.Name+": "+ps.What)
		}
		var names []string
		for _, a := range pw.addrs {
			names = append(names, a.Name)
		}
		run.Coverage["prestate_states"] = states
		run.Coverage["prestate_special_addresses"] = names
		run.Coverage["prestate_views_on_orphans"] = pw.facts
		run.Coverage["prestate_skipped"] = pw.skipped
	}
	i, checked := 0, 0
	for _, ps := range pw.states {
		for _, m := range ps.cw.methods {
			if !m.ReadOnly {
				continue
			}
			ts, capped := pw.tuples(m)
			if capped && shard == 0 {
				run.Note("pre-state %s: %s has more than %d argument tuples: only the first %d are evaluated", ps.Name, m.Label, c12PreTupleCap, c12PreTupleCap)
				run.Count("prestate_methods_with_capped_argument_tuples", 1)
			}
			if shard == 0 {
				run.Count("prestate_readonly_methods", 1)
				run.Count("prestate_units", int64(len(ts)))
			}
			for _, t := range ts {
				i++
				if (i-1)%n != shard {
					continue
				}
				u := &c12PreUnit{ps: ps, m: m, t: t, run: run, cache: map[string]*c12Obs{}}
				for _, mode := range modes {
					for _, ops := range seqs {
						if len(ops) == 0 && mode == c12ModeSwallow {
							continue
						}
						o, fs := u.judge(ops, mode, nil)
						for _, f := range fs {
							run.Fail(f)
						}
						run.Count("prestate_programs", 1)
						if checked < 6 && len(ops) > 0 {
							checked++
							caller, _ := ps.cw.caller(ops, mode)
							o2 := u.execOne(ops, mode, c12PrePack(m, t, caller.Addr))
							if o.fingerprint() != o2.fingerprint() {
								fmt.Fprintf(os.Stderr, "HARNESS-NONDETERMINISM in C12 (pre-state %s): %s%s %v\n%s\n---\n%s\n", ps.Name, m.Label, t.label(), ops, o.fingerprint(), o2.fingerprint())
								os.Exit(2)
							}
							run.Count("determinism_reexecutions", 1)
						}
					}
				}
			}
		}
	}
}

func c12PreReplay(c c12Case) []ev.Finding {
	// the tier only adds pre-states: build them all, so that a replay does not depend on the tier
	pw := c12PreSetup(true)
	if c.Kind == c12PreSanityKind {
		var out []ev.Finding
		for _, f := range pw.sanity {
			if f.Replay.(c12Case).Method == c.Method {
				out = append(out, f)
			}
		}
		return out
	}
	for _, ps := range pw.states {
		if ps.Name != c.Pre {
			continue
		}
		m := ps.cw.find(c.Contract, c.Selector)
		if m == nil {
			fmt.Fprintf(os.Stderr, "C12 replay: no registered method %s on %s\n", c.Selector, c.Contract)
			os.Exit(2)
		}
		data, err := hex.DecodeString(c.Data)
		if err != nil {
			fmt.Fprintln(os.Stderr, err)
			os.Exit(2)
		}
		var ops []asm.CallKind
		for _, s := range c.Ops {
			ops = append(ops, c12KindByName(s))
		}
		mode := c12ModeBubble
		if c.Mode == c12ModeName[c12ModeSwallow] {
			mode = c12ModeSwallow
		}
		u := &c12PreUnit{ps: ps, m: m, t: c12PreTuple{Args: []c12PreArg{{Label: strings.Trim(c.ArgLabel, "()")}}}, cache: map[string]*c12Obs{}}
		_, fs := u.judge(ops, mode, data)
		// the twin's own findings carry the twin's case; keep those of this case only
		var out []ev.Finding
		for _, f := range fs {
			if fc := f.Replay.(c12Case); strings.Join(fc.Ops, ",") == strings.Join(c.Ops, ",") {
				out = append(out, f)
			}
		}
		return out
	}
	fmt.Fprintf(os.Stderr, "C12 replay: no pre-state %q\n", c.Pre)
	os.Exit(2)
	return nil
}

func c12PreRule(thorough bool) string {
	seqs, modes, maxL := c12PreSeqs(thorough)
	nStatic := 0
	for _, ops := range seqs {
		if _, s := c12Twin(ops); s {
			nStatic++
		}
	}
	states := "orphans; orphans + ERC-20[utwo] precompile disabled; orphans + keeper-set allowance records whose owner is a precompile address / a never-existing address / 0x0"
	if thorough {
		states += "; orphans + native ERC-20 precompile disabled; orphans + staking precompile disabled"
	}
	md := "forwarders bubble an inner failure"
	if len(modes) > 1 {
		md = "forwarders {bubble, swallow} an inner failure"
	}
	keys := []string{"caller", "H", "S", "live contract ML", "MA (approved, self-destructed)", "MB (approved spender, self-destructed)", "MC (delegated to two validators, earned rewards, approved, self-destructed)",
		"MR (approved, self-destructed, paid again: account without code)", "N (approved spender that never had an account)", "Z (spender whose allowance was approved and set back to 0: no record)",
		"the native ERC-20 precompile address (approved spender)", "the utwo ERC-20 precompile address", "the staking precompile address (approved spender)", "0x0", "validator 0"}
	return fmt.Sprintf("pre-states {%s} — \"orphans\" is built by signed Ethereum transactions in committed blocks (contracts call approve / delegate on the precompiles, then SELFDESTRUCT) — × every method declared ReadOnly() of every registered precompile (live registry, disabled ones included) × the full cross product of its ABI inputs over the per-type domains (address: the %d special addresses {%s}; string: {account hrp, bech32 of MA, \"\"}; bytes32 / bytes: MA, MC; at most %d tuples per method, a cap is reported as a note) × every opcode sequence of length 0..%d (%d sequences, %d with ≥ 1 STATICCALL), %s. Oracle per execution: no panic, the dump of every KV store (x/cpc verified to be among them: the orphaned allowance record is looked up in the dump) is unchanged and no log is emitted — in normal contexts (readonly-method-never-writes) and in read-only contexts (static-context-no-write-no-log); inside a read-only context the answer equals the answer of the twin program without STATICCALL. Sanity: the pre-state is what it claims (accounts gone, records present, delegation and rewards of the destroyed delegator non-zero). Counted as unreachable, not built: see prestate_skipped.",
		states, len(keys), strings.Join(keys, "; "), c12PreTupleCap, maxL, len(seqs), nStatic, md)
}
