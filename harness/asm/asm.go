// Package asm is a tiny EVM assembler and gadget library used to generate contract programs.
package asm

import (
	"math/big"

	"github.com/ethereum/go-ethereum/common"
)

// Opcodes used by the gadgets.
const (
	STOP           = 0x00
	ADD            = 0x01
	SUB            = 0x03
	LT             = 0x10
	GT             = 0x11
	EQ             = 0x14
	ISZERO         = 0x15
	ADDRESS        = 0x30
	BALANCE        = 0x31
	ORIGIN         = 0x32
	CALLER         = 0x33
	CALLVALUE      = 0x34
	CALLDATALOAD   = 0x35
	CALLDATASIZE   = 0x36
	CALLDATACOPY   = 0x37
	CODECOPY       = 0x39
	EXTCODESIZE    = 0x3b
	EXTCODECOPY    = 0x3c
	RETURNDATASIZE = 0x3d
	RETURNDATACOPY = 0x3e
	EXTCODEHASH    = 0x3f
	TIMESTAMP      = 0x42
	NUMBER         = 0x43
	SELFBALANCE    = 0x47
	POP            = 0x50
	MLOAD          = 0x51
	MSTORE         = 0x52
	MSTORE8        = 0x53
	SLOAD          = 0x54
	SSTORE         = 0x55
	JUMP           = 0x56
	JUMPI          = 0x57
	GAS            = 0x5a
	JUMPDEST       = 0x5b
	PUSH1          = 0x60
	PUSH32         = 0x7f
	DUP1           = 0x80
	SWAP1          = 0x90
	LOG0           = 0xa0
	LOG1           = 0xa1
	CREATE         = 0xf0
	CALL           = 0xf1
	CALLCODE       = 0xf2
	RETURN         = 0xf3
	DELEGATECALL   = 0xf4
	CREATE2        = 0xf5
	STATICCALL     = 0xfa
	REVERT         = 0xfd
	INVALID        = 0xfe
	SELFDESTRUCT   = 0xff
)

// Code is a byte buffer with helpers.
type Code struct{ B []byte }

func New() *Code { return &Code{} }

func (c *Code) Op(ops ...byte) *Code { c.B = append(c.B, ops...); return c }

// Push pushes the minimal big-endian encoding of v (PUSH1 0 for zero).
func (c *Code) Push(v *big.Int) *Code {
	b := v.Bytes()
	if len(b) == 0 {
		b = []byte{0}
	}
	if len(b) > 32 {
		panic("push too wide")
	}
	c.B = append(c.B, byte(PUSH1+len(b)-1))
	c.B = append(c.B, b...)
	return c
}

func (c *Code) PushU(v uint64) *Code { return c.Push(new(big.Int).SetUint64(v)) }

func (c *Code) PushBytes(b []byte) *Code {
	if len(b) == 0 || len(b) > 32 {
		panic("bad push width")
	}
	c.B = append(c.B, byte(PUSH1+len(b)-1))
	c.B = append(c.B, b...)
	return c
}

func (c *Code) PushAddr(a common.Address) *Code { return c.PushBytes(a.Bytes()) }

// MstoreBytes writes data into memory starting at offset off using 32-byte MSTOREs (right-padded).
func (c *Code) MstoreBytes(off uint64, data []byte) *Code {
	for i := 0; i < len(data); i += 32 {
		var w [32]byte
		copy(w[:], data[i:])
		c.PushBytes(w[:]).PushU(off + uint64(i)).Op(MSTORE)
	}
	return c
}

// Sstore: storage[k] = v.
func (c *Code) Sstore(k, v uint64) *Code { return c.PushU(v).PushU(k).Op(SSTORE) }

// Sload pops nothing, pushes and drops storage[k].
func (c *Code) Sload(k uint64) *Code { return c.PushU(k).Op(SLOAD, POP) }

// Log0 emits an empty-data LOG0; Log1 a LOG1 with topic t and 1 data byte.
func (c *Code) Log0() *Code { return c.PushU(0).PushU(0).Op(LOG0) }
func (c *Code) Log1(topic uint64) *Code {
	c.PushU(0xab).PushU(0).Op(MSTORE8)
	return c.PushU(topic).PushU(1).PushU(0).Op(LOG1)
}

// CallKind enumerates the call opcodes.
type CallKind byte

const (
	KCall         CallKind = CALL
	KCallCode     CallKind = CALLCODE
	KDelegateCall CallKind = DELEGATECALL
	KStaticCall   CallKind = STATICCALL
)

func (k CallKind) String() string {
	switch k {
	case KCall:
		return "CALL"
	case KCallCode:
		return "CALLCODE"
	case KDelegateCall:
		return "DELEGATECALL"
	case KStaticCall:
		return "STATICCALL"
	}
	return "?"
}

// Call emits a call of the given kind with input memory[inOff:inOff+inLen], output memory[outOff:+outLen];
// gas == 0 means "all gas" (GAS opcode). Leaves the success flag on the stack.
func (c *Code) Call(kind CallKind, to common.Address, value uint64, gas uint64, inOff, inLen, outOff, outLen uint64) *Code {
	c.PushU(outLen).PushU(outOff).PushU(inLen).PushU(inOff)
	if kind == KCall || kind == KCallCode {
		c.PushU(value)
	}
	c.PushAddr(to)
	if gas == 0 {
		c.Op(GAS)
	} else {
		c.PushU(gas)
	}
	return c.Op(byte(kind))
}

// CallData stores data at memory 0 and calls with it; pops the success flag.
func (c *Code) CallData(kind CallKind, to common.Address, value uint64, gas uint64, data []byte) *Code {
	c.MstoreBytes(0, data)
	return c.Call(kind, to, value, gas, 0, uint64(len(data)), 0, 0).Op(POP)
}

// CallDataKeep is CallData but keeps the success flag on the stack.
func (c *Code) CallDataKeep(kind CallKind, to common.Address, value uint64, gas uint64, data []byte) *Code {
	c.MstoreBytes(0, data)
	return c.Call(kind, to, value, gas, 0, uint64(len(data)), 0, 0)
}

// ReturnLastReturnData copies the return data of the last call and returns it.
func (c *Code) ReturnLastReturnData() *Code {
	// returndatacopy(0,0,returndatasize); return(0, returndatasize)
	c.Op(RETURNDATASIZE).PushU(0).PushU(0).Op(RETURNDATACOPY)
	return c.Op(RETURNDATASIZE).PushU(0).Op(RETURN)
}

// RevertIfZero: pops a flag, reverts (empty) if it is zero.
func (c *Code) RevertIfZero() *Code {
	// flag; PUSH dest; JUMPI; PUSH0 PUSH0 REVERT; JUMPDEST
	pos := len(c.B)
	// layout: PUSH2 dest(3) JUMPI(1) PUSH1 0(2) PUSH1 0(2) REVERT(1) JUMPDEST
	dest := pos + 3 + 1 + 2 + 2 + 1
	c.Op(0x61, byte(dest>>8), byte(dest)) // PUSH2
	c.Op(JUMPI)
	c.PushU(0).PushU(0).Op(REVERT)
	return c.Op(JUMPDEST)
}

func (c *Code) Revert() *Code  { return c.PushU(0).PushU(0).Op(REVERT) }
func (c *Code) Invalid() *Code { return c.Op(INVALID) }
func (c *Code) Stop() *Code    { return c.Op(STOP) }
func (c *Code) Return0() *Code { return c.PushU(0).PushU(0).Op(RETURN) }

// ReturnWord returns the 32-byte word v.
func (c *Code) ReturnWord(v uint64) *Code {
	return c.PushU(v).PushU(0).Op(MSTORE).PushU(32).PushU(0).Op(RETURN)
}

func (c *Code) SelfDestruct(to common.Address) *Code { return c.PushAddr(to).Op(SELFDESTRUCT) }

// Create deploys initcode with value; pops the resulting address.
func (c *Code) Create(initcode []byte, value uint64) *Code {
	c.MstoreBytes(0, initcode)
	return c.PushU(uint64(len(initcode))).PushU(0).PushU(value).Op(CREATE, POP)
}

func (c *Code) Create2(initcode []byte, value uint64, salt uint64) *Code {
	c.MstoreBytes(0, initcode)
	return c.PushU(salt).PushU(uint64(len(initcode))).PushU(0).PushU(value).Op(CREATE2, POP)
}

// BurnGas loops n times over a cheap body (~ 30 gas per iteration).
func (c *Code) BurnGas(n uint64) *Code {
	// PUSH n; JUMPDEST; PUSH1 1; SWAP1; SUB; DUP1; PUSH2 dest; JUMPI; POP
	c.PushU(n)
	dest := len(c.B)
	c.Op(JUMPDEST)
	c.PushU(1).Op(SWAP1, SUB, DUP1)
	c.Op(0x61, byte(dest>>8), byte(dest))
	c.Op(JUMPI, POP)
	return c
}

func (c *Code) Bytes() []byte { return append([]byte{}, c.B...) }

// InitCode wraps runtime code into init code that returns it.
func InitCode(runtime []byte) []byte {
	// PUSH2 len; DUP1; PUSH2 off; PUSH1 0; CODECOPY; PUSH1 0; RETURN
	n := len(runtime)
	pre := []byte{0x61, byte(n >> 8), byte(n), DUP1, 0x61, 0, 0, PUSH1, 0, CODECOPY, PUSH1, 0, RETURN}
	off := len(pre)
	pre[5], pre[6] = byte(off>>8), byte(off)
	return append(pre, runtime...)
}

// InitCodeWith runs prefix (constructor body) and then returns runtime.
func InitCodeWith(prefix []byte, runtime []byte) []byte {
	n := len(runtime)
	tail := []byte{0x61, byte(n >> 8), byte(n), DUP1, 0x61, 0, 0, PUSH1, 0, CODECOPY, PUSH1, 0, RETURN}
	off := len(prefix) + len(tail)
	tail[5], tail[6] = byte(off>>8), byte(off)
	out := append(append([]byte{}, prefix...), tail...)
	return append(out, runtime...)
}

// ---------------------------------------------------------------------------
// labels
// ---------------------------------------------------------------------------

// Prog is a Code with symbolic jump labels (PUSH2 placeholders patched in Assemble).
type Prog struct {
	Code
	labels map[string]int
	fixups map[int]string
}

func NewProg() *Prog { return &Prog{labels: map[string]int{}, fixups: map[int]string{}} }

func (p *Prog) Label(name string) *Prog {
	p.labels[name] = len(p.B)
	p.Op(JUMPDEST)
	return p
}

func (p *Prog) pushLabel(name string) {
	p.fixups[len(p.B)+1] = name
	p.Op(0x61, 0, 0)
}

func (p *Prog) JumpTo(name string) *Prog { p.pushLabel(name); p.Op(JUMP); return p }
func (p *Prog) JumpIf(name string) *Prog { p.pushLabel(name); p.Op(JUMPI); return p }

func (p *Prog) Assemble() []byte {
	out := append([]byte{}, p.B...)
	for pos, name := range p.fixups {
		d, ok := p.labels[name]
		if !ok {
			panic("undefined label " + name)
		}
		out[pos], out[pos+1] = byte(d>>8), byte(d)
	}
	return out
}

const SHR = 0x1c

// Forwarder returns the runtime code of a generic proxy. Call data layout:
//
//	[1 byte kind][20 bytes target][payload...]
//
// kind: 0 CALL, 1 DELEGATECALL, 2 STATICCALL, 3 CALLCODE. The payload is forwarded with all gas, the return data is
// passed through, and the forwarder reverts (with the callee's return data) when the inner call fails.
// With mode "swallow" the forwarder returns successfully (empty data) even when the inner call failed.
func Forwarder(swallow bool) []byte {
	p := NewProg()
	// mem[0x400] = payload size ; copy payload to mem[0..]
	p.PushU(21).Op(CALLDATASIZE, SUB).PushU(0x400).Op(MSTORE)
	p.PushU(0x400).Op(MLOAD).PushU(21).PushU(0).Op(CALLDATACOPY)
	target := func() { p.PushU(1).Op(CALLDATALOAD).PushU(96).Op(SHR) }
	kind := func() { p.PushU(0).Op(CALLDATALOAD).PushU(248).Op(SHR) }
	kind()
	p.PushU(1).Op(EQ)
	p.JumpIf("deleg")
	kind()
	p.PushU(2).Op(EQ)
	p.JumpIf("static")
	kind()
	p.PushU(3).Op(EQ)
	p.JumpIf("callcode")
	// CALL
	p.PushU(0).PushU(0).PushU(0x400).Op(MLOAD).PushU(0).PushU(0)
	target()
	p.Op(GAS, CALL)
	p.JumpTo("after")
	p.Label("deleg")
	p.PushU(0).PushU(0).PushU(0x400).Op(MLOAD).PushU(0)
	target()
	p.Op(GAS, DELEGATECALL)
	p.JumpTo("after")
	p.Label("static")
	p.PushU(0).PushU(0).PushU(0x400).Op(MLOAD).PushU(0)
	target()
	p.Op(GAS, STATICCALL)
	p.JumpTo("after")
	p.Label("callcode")
	p.PushU(0).PushU(0).PushU(0x400).Op(MLOAD).PushU(0).PushU(0)
	target()
	p.Op(GAS, CALLCODE)
	p.Label("after")
	p.Op(RETURNDATASIZE).PushU(0).PushU(0).Op(RETURNDATACOPY)
	if swallow {
		p.Op(POP)
		p.PushU(0).PushU(0).Op(RETURN)
		return p.Assemble()
	}
	p.JumpIf("ok")
	p.Op(RETURNDATASIZE).PushU(0).Op(REVERT)
	p.Label("ok")
	p.Op(RETURNDATASIZE).PushU(0).Op(RETURN)
	return p.Assemble()
}

// ForwardData builds the call data for a Forwarder.
func ForwardData(kind CallKind, target common.Address, payload []byte) []byte {
	var k byte
	switch kind {
	case KCall:
		k = 0
	case KDelegateCall:
		k = 1
	case KStaticCall:
		k = 2
	case KCallCode:
		k = 3
	}
	out := append([]byte{k}, target.Bytes()...)
	return append(out, payload...)
}

// Multicall returns the runtime code of a contract that performs a sequence of CALLs within one message. Call data
// layout: repeated entries [32-byte word: target address][32-byte word: payload length n][n bytes payload]. Every entry
// is CALLed with all gas and value 0; a failing inner call does not stop the sequence. The success flag of the entry
// starting at call-data offset p is written to memory byte 0x1000+p and the whole flag area (call-data size bytes) is
// returned.
func Multicall() []byte {
	p := NewProg()
	p.PushU(0) // pos
	p.Label("loop")
	p.Op(CALLDATASIZE, DUP1+1, LT, ISZERO) // !(pos < size)
	p.JumpIf("end")
	p.Op(DUP1, CALLDATALOAD)                     // [pos, target]
	p.Op(DUP1+1).PushU(32).Op(ADD, CALLDATALOAD) // [pos, target, len]
	p.Op(DUP1)                                   // [pos, target, len, len]
	p.Op(DUP1 + 3).PushU(64).Op(ADD)             // [.., len, pos+64]
	p.PushU(0).Op(CALLDATACOPY)                  // mem[0..len) = payload ; [pos, target, len]
	p.PushU(0).PushU(0)                          // retSize, retOffset
	p.Op(DUP1 + 2)                               // argsSize = len
	p.PushU(0).PushU(0)                          // argsOffset, value
	p.Op(DUP1 + 6)                               // target
	p.Op(GAS, CALL)                              // [pos, target, len, success]
	p.Op(DUP1+3).PushU(0x1000).Op(ADD, MSTORE8)  // mem[0x1000+pos] = success ; [pos, target, len]
	p.Op(SWAP1, POP)                             // [pos, len]
	p.Op(ADD).PushU(64).Op(ADD)                  // [pos+len+64]
	p.JumpTo("loop")
	p.Label("end")
	p.Op(CALLDATASIZE).PushU(0x1000).Op(RETURN)
	return p.Assemble()
}

// MulticallEntry is one inner call of a Multicall message.
type MulticallEntry struct {
	To   common.Address
	Data []byte
}

// MulticallData encodes the call data for Multicall and returns, for every entry, the offset of its success flag in the
// returned flag area.
func MulticallData(entries []MulticallEntry) (data []byte, flagOffsets []int) {
	for _, e := range entries {
		flagOffsets = append(flagOffsets, len(data))
		data = append(data, common.LeftPadBytes(e.To.Bytes(), 32)...)
		data = append(data, common.LeftPadBytes(new(big.Int).SetInt64(int64(len(e.Data))).Bytes(), 32)...)
		data = append(data, e.Data...)
	}
	return data, flagOffsets
}
