//go:build verif

// vsched explores the schedules of one scenario of package sched and prints a JSON summary.
//
//	vsched -scenario S1 -bound 2 [-shards 16] [-free-switch] [-replay 0,1,0,2]
package main

import (
	"encoding/json"
	"flag"
	"fmt"
	"os"
	"os/exec"
	"sort"
	"strconv"
	"strings"
	"sync"
	"time"

	"verif/harness/sched"
	"verif/harness/vrt"
)

type failureOut struct {
	Kind    string   `json:"kind"`
	Thread  string   `json:"thread"`
	Msg     string   `json:"msg"`
	Cost    int      `json:"cost"`
	Count   int      `json:"count"`
	Choices []int    `json:"choices"`
	Trace   []string `json:"trace,omitempty"`
}

type summary struct {
	Scenario    string           `json:"scenario"`
	Desc        string           `json:"desc"`
	Bound       int              `json:"bound"`
	FreeSwitch  bool             `json:"free_switch_at_block"`
	Horizon     int              `json:"horizon"`
	Executions  int64            `json:"executions"`
	Steps       int64            `json:"steps"`
	ByCost      map[string]int64 `json:"executions_by_cost"`
	Outcomes    map[string]int64 `json:"outcomes"`
	Failures    []failureOut     `json:"failures"`
	Capped      int64            `json:"capped_at_horizon"`
	Stopped     bool             `json:"stopped_by_budget"`
	Diverged    []string         `json:"diverged"`
	MaxLen      int              `json:"max_points"`
	WallS       float64          `json:"wall_s"`
	SampleTrace []string         `json:"sample_trace,omitempty"`
	ReplayOK    int              `json:"replays_identical"`
}

func main() {
	name := flag.String("scenario", "", "scenario name (prefix)")
	bound := flag.Int("bound", 1, "deviation bound")
	shards := flag.Int("shards", 1, "worker processes")
	shard := flag.String("shard", "", "i/n (internal)")
	freeSwitch := flag.Bool("free-switch", true, "choosing among enabled threads is free when the running thread blocks (CHESS)")
	horizon := flag.Int("horizon", 400, "max scheduling points per execution")
	maxExec := flag.Int("max-exec", 0, "stop after that many executions per process (0 = unlimited)")
	replay := flag.String("replay", "", "comma separated choice list: run exactly this execution")
	list := flag.Bool("list", false, "list scenarios")
	flag.Parse()
	if err := sched.Probe(); err != nil {
		fmt.Fprintln(os.Stderr, "HARNESS:", err)
		os.Exit(2)
	}
	if *list {
		for _, s := range sched.Scenarios() {
			fmt.Printf("%s\t%s\n", s.Name, s.Desc)
		}
		return
	}
	var sc *sched.Scenario
	for _, s := range sched.Scenarios() {
		s := s
		if strings.HasPrefix(s.Name, *name) {
			sc = &s
			break
		}
	}
	if sc == nil {
		fmt.Fprintln(os.Stderr, "unknown scenario", *name)
		os.Exit(2)
	}
	cfg := vrt.Config{Horizon: *horizon, FreeSwitchAtBlock: *freeSwitch, MaxTime: sc.MaxTime}
	if *replay != "" {
		var choices []int
		for _, f := range strings.Split(*replay, ",") {
			n, err := strconv.Atoi(strings.TrimSpace(f))
			if err != nil {
				fmt.Fprintln(os.Stderr, "bad replay list")
				os.Exit(2)
			}
			choices = append(choices, n)
		}
		x := vrt.Run(choices, cfg, sc.Body)
		for i, s := range x.Trace {
			fmt.Printf("%3d %s\n", i, s)
		}
		if x.Diverged != "" {
			fmt.Println("DIVERGED:", x.Diverged)
			os.Exit(2)
		}
		fmt.Println("outcome:", vrt.OutcomeClass(x))
		if x.Failure != nil {
			fmt.Printf("FAILURE kind=%s thread=%s msg=%s\n", x.Failure.Kind, x.Failure.Thread, x.Failure.Msg)
			os.Exit(1)
		}
		return
	}
	t0 := time.Now()
	if *shards > 1 && *shard == "" {
		out := runSharded(*shards)
		out.WallS = time.Since(t0).Seconds()
		emit(out)
		return
	}
	e := &vrt.Explorer{Scenario: sc.Body, Cfg: cfg, Bound: *bound, MaxExec: *maxExec, ShardDepth: 2}
	if *shard != "" {
		if _, err := fmt.Sscanf(*shard, "%d/%d", &e.Shard, &e.NShards); err != nil {
			fmt.Fprintln(os.Stderr, "bad shard")
			os.Exit(2)
		}
	}
	e.Run()
	out := &summary{Scenario: sc.Name, Desc: sc.Desc, Bound: *bound, FreeSwitch: *freeSwitch, Horizon: *horizon, Executions: e.Executions, Steps: e.Steps,
		ByCost: map[string]int64{}, Outcomes: e.Outcomes, Capped: e.Capped, Stopped: e.Stopped, Diverged: e.Diverged, MaxLen: e.MaxLen}
	for c, n := range e.ByCost {
		out.ByCost[strconv.Itoa(c)] = n
	}
	for _, f := range e.Failures {
		out.Failures = append(out.Failures, failureOut{Kind: f.Failure.Kind, Thread: f.Failure.Thread, Msg: f.Failure.Msg, Cost: f.Cost, Count: f.Count, Choices: f.Choices, Trace: f.Trace})
	}
	// determinism: every reported failure and the default execution must replay identically (3x)
	check := [][]int{nil}
	for _, f := range e.Failures {
		check = append(check, f.Choices)
	}
	for _, ch := range check {
		var ref string
		for i := 0; i < 3; i++ {
			x := e.Exec(ch)
			var sb strings.Builder
			for _, s := range x.Trace {
				sb.WriteString(s.String())
				sb.WriteString("\n")
			}
			sb.WriteString(vrt.OutcomeClass(x))
			if i == 0 {
				ref = sb.String()
				if ch == nil {
					for _, s := range x.Trace {
						out.SampleTrace = append(out.SampleTrace, s.String())
					}
				}
			} else if sb.String() != ref {
				fmt.Fprintf(os.Stderr, "HARNESS-NONDETERMINISM: replay of %v differs\n", ch)
				os.Exit(2)
			}
		}
		out.ReplayOK++
	}
	out.WallS = time.Since(t0).Seconds()
	emit(out)
}

func emit(s *summary) {
	bz, _ := json.MarshalIndent(s, "", " ")
	fmt.Println(string(bz))
}

func runSharded(n int) *summary {
	outs := make([]*summary, n)
	errs := make([]error, n)
	var wg sync.WaitGroup
	for i := 0; i < n; i++ {
		wg.Add(1)
		go func(i int) {
			defer wg.Done()
			args := append([]string{}, os.Args[1:]...)
			args = append(args, "-shard", fmt.Sprintf("%d/%d", i, n))
			cmd := exec.Command(os.Args[0], args...)
			cmd.Env = append(os.Environ(), "GOMAXPROCS=2")
			cmd.Stderr = os.Stderr
			bz, err := cmd.Output()
			if err != nil {
				errs[i] = err
				return
			}
			var s summary
			if err := json.Unmarshal(bz, &s); err != nil {
				errs[i] = err
				return
			}
			outs[i] = &s
		}(i)
	}
	wg.Wait()
	var m *summary
	for i := 0; i < n; i++ {
		if errs[i] != nil {
			fmt.Fprintf(os.Stderr, "HARNESS: shard %d: %v\n", i, errs[i])
			os.Exit(2)
		}
		s := outs[i]
		if m == nil {
			m = s
			continue
		}
		m.Executions += s.Executions
		m.Steps += s.Steps
		m.Capped += s.Capped
		m.Stopped = m.Stopped || s.Stopped
		m.ReplayOK += s.ReplayOK
		m.Diverged = append(m.Diverged, s.Diverged...)
		if s.MaxLen > m.MaxLen {
			m.MaxLen = s.MaxLen
		}
		for k, v := range s.ByCost {
			m.ByCost[k] += v
		}
		for k, v := range s.Outcomes {
			m.Outcomes[k] += v
		}
		for _, f := range s.Failures {
			merged := false
			for j := range m.Failures {
				g := &m.Failures[j]
				if g.Kind == f.Kind && stripID(g.Thread) == stripID(f.Thread) && g.Msg == f.Msg {
					g.Count += f.Count
					if f.Cost < g.Cost || (f.Cost == g.Cost && len(f.Choices) < len(g.Choices)) {
						c := g.Count
						*g = f
						g.Count = c
					}
					merged = true
				}
			}
			if !merged {
				m.Failures = append(m.Failures, f)
			}
		}
	}
	sort.Slice(m.Failures, func(i, j int) bool { return m.Failures[i].Cost < m.Failures[j].Cost })
	return m
}

func stripID(n string) string {
	if i := strings.LastIndex(n, "#"); i > 0 {
		return n[:i]
	}
	return n
}
