// vcheck runs one property check: vcheck <Cxx> [--replay file]
package main

import (
	"fmt"
	"os"

	"verif/harness/checks"
)

func main() {
	if len(os.Args) < 2 {
		fmt.Fprintln(os.Stderr, "usage: vcheck <Cxx> [--replay file]")
		os.Exit(2)
	}
	id := os.Args[1]
	f, ok := checks.Registry[id]
	if !ok {
		fmt.Fprintf(os.Stderr, "unknown check %s\n", id)
		os.Exit(2)
	}
	replay := ""
	for i := 2; i < len(os.Args); i++ {
		if os.Args[i] == "--replay" && i+1 < len(os.Args) {
			replay = os.Args[i+1]
		}
	}
	os.Exit(f(replay))
}
