// instr generates the overlay that puts nondeterminism of /repo code under the control of package vrt.
// Nothing is written to /repo: rewritten copies of the package files go to an output directory together with an
// overlay.json for `go build -overlay`. The rewriting is typed (export data of the dependencies, source of the
// target package), so it finds the sites in whatever the working tree contains when it runs.
//
//	instr -out <dir> -profile sched|consensus [-drop pkg.Func,...] <import path>...
//
// Profile "sched" (schedule exploration of concurrent code):
//   - chan T / <-chan T / chan<- T            -> *vrt.Chan[T]
//   - make(chan T, n), c <- v, <-c, close(c)  -> vrt.MakeChan / Send / Recv / Recv2 / Close
//   - for x := range c                        -> receive loop
//   - select                                  -> vrt.Select over vrt.RecvCase / vrt.SendCase
//   - go f(x)                                 -> vrt.Go(site, func(){ f(x) })
//   - for k, v := range m (m a map)           -> iteration in the order given by vrt.Keys
//   - import "sync", "time", cometbft's jsonrpc client -> shims under verif/harness/vrt
//
// Profile "consensus" (environment exploration of sequential consensus code):
//   - for k, v := range m (m a map)           -> iteration in the order chosen through vrt.Keys (an envx choice point)
//   - time.Now / time.Since / time.Until      -> vrt.EnvNow(site) etc. (an envx choice point)
//   - go f(x)                                 -> vrt.Spawned(site); go f(x)
package main

import (
	"bufio"
	"bytes"
	"encoding/json"
	"flag"
	"fmt"
	"go/ast"
	"go/format"
	"go/importer"
	"go/parser"
	"go/token"
	"go/types"
	"io"
	"os"
	"os/exec"
	"path/filepath"
	"regexp"
	"sort"
	"strings"

	"golang.org/x/tools/go/ast/astutil"
)

const vrtPath = "verif/harness/vrt"

var schedImportSubst = map[string][2]string{ // import path -> {new path, package name}
	"sync": {"verif/harness/vrt/vsync", "sync"},
	"time": {"verif/harness/vrt/vtime", "time"},
	"github.com/cometbft/cometbft/rpc/jsonrpc/client": {"verif/harness/vrt/vws", "client"},
}

type pkgInfo struct {
	ImportPath string
	Dir        string
	GoFiles    []string
	only       *regexp.Regexp
}

type site struct {
	Pos  string `json:"pos"`
	Kind string `json:"kind"`
}

type report struct {
	Profile string            `json:"profile"`
	Sites   []site            `json:"sites"`
	Skipped []site            `json:"uninstrumented_sites"`
	Overlay map[string]string `json:"overlay"`
}

func main() {
	out := flag.String("out", "", "output directory")
	profile := flag.String("profile", "sched", "sched|consensus")
	drop := flag.String("drop", "", "comma separated Func or Recv.Method names whose bodies are replaced by a panic")
	repo := flag.String("repo", "/repo", "repository root")
	extraRoot := flag.String("modroot", "", "directory to run `go list` in (default: repo)")
	extra := flag.String("extra", "", "comma separated extra packages (e.g. of the module cache) of which only the files matching -only-files are rewritten")
	onlyFiles := flag.String("only-files", "", "regexp selecting the files of -extra packages")
	points := flag.String("points", "", "consensus profile: regexp of file paths in which vrt.Point(site) is inserted before every statement")
	flag.Parse()
	if *out == "" || flag.NArg() == 0 {
		fmt.Fprintln(os.Stderr, "usage: instr -out dir -profile p pkg...")
		os.Exit(2)
	}
	listDir := *repo
	if *extraRoot != "" {
		listDir = *extraRoot
	}
	dropSet := map[string]bool{}
	for _, d := range strings.Split(*drop, ",") {
		if d != "" {
			dropSet[d] = true
		}
	}
	targets := append([]string{}, flag.Args()...)
	extraSet := map[string]bool{}
	for _, x := range strings.Split(*extra, ",") {
		if x != "" {
			extraSet[x] = true
			targets = append(targets, x)
		}
	}
	var onlyRe *regexp.Regexp
	if *onlyFiles != "" {
		onlyRe = regexp.MustCompile(*onlyFiles)
	}
	exports, pkgs, err := goList(listDir, targets)
	if err != nil {
		fmt.Fprintln(os.Stderr, "instr: go list:", err)
		os.Exit(2)
	}
	rep := &report{Profile: *profile, Overlay: map[string]string{}}
	if *points != "" {
		pointsRe = regexp.MustCompile(*points)
	}
	for _, p := range pkgs {
		p.only = nil
		if extraSet[p.ImportPath] {
			p.only = onlyRe
		}
		if err := rewritePackage(p, exports, *out, *profile, dropSet, rep); err != nil {
			fmt.Fprintf(os.Stderr, "instr: %s: %v\n", p.ImportPath, err)
			os.Exit(2)
		}
	}
	ov, _ := json.MarshalIndent(map[string]interface{}{"Replace": rep.Overlay}, "", " ")
	if err := os.WriteFile(filepath.Join(*out, "overlay.json"), ov, 0o644); err != nil {
		fmt.Fprintln(os.Stderr, err)
		os.Exit(2)
	}
	rp, _ := json.MarshalIndent(rep, "", " ")
	_ = os.WriteFile(filepath.Join(*out, "sites.json"), rp, 0o644)
	fmt.Printf("instr: profile=%s packages=%d files=%d sites=%d skipped=%d\n", *profile, len(pkgs), len(rep.Overlay), len(rep.Sites), len(rep.Skipped))
}

// pointsRe selects the files that get statement-level points (consensus profile).
var pointsRe *regexp.Regexp

// insertPoints puts vrt.Point("file:line") before every statement of every block, case and comm clause of f.
func (r *rewriter) insertPoints(f *ast.File) int {
	n := 0
	withPoints := func(list []ast.Stmt) []ast.Stmt {
		out := make([]ast.Stmt, 0, 2*len(list))
		for _, st := range list {
			if _, isDecl := st.(*ast.DeclStmt); !isDecl {
				pos := r.fset.Position(st.Pos())
				out = append(out, &ast.ExprStmt{X: &ast.CallExpr{Fun: r.vrt("Point"), Args: []ast.Expr{str(fmt.Sprintf("%s:%d", filepath.Base(pos.Filename), pos.Line))}}})
				n++
			}
			out = append(out, st)
		}
		return out
	}
	ast.Inspect(f, func(node ast.Node) bool {
		switch b := node.(type) {
		case *ast.BlockStmt:
			// the body of a switch / select holds clauses, not statements
			if len(b.List) > 0 {
				switch b.List[0].(type) {
				case *ast.CaseClause, *ast.CommClause:
					return true
				}
			}
			b.List = withPoints(b.List)
		case *ast.CaseClause:
			b.Body = withPoints(b.Body)
		case *ast.CommClause:
			b.Body = withPoints(b.Body)
		}
		return true
	})
	if n > 0 {
		r.rep.Sites = append(r.rep.Sites, site{Pos: r.file, Kind: fmt.Sprintf("points:%d", n)})
	}
	return n
}

func goList(dir string, targets []string) (map[string]string, []*pkgInfo, error) {
	args := append([]string{"list", "-export", "-deps", "-f", "{{.ImportPath}}\t{{.Export}}\t{{.Dir}}\t{{join .GoFiles \",\"}}"}, targets...)
	cmd := exec.Command("go", args...)
	cmd.Dir = dir
	var stderr bytes.Buffer
	cmd.Stderr = &stderr
	outb, err := cmd.Output()
	if err != nil {
		return nil, nil, fmt.Errorf("%v: %s", err, stderr.String())
	}
	exports := map[string]string{}
	want := map[string]bool{}
	for _, t := range targets {
		want[t] = true
	}
	var pkgs []*pkgInfo
	sc := bufio.NewScanner(bytes.NewReader(outb))
	sc.Buffer(make([]byte, 1<<20), 1<<26)
	for sc.Scan() {
		f := strings.Split(sc.Text(), "\t")
		if len(f) < 4 {
			continue
		}
		exports[f[0]] = f[1]
		if want[f[0]] {
			pkgs = append(pkgs, &pkgInfo{ImportPath: f[0], Dir: f[2], GoFiles: strings.Split(f[3], ",")})
		}
	}
	sort.Slice(pkgs, func(i, j int) bool { return pkgs[i].ImportPath < pkgs[j].ImportPath })
	return exports, pkgs, nil
}

type rewriter struct {
	fset    *token.FileSet
	info    *types.Info
	profile string
	rep     *report
	usesVrt bool
	tmp     int
	skip    map[ast.Node]bool // comm statements of selects (handled with their select)
	file    string
}

func (r *rewriter) site(n ast.Node, kind string) string {
	pos := n.Pos()
	if ix, ok := n.(*ast.IndexExpr); ok {
		pos = ix.Lbrack // the operand may already have been replaced by a synthetic node without position
	}
	if call, ok := n.(*ast.CallExpr); ok && call.Lparen.IsValid() {
		pos = call.Lparen
	}
	p := r.fset.Position(pos)
	s := fmt.Sprintf("%s:%d", filepath.Base(p.Filename), p.Line)
	r.rep.Sites = append(r.rep.Sites, site{Pos: fmt.Sprintf("%s:%d", p.Filename, p.Line), Kind: kind})
	return s
}

func (r *rewriter) fresh(prefix string) *ast.Ident {
	r.tmp++
	return ast.NewIdent(fmt.Sprintf("__%s%d", prefix, r.tmp))
}

func (r *rewriter) vrt(name string) ast.Expr {
	r.usesVrt = true
	return &ast.SelectorExpr{X: ast.NewIdent("vrt"), Sel: ast.NewIdent(name)}
}

func str(s string) ast.Expr { return &ast.BasicLit{Kind: token.STRING, Value: fmt.Sprintf("%q", s)} }

func (r *rewriter) typeOf(e ast.Expr) types.Type {
	if tv, ok := r.info.Types[e]; ok {
		return tv.Type
	}
	return nil
}

func isChan(t types.Type) bool {
	if t == nil {
		return false
	}
	_, ok := t.Underlying().(*types.Chan)
	return ok
}

func isMap(t types.Type) bool {
	if t == nil {
		return false
	}
	_, ok := t.Underlying().(*types.Map)
	return ok
}

func (r *rewriter) isBuiltin(fun ast.Expr, name string) bool {
	id, ok := fun.(*ast.Ident)
	if !ok || id.Name != name {
		return false
	}
	_, isB := r.info.Uses[id].(*types.Builtin)
	return isB
}

func (r *rewriter) isPkgFunc(fun ast.Expr, pkg, name string) bool {
	sel, ok := fun.(*ast.SelectorExpr)
	if !ok || sel.Sel.Name != name {
		return false
	}
	id, ok := sel.X.(*ast.Ident)
	if !ok {
		return false
	}
	pn, ok := r.info.Uses[id].(*types.PkgName)
	return ok && pn.Imported().Path() == pkg
}

func rewritePackage(p *pkgInfo, exports map[string]string, out, profile string, drop map[string]bool, rep *report) error {
	fset := token.NewFileSet()
	imp := importer.ForCompiler(fset, "gc", func(path string) (io.ReadCloser, error) {
		e := exports[path]
		if e == "" {
			return nil, fmt.Errorf("no export data for %s", path)
		}
		return os.Open(e)
	})
	var files []*ast.File
	for _, f := range p.GoFiles {
		a, err := parser.ParseFile(fset, filepath.Join(p.Dir, f), nil, parser.ParseComments)
		if err != nil {
			return err
		}
		files = append(files, a)
	}
	info := &types.Info{Types: map[ast.Expr]types.TypeAndValue{}, Uses: map[*ast.Ident]types.Object{}, Defs: map[*ast.Ident]types.Object{}, Implicits: map[ast.Node]types.Object{}}
	conf := types.Config{Importer: imp}
	if _, err := conf.Check(p.ImportPath, fset, files, info); err != nil {
		return fmt.Errorf("type check: %v", err)
	}
	for i, f := range files {
		if p.only != nil && !p.only.MatchString(p.GoFiles[i]) {
			continue
		}
		r := &rewriter{fset: fset, info: info, profile: profile, rep: rep, skip: map[ast.Node]bool{}, file: p.GoFiles[i]}
		before := len(rep.Sites)
		r.dropBodies(f, drop)
		if profile == "consensus" && pointsRe != nil && pointsRe.MatchString(filepath.Join(p.Dir, p.GoFiles[i])) {
			r.insertPoints(f)
		}
		r.rewriteFile(f)
		changed := len(rep.Sites) > before || r.usesVrt
		if profile == "sched" {
			if r.substImports(f) {
				changed = true
			}
		}
		if !changed {
			continue
		}
		if r.usesVrt {
			astutil.AddNamedImport(fset, f, "vrt", vrtPath)
		}
		r.pruneImports(f)
		f.Comments = nil
		var buf bytes.Buffer
		buf.WriteString("//go:build verif\n\n// Code generated by verif/harness/cmd/instr from " + filepath.Join(p.Dir, p.GoFiles[i]) + "; DO NOT EDIT.\n\n")
		var body bytes.Buffer
		if err := format.Node(&body, token.NewFileSet(), f); err != nil {
			return fmt.Errorf("%s: print: %v", p.GoFiles[i], err)
		}
		buf.Write(body.Bytes())
		rel := strings.ReplaceAll(strings.TrimPrefix(p.ImportPath, "/"), "/", "_")
		dst := filepath.Join(out, rel, p.GoFiles[i])
		if err := os.MkdirAll(filepath.Dir(dst), 0o755); err != nil {
			return err
		}
		if err := os.WriteFile(dst, buf.Bytes(), 0o644); err != nil {
			return err
		}
		rep.Overlay[filepath.Join(p.Dir, p.GoFiles[i])] = dst
	}
	return nil
}

func (r *rewriter) dropBodies(f *ast.File, drop map[string]bool) {
	for _, d := range f.Decls {
		fd, ok := d.(*ast.FuncDecl)
		if !ok || fd.Body == nil {
			continue
		}
		name := fd.Name.Name
		if fd.Recv != nil && len(fd.Recv.List) == 1 {
			t := fd.Recv.List[0].Type
			if s, ok := t.(*ast.StarExpr); ok {
				t = s.X
			}
			if id, ok := t.(*ast.Ident); ok {
				name = id.Name + "." + name
			}
		}
		if drop[name] {
			fd.Body = &ast.BlockStmt{List: []ast.Stmt{&ast.ExprStmt{X: &ast.CallExpr{Fun: ast.NewIdent("panic"), Args: []ast.Expr{str("verif: " + name + " is not instrumented")}}}}}
			r.rep.Skipped = append(r.rep.Skipped, site{Pos: r.fset.Position(fd.Pos()).String(), Kind: "dropped body of " + name})
			r.usesVrt = r.usesVrt || false
			// mark file as changed
			r.rep.Sites = append(r.rep.Sites, site{Pos: r.fset.Position(fd.Pos()).String(), Kind: "drop"})
		}
	}
}

func (r *rewriter) substImports(f *ast.File) bool {
	changed := false
	for _, is := range f.Imports {
		path := strings.Trim(is.Path.Value, `"`)
		if sub, ok := schedImportSubst[path]; ok {
			if is.Name == nil {
				is.Name = ast.NewIdent(sub[1])
			}
			is.Path.Value = fmt.Sprintf("%q", sub[0])
			changed = true
		}
	}
	return changed
}

// pruneImports turns imports that lost all their uses (dropped bodies, rewritten calls) into blank imports.
func (r *rewriter) pruneImports(f *ast.File) {
	used := map[string]bool{}
	ast.Inspect(f, func(n ast.Node) bool {
		if sel, ok := n.(*ast.SelectorExpr); ok {
			if id, ok := sel.X.(*ast.Ident); ok {
				used[id.Name] = true
			}
		}
		return true
	})
	for _, is := range f.Imports {
		var name string
		if is.Name != nil {
			name = is.Name.Name
		} else if pn, ok := r.info.Implicits[is].(*types.PkgName); ok {
			name = pn.Name()
		} else {
			path := strings.Trim(is.Path.Value, `"`)
			name = path[strings.LastIndex(path, "/")+1:]
		}
		if name == "_" || name == "." {
			continue
		}
		if !used[name] {
			is.Name = ast.NewIdent("_")
		}
	}
}

func (r *rewriter) rewriteFile(f *ast.File) {
	pre := func(c *astutil.Cursor) bool {
		if s, ok := c.Node().(*ast.SelectStmt); ok && r.profile == "sched" {
			for _, cl := range s.Body.List {
				cc := cl.(*ast.CommClause)
				if cc.Comm != nil {
					r.skip[cc.Comm] = true
					switch st := cc.Comm.(type) {
					case *ast.ExprStmt:
						r.skip[st.X] = true
					case *ast.AssignStmt:
						r.skip[st.Rhs[0]] = true
					}
				}
			}
		}
		return true
	}
	post := func(c *astutil.Cursor) bool {
		n := c.Node()
		if n == nil || r.skip[n] {
			return true
		}
		if r.profile == "sched" {
			r.postSched(c)
		} else {
			r.postConsensus(c)
		}
		return true
	}
	astutil.Apply(f, pre, post)
}

// ------------------------------------------------------------------------------------------------------------------
// profile "sched"
// ------------------------------------------------------------------------------------------------------------------

func (r *rewriter) postSched(c *astutil.Cursor) {
	switch n := c.Node().(type) {
	case *ast.ChanType:
		// make(chan T, n) is handled at the call
		if call, ok := c.Parent().(*ast.CallExpr); ok && r.isBuiltin(call.Fun, "make") && len(call.Args) > 0 && call.Args[0] == n {
			return
		}
		r.usesVrt = true
		c.Replace(&ast.StarExpr{X: &ast.IndexExpr{X: r.vrt("Chan"), Index: n.Value}})
	case *ast.CallExpr:
		switch {
		case r.isBuiltin(n.Fun, "make") && len(n.Args) > 0:
			if ct, ok := n.Args[0].(*ast.ChanType); ok {
				size := ast.Expr(&ast.BasicLit{Kind: token.INT, Value: "0"})
				if len(n.Args) > 1 {
					size = n.Args[1]
				}
				c.Replace(&ast.CallExpr{Fun: &ast.IndexExpr{X: r.vrt("MakeChan"), Index: ct.Value}, Args: []ast.Expr{str(r.site(n, "make-chan")), size}})
			} else if isChan(r.typeOf(n.Args[0])) {
				r.rep.Skipped = append(r.rep.Skipped, site{Pos: r.fset.Position(n.Pos()).String(), Kind: "make of named chan type"})
			}
		case r.isPkgFunc(n.Fun, "github.com/ethereum/go-ethereum/rpc", "NewID") && len(n.Args) == 0:
			// random subscription ids would make map iteration order (sorted by key) differ between replays of one schedule
			sel := n.Fun.(*ast.SelectorExpr)
			c.Replace(&ast.CallExpr{Fun: &ast.SelectorExpr{X: sel.X, Sel: ast.NewIdent("ID")},
				Args: []ast.Expr{&ast.CallExpr{Fun: r.vrt("NextID"), Args: []ast.Expr{str(r.site(n, "rpc.NewID"))}}}})
		case r.isBuiltin(n.Fun, "delete") && len(n.Args) == 2 && isMap(r.typeOf(n.Args[0])):
			n.Args[0] = &ast.CallExpr{Fun: r.vrt("MapW"), Args: []ast.Expr{str(r.site(n, "map-delete")), n.Args[0]}}
		case r.isBuiltin(n.Fun, "len") && len(n.Args) == 1 && isMap(r.typeOf(n.Args[0])):
			n.Args[0] = &ast.CallExpr{Fun: r.vrt("MapR"), Args: []ast.Expr{str(r.site(n, "map-len")), n.Args[0]}}
		case r.isBuiltin(n.Fun, "close") && len(n.Args) == 1:
			c.Replace(&ast.CallExpr{Fun: r.vrt("Close"), Args: []ast.Expr{str(r.site(n, "close")), n.Args[0]}})
		case (r.isBuiltin(n.Fun, "len") || r.isBuiltin(n.Fun, "cap")) && len(n.Args) == 1 && isChan(r.typeOf(n.Args[0])):
			c.Replace(&ast.CallExpr{Fun: r.vrt("Len"), Args: []ast.Expr{n.Args[0]}})
		}
	case *ast.IndexExpr:
		if !isMap(r.typeOf(n.X)) {
			return
		}
		write := false
		switch p := c.Parent().(type) {
		case *ast.AssignStmt:
			for _, l := range p.Lhs {
				if l == n {
					write = true
				}
			}
		case *ast.IncDecStmt:
			write = p.X == n
		}
		if write {
			n.X = &ast.CallExpr{Fun: r.vrt("MapW"), Args: []ast.Expr{str(r.site(n, "map-write")), n.X}}
		} else {
			n.X = &ast.CallExpr{Fun: r.vrt("MapR"), Args: []ast.Expr{str(r.site(n, "map-read")), n.X}}
		}
	case *ast.SendStmt:
		c.Replace(&ast.ExprStmt{X: &ast.CallExpr{Fun: r.vrt("Send"), Args: []ast.Expr{str(r.site(n, "send")), n.Chan, n.Value}}})
	case *ast.UnaryExpr:
		if n.Op != token.ARROW {
			return
		}
		fn := "Recv"
		switch p := c.Parent().(type) {
		case *ast.AssignStmt:
			if len(p.Lhs) == 2 && len(p.Rhs) == 1 && p.Rhs[0] == n {
				fn = "Recv2"
			}
		case *ast.ValueSpec:
			if len(p.Names) == 2 && len(p.Values) == 1 && p.Values[0] == n {
				fn = "Recv2"
			}
		}
		c.Replace(&ast.CallExpr{Fun: r.vrt(fn), Args: []ast.Expr{str(r.site(n, "recv")), n.X}})
	case *ast.GoStmt:
		c.Replace(r.goStmt(n))
	case *ast.SelectStmt:
		r.replaceMaybeLabeled(c, r.selectStmt(n))
	case *ast.RangeStmt:
		t := r.typeOf(n.X)
		switch {
		case isChan(t):
			r.replaceMaybeLabeled(c, r.rangeChan(n))
		case isMap(t):
			if st := r.rangeMap(n); st != nil {
				r.replaceMaybeLabeled(c, st)
			}
		}
	}
}

// replaceMaybeLabeled replaces the statement at the cursor by pre-statements + a final statement; when the
// original statement carries a label the label has to stay on the final (for / switch) statement.
func (r *rewriter) replaceMaybeLabeled(c *astutil.Cursor, stmts []ast.Stmt) {
	if ls, ok := c.Parent().(*ast.LabeledStmt); ok {
		// parent is `L: <stmt>`; turn into `{ pre...; L: final }` by replacing the labeled statement later:
		// astutil cannot replace the parent from here, so mutate it in place.
		last := stmts[len(stmts)-1]
		inner := &ast.LabeledStmt{Label: ls.Label, Stmt: last}
		block := &ast.BlockStmt{List: append(append([]ast.Stmt{}, stmts[:len(stmts)-1]...), inner)}
		// the parent LabeledStmt becomes an unlabeled wrapper: Go has no such node, so give it a fresh unused label-free form:
		// replace ls.Stmt by the block and rename ls.Label to a fresh label that nobody references, then reference it once.
		fresh := r.fresh("L")
		ls.Label = fresh
		ls.Stmt = &ast.BlockStmt{List: []ast.Stmt{block, &ast.IfStmt{Cond: ast.NewIdent("false"), Body: &ast.BlockStmt{List: []ast.Stmt{&ast.BranchStmt{Tok: token.GOTO, Label: fresh}}}}}}
		return
	}
	c.Replace(&ast.BlockStmt{List: stmts})
}

func (r *rewriter) goStmt(n *ast.GoStmt) ast.Stmt {
	var pre []ast.Stmt
	call := *n.Call
	var args []ast.Expr
	for _, a := range n.Call.Args {
		id := r.fresh("a")
		pre = append(pre, &ast.AssignStmt{Lhs: []ast.Expr{id}, Tok: token.DEFINE, Rhs: []ast.Expr{a}})
		args = append(args, id)
	}
	call.Args = args
	name := "go"
	switch f := n.Call.Fun.(type) {
	case *ast.SelectorExpr:
		name = f.Sel.Name
	case *ast.Ident:
		name = f.Name
	case *ast.FuncLit:
		name = "func"
	}
	label := name + "@" + r.site(n, "go")
	spawn := &ast.ExprStmt{X: &ast.CallExpr{Fun: r.vrt("Go"), Args: []ast.Expr{str(label),
		&ast.FuncLit{Type: &ast.FuncType{Params: &ast.FieldList{}}, Body: &ast.BlockStmt{List: []ast.Stmt{&ast.ExprStmt{X: &call}}}}}}}
	return &ast.BlockStmt{List: append(pre, spawn)}
}

func (r *rewriter) selectStmt(n *ast.SelectStmt) []ast.Stmt {
	s := r.site(n, "select")
	var pre []ast.Stmt
	var caseVars []ast.Expr
	var clauses []ast.Stmt
	hasDefault := false
	idx := 0
	for _, cl := range n.Body.List {
		cc := cl.(*ast.CommClause)
		if cc.Comm == nil {
			hasDefault = true
			clauses = append(clauses, &ast.CaseClause{List: []ast.Expr{&ast.UnaryExpr{Op: token.SUB, X: &ast.BasicLit{Kind: token.INT, Value: "1"}}}, Body: cc.Body})
			continue
		}
		cv := r.fresh("c")
		chv := r.fresh("ch")
		var body []ast.Stmt
		switch st := cc.Comm.(type) {
		case *ast.SendStmt:
			pre = append(pre, &ast.AssignStmt{Lhs: []ast.Expr{chv}, Tok: token.DEFINE, Rhs: []ast.Expr{st.Chan}})
			pre = append(pre, &ast.AssignStmt{Lhs: []ast.Expr{cv}, Tok: token.DEFINE, Rhs: []ast.Expr{&ast.CallExpr{Fun: r.vrt("SendCase"), Args: []ast.Expr{chv, st.Value}}}})
		case *ast.ExprStmt:
			u := st.X.(*ast.UnaryExpr)
			pre = append(pre, &ast.AssignStmt{Lhs: []ast.Expr{chv}, Tok: token.DEFINE, Rhs: []ast.Expr{u.X}})
			pre = append(pre, &ast.AssignStmt{Lhs: []ast.Expr{cv}, Tok: token.DEFINE, Rhs: []ast.Expr{&ast.CallExpr{Fun: r.vrt("RecvCase"), Args: []ast.Expr{chv}}}})
		case *ast.AssignStmt:
			u := st.Rhs[0].(*ast.UnaryExpr)
			pre = append(pre, &ast.AssignStmt{Lhs: []ast.Expr{chv}, Tok: token.DEFINE, Rhs: []ast.Expr{u.X}})
			pre = append(pre, &ast.AssignStmt{Lhs: []ast.Expr{cv}, Tok: token.DEFINE, Rhs: []ast.Expr{&ast.CallExpr{Fun: r.vrt("RecvCase"), Args: []ast.Expr{chv}}}})
			rhs := []ast.Expr{&ast.CallExpr{Fun: r.vrt("ValOf"), Args: []ast.Expr{cv, chv}}}
			if len(st.Lhs) == 2 {
				rhs = append(rhs, &ast.CallExpr{Fun: &ast.SelectorExpr{X: cv, Sel: ast.NewIdent("Ok")}})
			}
			body = append(body, &ast.AssignStmt{Lhs: st.Lhs, Tok: st.Tok, Rhs: rhs})
		}
		caseVars = append(caseVars, cv)
		clauses = append(clauses, &ast.CaseClause{List: []ast.Expr{&ast.BasicLit{Kind: token.INT, Value: fmt.Sprint(idx)}}, Body: append(body, cc.Body...)})
		idx++
	}
	hd := "false"
	if hasDefault {
		hd = "true"
	}
	args := append([]ast.Expr{str(s), ast.NewIdent(hd)}, caseVars...)
	sw := &ast.SwitchStmt{Tag: &ast.CallExpr{Fun: r.vrt("Select"), Args: args}, Body: &ast.BlockStmt{List: clauses}}
	return append(pre, sw)
}

func (r *rewriter) rangeChan(n *ast.RangeStmt) []ast.Stmt {
	okv := r.fresh("ok")
	key := ast.Expr(ast.NewIdent("_"))
	if n.Key != nil {
		key = n.Key
	}
	tok := token.DEFINE
	var pre []ast.Stmt
	if n.Tok == token.ASSIGN {
		tok = token.ASSIGN
		pre = append(pre, &ast.DeclStmt{Decl: &ast.GenDecl{Tok: token.VAR, Specs: []ast.Spec{&ast.ValueSpec{Names: []*ast.Ident{okv}, Type: ast.NewIdent("bool")}}}})
	}
	recv := &ast.AssignStmt{Lhs: []ast.Expr{key, okv}, Tok: tok, Rhs: []ast.Expr{&ast.CallExpr{Fun: r.vrt("Recv2"), Args: []ast.Expr{str(r.site(n, "range-chan")), n.X}}}}
	brk := &ast.IfStmt{Cond: &ast.UnaryExpr{Op: token.NOT, X: okv}, Body: &ast.BlockStmt{List: []ast.Stmt{&ast.BranchStmt{Tok: token.BREAK}}}}
	body := append([]ast.Stmt{recv, brk}, n.Body.List...)
	return append(pre, &ast.ForStmt{Body: &ast.BlockStmt{List: body}})
}

// rangeMap: for k, v := range m  ->  __m := m; for _, __k := range vrt.Keys(site, __m) { v, __ok := __m[__k]; if !__ok {continue}; k := __k; ... }
// (entries removed during the iteration are not produced, entries added are not visited: both allowed by the spec, so every
// instrumented execution is a legal execution of the original program).
func (r *rewriter) rangeMap(n *ast.RangeStmt) []ast.Stmt {
	if n.Key == nil && n.Value == nil {
		return nil
	}
	mv := r.fresh("m")
	kv := r.fresh("k")
	okv := r.fresh("ok")
	pre := []ast.Stmt{&ast.AssignStmt{Lhs: []ast.Expr{mv}, Tok: token.DEFINE, Rhs: []ast.Expr{n.X}}}
	var body []ast.Stmt
	val := ast.Expr(ast.NewIdent("_"))
	if n.Value != nil {
		val = n.Value
	}
	isBlank := func(e ast.Expr) bool {
		id, ok := e.(*ast.Ident)
		return e == nil || (ok && id.Name == "_")
	}
	var elemMap ast.Expr = mv
	if r.profile == "sched" {
		elemMap = &ast.CallExpr{Fun: r.vrt("MapR"), Args: []ast.Expr{str(r.site(n, "map-range-elem")), mv}}
	}
	if n.Tok == token.ASSIGN {
		pre = append(pre, &ast.DeclStmt{Decl: &ast.GenDecl{Tok: token.VAR, Specs: []ast.Spec{&ast.ValueSpec{Names: []*ast.Ident{okv}, Type: ast.NewIdent("bool")}}}})
		body = append(body, &ast.AssignStmt{Lhs: []ast.Expr{val, okv}, Tok: token.ASSIGN, Rhs: []ast.Expr{&ast.IndexExpr{X: elemMap, Index: kv}}})
	} else {
		body = append(body, &ast.AssignStmt{Lhs: []ast.Expr{val, okv}, Tok: token.DEFINE, Rhs: []ast.Expr{&ast.IndexExpr{X: elemMap, Index: kv}}})
	}
	body = append(body, &ast.IfStmt{Cond: &ast.UnaryExpr{Op: token.NOT, X: okv}, Body: &ast.BlockStmt{List: []ast.Stmt{&ast.BranchStmt{Tok: token.CONTINUE}}}})
	if !isBlank(n.Key) {
		body = append(body, &ast.AssignStmt{Lhs: []ast.Expr{n.Key}, Tok: n.Tok, Rhs: []ast.Expr{kv}})
	}
	body = append(body, n.Body.List...)
	loop := &ast.RangeStmt{Key: ast.NewIdent("_"), Value: kv, Tok: token.DEFINE,
		X:    &ast.CallExpr{Fun: r.vrt("Keys"), Args: []ast.Expr{str(r.site(n, "range-map")), mv}},
		Body: &ast.BlockStmt{List: body}}
	return append(pre, loop)
}

// ------------------------------------------------------------------------------------------------------------------
// profile "consensus"
// ------------------------------------------------------------------------------------------------------------------

func (r *rewriter) postConsensus(c *astutil.Cursor) {
	switch n := c.Node().(type) {
	case *ast.RangeStmt:
		if isMap(r.typeOf(n.X)) {
			if st := r.rangeMap(n); st != nil {
				r.replaceMaybeLabeled(c, st)
			}
		}
	case *ast.CallExpr:
		for _, fn := range []string{"Now", "Since", "Until"} {
			if r.isPkgFunc(n.Fun, "time", fn) {
				args := append([]ast.Expr{str(r.site(n, "time."+fn))}, n.Args...)
				c.Replace(&ast.CallExpr{Fun: r.vrt("Env" + fn), Args: args})
				return
			}
		}
	case *ast.GoStmt:
		c.Replace(&ast.BlockStmt{List: []ast.Stmt{
			&ast.ExprStmt{X: &ast.CallExpr{Fun: r.vrt("Spawned"), Args: []ast.Expr{str(r.site(n, "go"))}}},
			n,
		}})
	}
}
