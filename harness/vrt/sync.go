package vrt

import (
	"fmt"
	"sync"
)

type muCore struct {
	locked bool
	clock  vclock
	real   sync.Mutex
}

type rwCore struct {
	writer         bool
	writersWaiting int
	readers        int
	wclock, rclock vclock
	real           sync.RWMutex
}

type wgCore struct {
	n     int
	clock vclock
	real  sync.WaitGroup
}

// Mutex replaces sync.Mutex (zero value ready to use).
type Mutex struct{ c muCore }

func (m *Mutex) Lock() {
	if Free || S == nil {
		m.c.real.Lock()
		return
	}
	S.at(&op{kind: opLock, mu: &m.c, site: site(m)})
}

func (m *Mutex) Unlock() {
	if Free || S == nil {
		m.c.real.Unlock()
		return
	}
	S.at(&op{kind: opUnlock, mu: &m.c, site: site(m)})
}

func (m *Mutex) TryLock() bool {
	if Free || S == nil {
		return m.c.real.TryLock()
	}
	Yield("trylock")
	if m.c.locked {
		return false
	}
	m.c.locked = true
	return true
}

// RWMutex replaces sync.RWMutex; it models Go's writer preference (a waiting writer blocks new readers).
type RWMutex struct{ c rwCore }

func (m *RWMutex) Lock() {
	if Free || S == nil {
		m.c.real.Lock()
		return
	}
	S.at(&op{kind: opWAnnounce, rw: &m.c, site: site(m)})
	S.at(&op{kind: opWAcquire, rw: &m.c, site: site(m)})
}

func (m *RWMutex) Unlock() {
	if Free || S == nil {
		m.c.real.Unlock()
		return
	}
	S.at(&op{kind: opWUnlock, rw: &m.c, site: site(m)})
}

func (m *RWMutex) RLock() {
	if Free || S == nil {
		m.c.real.RLock()
		return
	}
	S.at(&op{kind: opRLock, rw: &m.c, site: site(m)})
}

func (m *RWMutex) RUnlock() {
	if Free || S == nil {
		m.c.real.RUnlock()
		return
	}
	S.at(&op{kind: opRUnlock, rw: &m.c, site: site(m)})
}

// WaitGroup replaces sync.WaitGroup.
type WaitGroup struct{ c wgCore }

func (w *WaitGroup) Add(n int) {
	if Free || S == nil {
		w.c.real.Add(n)
		return
	}
	S.at(&op{kind: opWGAdd, wg: &w.c, n: n, site: "wg"})
}
func (w *WaitGroup) Done() { w.Add(-1) }
func (w *WaitGroup) Wait() {
	if Free || S == nil {
		w.c.real.Wait()
		return
	}
	S.at(&op{kind: opWGWait, wg: &w.c, site: "wg"})
}

// Once replaces sync.Once.
type Once struct {
	m    Mutex
	done bool
}

func (o *Once) Do(f func()) {
	o.m.Lock()
	defer o.m.Unlock()
	if !o.done {
		o.done = true
		f()
	}
}

// names for locks: stable per execution (order of first use)
func site(p interface{}) string {
	if S == nil {
		return ""
	}
	if S.lockNames == nil {
		S.lockNames = map[interface{}]string{}
	}
	if n, ok := S.lockNames[p]; ok {
		return n
	}
	n := fmt.Sprintf("mu%d", len(S.lockNames)+1)
	S.lockNames[p] = n
	return n
}
