package vrt

import (
	"fmt"
	"reflect"
	"sort"
	"time"
)

// Hooks of the environment explorer (envx): nil hooks give the deterministic default.
var (
	// MapOrder returns the permutation in which the n sorted keys of a map range at site are visited (nil = sorted order).
	MapOrder func(site string, n int) []int
	// Clock answers a wall-clock read at site (nil = real time.Now).
	Clock func(site string) time.Time
	// OnSpawn is told about goroutines started by instrumented consensus code.
	OnSpawn func(site string)
	// SiteHits counts dynamic hits per instrumented site.
	SiteHits = map[string]int{}
)

// Keys returns the keys of m: sorted by their rendering, then permuted as the environment decides.
func Keys[M ~map[K]V, K comparable, V any](site string, m M) []K {
	keys := make([]K, 0, len(m))
	for k := range m {
		keys = append(keys, k)
	}
	rendered := make([]string, len(keys))
	idx := make([]int, len(keys))
	for i, k := range keys {
		rendered[i] = fmt.Sprintf("%v", k)
		idx[i] = i
	}
	sort.Slice(idx, func(a, b int) bool { return rendered[idx[a]] < rendered[idx[b]] })
	sorted := make([]K, len(keys))
	for i, j := range idx {
		sorted[i] = keys[j]
	}
	if S == nil {
		SiteHits[site]++
	} else if !Free {
		S.mapAccess(site, m, false)
	}
	if MapOrder != nil && len(sorted) > 1 {
		if perm := MapOrder(site, len(sorted)); perm != nil {
			out := make([]K, len(sorted))
			for i, p := range perm {
				out[i] = sorted[p]
			}
			return out
		}
	}
	return sorted
}

// EnvNow replaces time.Now in consensus-profile code.
func EnvNow(site string) time.Time {
	SiteHits[site]++
	if Clock != nil {
		return Clock(site)
	}
	return time.Now()
}

func EnvSince(site string, t time.Time) time.Duration { return EnvNow(site).Sub(t) }
func EnvUntil(site string, t time.Time) time.Duration { return t.Sub(EnvNow(site)) }

// Spawned is called right before a go statement of consensus-profile code.
func Spawned(site string) {
	SiteHits[site]++
	if OnSpawn != nil {
		OnSpawn(site)
	}
}

// OnPoint is told about every statement-level point of consensus-profile code (instr -points); the concurrent-request pass
// of C01 uses it to serve a request "on another goroutine" at exactly that place of block execution.
var OnPoint func(site string)

// Point is inserted before every statement of the files selected with instr -points.
func Point(site string) {
	if OnPoint != nil {
		OnPoint(site)
	}
}

// KeysAny is Keys for packages whose language version has no generics (the go-ethereum fork): m is any map,
// the keys come back sorted by their rendering and then permuted as the environment decides.
func KeysAny(site string, m interface{}) []interface{} {
	rv := reflect.ValueOf(m)
	ks := rv.MapKeys()
	rendered := make([]string, len(ks))
	idx := make([]int, len(ks))
	for i, k := range ks {
		rendered[i] = fmt.Sprintf("%v", k.Interface())
		idx[i] = i
	}
	sort.Slice(idx, func(a, b int) bool { return rendered[idx[a]] < rendered[idx[b]] })
	sorted := make([]interface{}, len(ks))
	for i, j := range idx {
		sorted[i] = ks[j].Interface()
	}
	if S == nil {
		SiteHits[site]++
	}
	if MapOrder != nil && len(sorted) > 1 {
		if perm := MapOrder(site, len(sorted)); perm != nil {
			out := make([]interface{}, len(sorted))
			for i, p := range perm {
				out[i] = sorted[p]
			}
			return out
		}
	}
	return sorted
}
