package vrt

import (
	"fmt"
	"testing"
)

// toy replica of the consumeEvents / eventLoop hazard: a consumer looks a channel up under a read lock, releases the
// lock and sends; the loop closes the channel under the write lock.
func toy(fixed bool) func() {
	return func() {
		var mu RWMutex
		chans := map[string]*Chan[int]{}
		topic := MakeChan[int]("topic", 0)
		chans["t"] = topic
		in := MakeChan[int]("in", 1)
		uninstall := MakeChan[int]("uninstall", 0)
		Go("publisher", func() {
			for {
				_, ok := Recv2("pub", topic)
				if !ok {
					return
				}
			}
		})
		Go("consume", func() {
			for {
				v, ok := Recv2("consume-in", in)
				if !ok {
					return
				}
				mu.RLock()
				ch, ok := chans["t"]
				if !fixed {
					mu.RUnlock()
				}
				if !ok {
					if fixed {
						mu.RUnlock()
					}
					continue
				}
				Send("consume-send", ch, v)
				if fixed {
					mu.RUnlock()
				}
			}
		})
		Go("loop", func() {
			Recv("loop-uninstall", uninstall)
			mu.Lock()
			Close("loop-close", chans["t"])
			delete(chans, "t")
			mu.Unlock()
		})
		GoDriver("deliver", func() { Send("deliver", in, 7) })
		GoDriver("unsub", func() { Send("unsub", uninstall, 1) })
	}
}

func TestToy(t *testing.T) {
	for _, fixed := range []bool{false, true} {
		for bound := 0; bound <= 2; bound++ {
			e := &Explorer{Scenario: toy(fixed), Bound: bound, Cfg: Config{FreeSwitchAtBlock: true}}
			e.Run()
			fmt.Printf("fixed=%v bound=%d executions=%d steps=%d failures=%d outcomes=%d diverged=%d\n", fixed, bound, e.Executions, e.Steps, len(e.Failures), len(e.Outcomes), len(e.Diverged))
			for _, f := range e.Failures {
				fmt.Printf("   %s cost=%d count=%d choices=%v\n", failureKey(&f.Failure), f.Cost, f.Count, f.Choices)
			}
			if len(e.Diverged) > 0 {
				t.Fatal(e.Diverged[0])
			}
			if fixed && len(e.Failures) > 0 {
				t.Fatalf("fixed variant fails: %+v", e.Failures[0])
			}
			if !fixed && bound >= 1 && len(e.Failures) == 0 {
				t.Fatalf("hazard not found at bound %d", bound)
			}
			// determinism: replay every failure twice
			for _, f := range e.Failures {
				for i := 0; i < 3; i++ {
					x := e.Exec(f.Choices)
					if x.Failure == nil || failureKey(x.Failure) != failureKey(&f.Failure) {
						t.Fatalf("replay %d differs", i)
					}
				}
			}
		}
	}
}
