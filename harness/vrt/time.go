package vrt

import "time"

// Epoch is the virtual time origin.
var Epoch = time.Date(2030, 1, 1, 0, 0, 0, 0, time.UTC)

type timerCore struct {
	id       int
	deadline int64
	period   int64
	active   bool
	c        *Chan[time.Time]
}

func (tm *timerCore) fire(s *Sched) {
	if len(tm.c.core.buf) < tm.c.core.cap {
		tm.c.core.buf = append(tm.c.core.buf, Epoch.Add(time.Duration(s.now)))
		tm.c.core.bufClock = append(tm.c.core.bufClock, nil)
	}
	if tm.period > 0 {
		tm.deadline += tm.period
	} else {
		tm.active = false
	}
}

// Timer replaces time.Timer / time.Ticker.
type Timer struct {
	C    *Chan[time.Time]
	core *timerCore
	real *time.Timer
}

func newTimer(d time.Duration, period time.Duration) *Timer {
	if Free || S == nil {
		// free mode: a timer that never fires by itself (the race pass does not depend on time)
		return &Timer{C: &Chan[time.Time]{rc: make(chan time.Time, 1)}}
	}
	S.timerSeq++
	c := MakeChan[time.Time]("timer", 1)
	tc := &timerCore{id: S.timerSeq, deadline: S.now + int64(d), period: int64(period), active: true, c: c}
	S.timers = append(S.timers, tc)
	return &Timer{C: c, core: tc}
}

func NewTimer(d time.Duration) *Timer  { return newTimer(d, 0) }
func NewTicker(d time.Duration) *Timer { return newTimer(d, d) }

func (t *Timer) Stop() bool {
	if t.core == nil {
		return false
	}
	was := t.core.active
	t.core.active = false
	return was
}

func (t *Timer) Reset(d time.Duration) bool {
	if t.core == nil {
		return false
	}
	was := t.core.active
	t.core.active = true
	t.core.deadline = S.now + int64(d)
	return was
}

// Sleep replaces time.Sleep.
func Sleep(d time.Duration) {
	if Free || S == nil {
		return
	}
	S.at(&op{kind: opSleep, deadline: S.now + int64(d), site: "sleep " + d.String()})
}

// Now replaces time.Now.
func Now() time.Time {
	if S == nil {
		return Epoch
	}
	return Epoch.Add(time.Duration(S.now))
}
