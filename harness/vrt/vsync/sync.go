// Package sync (verif/harness/vrt/vsync) is substituted for the standard package sync in instrumented files.
package sync

import "verif/harness/vrt"

type (
	Mutex     = vrt.Mutex
	RWMutex   = vrt.RWMutex
	WaitGroup = vrt.WaitGroup
	Once      = vrt.Once
)

// Locker mirrors sync.Locker.
type Locker interface {
	Lock()
	Unlock()
}
