package vrt

import (
	"fmt"
	"reflect"
)

type chanCore struct {
	id         int
	label      string
	cap        int
	buf        []interface{}
	closed     bool
	bufClock   []vclock
	closeClock vclock
}

func (c *chanCore) name() string {
	if c == nil {
		return "nil-chan"
	}
	return fmt.Sprintf("ch%d(%s)", c.id, c.label)
}

// Chan replaces `chan T` (all directions) in instrumented code.
type Chan[T any] struct {
	core *chanCore
	rc   chan T // free mode
}

// MakeChan replaces make(chan T, n).
func MakeChan[T any](site string, n int) *Chan[T] {
	if Free || S == nil {
		return &Chan[T]{rc: make(chan T, n)}
	}
	S.objSeq++
	return &Chan[T]{core: &chanCore{id: S.objSeq, label: site, cap: n}}
}

func coreOf[T any](c *Chan[T]) *chanCore {
	if c == nil {
		return nil
	}
	return c.core
}

func freeMode[T any](c *Chan[T]) bool { return Free || S == nil || (c != nil && c.rc != nil) }

func cast[T any](v interface{}) T {
	if v == nil {
		var z T
		return z
	}
	return v.(T)
}

// Send replaces `c <- v`.
func Send[T any](site string, c *Chan[T], v T) {
	if freeMode(c) {
		if c == nil {
			select {}
		}
		c.rc <- v
		return
	}
	S.at(&op{kind: opSend, ch: coreOf(c), val: v, site: site})
}

// Recv replaces `<-c`.
func Recv[T any](site string, c *Chan[T]) T {
	v, _ := Recv2(site, c)
	return v
}

// Recv2 replaces `v, ok := <-c`.
func Recv2[T any](site string, c *Chan[T]) (T, bool) {
	if freeMode(c) {
		if c == nil {
			select {}
		}
		v, ok := <-c.rc
		return v, ok
	}
	r := S.at(&op{kind: opRecv, ch: coreOf(c), site: site})
	return cast[T](r.val), r.ok
}

// Close replaces close(c).
func Close[T any](site string, c *Chan[T]) {
	if freeMode(c) {
		close(c.rc)
		return
	}
	S.at(&op{kind: opClose, ch: coreOf(c), site: site})
}

// Len replaces len(c).
func Len[T any](c *Chan[T]) int {
	if c == nil {
		return 0
	}
	if c.rc != nil {
		return len(c.rc)
	}
	return len(c.core.buf)
}

// Case is one communication clause of a select.
type Case struct {
	send    bool
	core    *chanCore
	sendVal interface{}
	rcase   reflect.SelectCase // free mode
	free    bool
	val     interface{}
	ok      bool
}

// RecvCase / SendCase build select clauses.
func RecvCase[T any](c *Chan[T]) *Case {
	if freeMode(c) {
		sc := reflect.SelectCase{Dir: reflect.SelectRecv}
		if c != nil {
			sc.Chan = reflect.ValueOf(c.rc)
		} else {
			sc.Chan = reflect.ValueOf((chan T)(nil))
		}
		return &Case{free: true, rcase: sc}
	}
	return &Case{core: coreOf(c)}
}

func SendCase[T any](c *Chan[T], v T) *Case {
	if freeMode(c) {
		sc := reflect.SelectCase{Dir: reflect.SelectSend, Send: reflect.ValueOf(&v).Elem()}
		if c != nil {
			sc.Chan = reflect.ValueOf(c.rc)
		} else {
			sc.Chan = reflect.ValueOf((chan T)(nil))
		}
		return &Case{free: true, send: true, rcase: sc}
	}
	return &Case{send: true, core: coreOf(c), sendVal: v}
}

// Val / Ok give the received value of the chosen receive clause.
func Val[T any](c *Case) T { return cast[T](c.val) }
func ValOf[T any](c *Case, _ *Chan[T]) T {
	return cast[T](c.val)
}
func (c *Case) Ok() bool { return c.ok }

// Select replaces a select statement; it returns the index of the chosen clause (-1 = default).
func Select(site string, hasDefault bool, cases ...*Case) int {
	if len(cases) > 0 && cases[0].free || (len(cases) == 0 && (Free || S == nil)) {
		var rc []reflect.SelectCase
		for _, c := range cases {
			rc = append(rc, c.rcase)
		}
		if hasDefault {
			rc = append(rc, reflect.SelectCase{Dir: reflect.SelectDefault})
		}
		if len(rc) == 0 {
			select {}
		}
		i, v, ok := reflect.Select(rc)
		if hasDefault && i == len(cases) {
			return -1
		}
		if !cases[i].send {
			if v.IsValid() {
				cases[i].val = v.Interface()
			}
			cases[i].ok = ok
		}
		return i
	}
	r := S.at(&op{kind: opSelect, cases: cases, hasDefault: hasDefault, site: site})
	if r.idx >= 0 && !cases[r.idx].send {
		cases[r.idx].val, cases[r.idx].ok = r.val, r.ok
	}
	return r.idx
}
