package vrt

import (
	"fmt"
	"sort"
	"strings"
)

// Explorer enumerates all executions of a scenario whose total deviation cost stays within Bound
// (depth-first over choice prefixes; every execution runs to completion or to the horizon).
type Explorer struct {
	Scenario func() // body of thread 0; builds the system and starts the driver threads
	Cfg      Config
	Bound    int
	// Shard / NShards split the work: subtrees rooted at recursion depth ShardDepth are dealt round-robin.
	Shard, NShards, ShardDepth int
	// MaxExec stops the search (exhaustive=false) after that many executions in this process (0 = unlimited).
	MaxExec int
	// OnExec is called for every completed execution.
	OnExec func(x *Sched, cost int)

	Executions   int64
	Steps        int64
	ByCost       map[int]int64
	Failures     []*FoundFailure
	failureCount map[string]int
	Outcomes     map[string]int64
	Capped       int64
	Stopped      bool // MaxExec hit
	Diverged     []string
	MaxLen       int
	subtree      int
}

// FoundFailure is a failing execution.
type FoundFailure struct {
	Failure Failure
	Choices []int
	Cost    int
	Trace   []string
	Count   int
}

func (e *Explorer) Run() {
	e.ByCost = map[int]int64{}
	e.Outcomes = map[string]int64{}
	e.failureCount = map[string]int{}
	if e.NShards == 0 {
		e.NShards = 1
	}
	e.explore(nil, 0, 0)
	sort.Slice(e.Failures, func(i, j int) bool {
		a, b := e.Failures[i], e.Failures[j]
		if a.Cost != b.Cost {
			return a.Cost < b.Cost
		}
		return len(a.Choices) < len(b.Choices)
	})
}

// Exec runs one execution for the given choice prefix.
func (e *Explorer) Exec(prefix []int) *Sched {
	return Run(prefix, e.Cfg, e.Scenario)
}

func failureKey(f *Failure) string {
	return f.Kind + "|" + stripID(f.Thread) + "|" + f.Msg
}

// OutcomeClass summarises an execution for the histogram of distinct outcomes.
func OutcomeClass(x *Sched) string {
	var parts []string
	if x.Failure != nil {
		parts = append(parts, "FAIL:"+x.Failure.Kind+":"+stripID(x.Failure.Thread))
	}
	if x.Capped {
		parts = append(parts, "capped")
	}
	if len(x.Notes) > 0 {
		n := append([]string{}, x.Notes...)
		sort.Strings(n)
		parts = append(parts, strings.Join(n, ","))
	}
	if len(x.BlockedAtEnd) > 0 {
		parts = append(parts, "blocked:"+strings.Join(x.BlockedAtEnd, ","))
	}
	if len(parts) == 0 {
		return "ok"
	}
	return strings.Join(parts, " | ")
}

func (e *Explorer) explore(prefix []int, cost int, depth int) {
	if e.Stopped {
		return
	}
	mine := true
	if e.NShards > 1 {
		if depth == e.ShardDepth {
			mine = e.subtree%e.NShards == e.Shard
			e.subtree++
			if !mine {
				return
			}
		} else if depth < e.ShardDepth {
			mine = e.Shard == 0 // shallow executions are run by everybody (to find the children) but counted once
		}
	}
	if e.MaxExec > 0 && e.Executions >= int64(e.MaxExec) {
		e.Stopped = true
		return
	}
	x := e.Exec(prefix)
	if x.Diverged != "" {
		e.Diverged = append(e.Diverged, fmt.Sprintf("prefix %v: %s", prefix, x.Diverged))
		return
	}
	if mine {
		e.Executions++
		e.Steps += int64(len(x.Choices))
		e.ByCost[cost]++
		if len(x.Choices) > e.MaxLen {
			e.MaxLen = len(x.Choices)
		}
		if x.Capped {
			e.Capped++
		}
		e.Outcomes[OutcomeClass(x)]++
		if x.Failure != nil {
			k := failureKey(x.Failure)
			e.failureCount[k]++
			var cur *FoundFailure
			for _, f := range e.Failures {
				if failureKey(&f.Failure) == k {
					cur = f
				}
			}
			better := cur == nil || cost < cur.Cost || (cost == cur.Cost && len(x.Choices) < len(cur.Choices))
			if cur == nil {
				cur = &FoundFailure{}
				e.Failures = append(e.Failures, cur)
			}
			cur.Count = e.failureCount[k]
			if better {
				cur.Failure, cur.Cost = *x.Failure, cost
				cur.Choices = append([]int{}, x.Choices...)
				cur.Trace = nil
				for _, s := range x.Trace {
					cur.Trace = append(cur.Trace, s.String())
				}
			}
		}
		if e.OnExec != nil {
			e.OnExec(x, cost)
		}
	}
	for i := len(prefix); i < len(x.Choices); i++ {
		for alt := 1; alt < x.NOpts[i]; alt++ {
			c := cost + x.Costs[i][alt]
			if c > e.Bound {
				continue
			}
			child := make([]int, i+1)
			copy(child, x.Choices[:i])
			child[i] = alt
			e.explore(child, c, depth+1)
		}
	}
}
