// Package time (verif/harness/vrt/vtime) is substituted for the standard package time in schedule-instrumented files:
// clocks, sleeps and timers are virtual and owned by the scheduler; value types are the standard ones.
package time

import (
	stdtime "time"

	"verif/harness/vrt"
)

type (
	Time     = stdtime.Time
	Duration = stdtime.Duration
	Month    = stdtime.Month
	Location = stdtime.Location
	Timer    = vrt.Timer
	Ticker   = vrt.Timer
)

const (
	Nanosecond  = stdtime.Nanosecond
	Microsecond = stdtime.Microsecond
	Millisecond = stdtime.Millisecond
	Second      = stdtime.Second
	Minute      = stdtime.Minute
	Hour        = stdtime.Hour
	RFC3339     = stdtime.RFC3339
)

var UTC = stdtime.UTC

func Now() Time                        { return vrt.Now() }
func Since(t Time) Duration            { return vrt.Now().Sub(t) }
func Until(t Time) Duration            { return t.Sub(vrt.Now()) }
func Sleep(d Duration)                 { vrt.Sleep(d) }
func NewTimer(d Duration) *Timer       { return vrt.NewTimer(d) }
func NewTicker(d Duration) *Ticker     { return vrt.NewTicker(d) }
func After(d Duration) *vrt.Chan[Time] { return vrt.NewTimer(d).C }
func Unix(sec, nsec int64) Time        { return stdtime.Unix(sec, nsec) }
func Date(year int, month Month, day, hour, min, sec, nsec int, loc *Location) Time {
	return stdtime.Date(year, month, day, hour, min, sec, nsec, loc)
}
