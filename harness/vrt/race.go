package vrt

import (
	"fmt"
	"reflect"
)

// Happens-before tracking for the schedule explorer. A cooperative scheduler never runs two threads at once, so an
// unsynchronised access cannot corrupt anything while exploring — but in a real execution two map accesses that are
// not ordered by a lock, a channel operation, a spawn or a WaitGroup can overlap, and the Go runtime kills the process
// ("fatal error: concurrent map read and map write"). Instrumented code reports every map access through MapR / MapW;
// vector clocks maintained at the synchronisation operations decide whether two accesses of one execution are ordered.

type vclock []int

func (c vclock) copy() vclock { return append(vclock{}, c...) }

func (c *vclock) join(o vclock) {
	for i, v := range o {
		for len(*c) <= i {
			*c = append(*c, 0)
		}
		if v > (*c)[i] {
			(*c)[i] = v
		}
	}
}

func (c vclock) at(i int) int {
	if i < len(c) {
		return c[i]
	}
	return 0
}

func (t *Thread) tick() {
	for len(t.clock) <= t.ID {
		t.clock = append(t.clock, 0)
	}
	t.clock[t.ID]++
}

type access struct {
	thread int
	epoch  int
	site   string
	name   string
}

type mapState struct {
	lastWrite *access
	reads     []access
}

func (s *Sched) mapAccess(site string, m interface{}, write bool) {
	if s == nil || s.cur == nil || s.abort {
		return
	}
	v := reflect.ValueOf(m)
	if v.Kind() != reflect.Map || v.IsNil() {
		return
	}
	p := v.Pointer()
	if s.maps == nil {
		s.maps = map[uintptr]*mapState{}
	}
	st := s.maps[p]
	if st == nil {
		st = &mapState{}
		s.maps[p] = st
	}
	t := s.cur
	if len(t.clock) <= t.ID || t.clock[t.ID] == 0 {
		t.tick()
	}
	ordered := func(a *access) bool { return a.thread == t.ID || a.epoch <= t.clock.at(a.thread) }
	report := func(a *access, kind string) {
		if s.Failure == nil {
			s.Failure = &Failure{Kind: "race", Thread: t.Name, Msg: fmt.Sprintf("unsynchronised map access (the Go runtime aborts the process on concurrent map read/write): %s at %s by %s and %s at %s by %s are not ordered by any lock, channel operation or spawn",
				kind, site, stripID(t.Name), a.name, a.site, stripID(s.threads[a.thread].Name))}
		}
	}
	if st.lastWrite != nil && !ordered(st.lastWrite) {
		if write {
			report(st.lastWrite, "write")
		} else {
			report(st.lastWrite, "read")
		}
	}
	if write {
		for i := range st.reads {
			if !ordered(&st.reads[i]) {
				report(&st.reads[i], "write")
			}
		}
		st.lastWrite = &access{thread: t.ID, epoch: t.clock.at(t.ID), site: site, name: "write"}
		st.reads = st.reads[:0]
	} else {
		// keep one read per thread (the latest)
		for i := range st.reads {
			if st.reads[i].thread == t.ID {
				st.reads[i] = access{thread: t.ID, epoch: t.clock.at(t.ID), site: site, name: "read"}
				return
			}
		}
		st.reads = append(st.reads, access{thread: t.ID, epoch: t.clock.at(t.ID), site: site, name: "read"})
	}
}

// MapR / MapW report a read / write of map m and return m (instrumented `m[k]`, `m[k] = v`, delete, len, range).
func MapR[M any](site string, m M) M {
	if S != nil && !Free {
		S.mapAccess(site, m, false)
	}
	return m
}

func MapW[M any](site string, m M) M {
	if S != nil && !Free {
		S.mapAccess(site, m, true)
	}
	return m
}
