// Package client (verif/harness/vrt/vws) replaces CometBFT's jsonrpc websocket client in schedule-instrumented code:
// the same three members the EventSystem uses, backed by a scheduler-visible channel and an in-memory subscription set.
package client

import (
	"context"
	"errors"

	rpctypes "github.com/cometbft/cometbft/rpc/jsonrpc/types"

	"verif/harness/vrt"
)

type WSClient struct {
	ResponsesCh *vrt.Chan[rpctypes.RPCResponse]
	// Subscribed records the queries currently subscribed (count of Subscribe minus Unsubscribe).
	Subscribed map[string]int
	// FailSubscribe makes Subscribe fail for the listed queries.
	FailSubscribe map[string]bool
	Calls         []string
}

func New(buffer int) *WSClient {
	return &WSClient{ResponsesCh: vrt.MakeChan[rpctypes.RPCResponse]("ResponsesCh", buffer), Subscribed: map[string]int{}, FailSubscribe: map[string]bool{}}
}

func (c *WSClient) Subscribe(_ context.Context, query string) error {
	vrt.Yield("ws.Subscribe")
	c.Calls = append(c.Calls, "sub "+query)
	if c.FailSubscribe[query] {
		return errors.New("subscribe refused")
	}
	c.Subscribed[query]++
	return nil
}

func (c *WSClient) Unsubscribe(_ context.Context, query string) error {
	vrt.Yield("ws.Unsubscribe")
	c.Calls = append(c.Calls, "unsub "+query)
	if c.Subscribed[query] == 0 {
		return errors.New("subscription not found")
	}
	c.Subscribed[query]--
	return nil
}

func (c *WSClient) UnsubscribeAll(_ context.Context) error {
	vrt.Yield("ws.UnsubscribeAll")
	c.Subscribed = map[string]int{}
	return nil
}
