//go:build verif

package sched

import (
	"time"

	"cosmossdk.io/log"
	tmjson "github.com/cometbft/cometbft/libs/json"
	coretypes "github.com/cometbft/cometbft/rpc/core/types"
	rpctypes "github.com/cometbft/cometbft/rpc/jsonrpc/types"
	cmttypes "github.com/cometbft/cometbft/types"
	"github.com/cosmos/cosmos-sdk/client"
	"github.com/ethereum/go-ethereum/common"
	ethtypes "github.com/ethereum/go-ethereum/core/types"
	"github.com/ethereum/go-ethereum/rpc"

	"github.com/EscanBE/evermint/v12/rpc/namespaces/ethereum/eth/filters"
	evertypes "github.com/EscanBE/evermint/v12/rpc/types"

	"verif/harness/sched/logalpha"
	"verif/harness/vrt"
	vws "verif/harness/vrt/vws"
)

// stubBackend answers the only Backend method the polling-filter paths use.
type stubBackend struct{}

func (stubBackend) GetBlockByNumber(evertypes.BlockNumber, bool) (map[string]interface{}, error) {
	panic("not driven")
}
func (stubBackend) HeaderByNumber(evertypes.BlockNumber) (*ethtypes.Header, error) { panic("not driven") }
func (stubBackend) HeaderByHash(common.Hash) (*ethtypes.Header, error)            { panic("not driven") }
func (stubBackend) CometBFTBlockByHash(common.Hash) (*coretypes.ResultBlock, error) {
	panic("not driven")
}
func (stubBackend) CometBFTBlockResultByNumber(*int64) (*coretypes.ResultBlockResults, error) {
	panic("not driven")
}
func (stubBackend) GetLogs(common.Hash) ([][]*ethtypes.Log, error)     { panic("not driven") }
func (stubBackend) GetLogsByHeight(*int64) ([][]*ethtypes.Log, error)  { panic("not driven") }
func (stubBackend) BlockBloom(*coretypes.ResultBlockResults) ethtypes.Bloom { panic("not driven") }
func (stubBackend) BloomStatus() (uint64, uint64)                      { return 0, 0 }
func (stubBackend) RPCFilterCap() int32                                { return 2 }
func (stubBackend) RPCLogsCap() int32                                  { return 10 }
func (stubBackend) RPCBlockRangeCap() int32                            { return 10 }

func headerEventJSON() rpctypes.RPCResponse {
	bz, err := tmjson.Marshal(coretypes.ResultEvent{Query: QHeads, Data: cmttypes.EventDataNewBlockHeader{Header: cmttypes.Header{Height: 7, ChainID: "x"}}})
	if err != nil {
		panic(err)
	}
	return rpctypes.RPCResponse{Result: bz}
}

func buildAPI() (*filters.PublicFilterAPI, *vws.WSClient) {
	ws := vws.New(0)
	return filters.NewPublicAPI(log.NewNopLogger(), client.Context{}, ws, stubBackend{}), ws
}

func isErrID(id rpc.ID) bool { return len(id) > 5 && string(id[:5]) == "error" }

// APIScenarios drive the polling-filter half of the JSON-RPC filter API (eth_newBlockFilter, eth_newFilter,
// eth_newPendingTransactionFilter, eth_getFilterChanges, eth_uninstallFilter and the 5-minute timeout loop).
func APIScenarios() []Scenario {
	const tenMin = int64(11 * time.Minute)
	return append([]Scenario{
		{Name: "S7-block-filter-poll-uninstall", Desc: "eth_newBlockFilter, eth_getFilterChanges, eth_uninstallFilter by one client || deliverer pushing 2 new-header events || timeout loop (virtual clock up to 11 min)", MaxTime: tenMin,
			Body: func() {
				api, ws := buildAPI()
				vrt.GoDriver("client", func() {
					id := api.NewBlockFilter()
					if isErrID(id) {
						vrt.Note("client:new-filter-error")
						return
					}
					res, err := api.GetFilterChanges(id)
					if err == nil {
						vrt.Note("client:changes=%d", len(res.([]common.Hash)))
					} else {
						vrt.Note("client:changes-error")
					}
					vrt.Note("client:uninstalled=%v", api.UninstallFilter(id))
				})
				vrt.GoDriver("deliver", func() {
					vrt.Send("deliver", ws.ResponsesCh, headerEventJSON())
					vrt.Send("deliver", ws.ResponsesCh, headerEventJSON())
				})
			}},
		{Name: "S8-pending-tx-filter-uninstall", Desc: "eth_newPendingTransactionFilter then eth_uninstallFilter || deliverer pushing one tx event", MaxTime: tenMin,
			Body: func() {
				api, ws := buildAPI()
				vrt.GoDriver("client", func() {
					id := api.NewPendingTransactionFilter()
					if isErrID(id) {
						vrt.Note("client:new-filter-error")
						return
					}
					vrt.Note("client:uninstalled=%v", api.UninstallFilter(id))
				})
				vrt.GoDriver("deliver", deliverer(ws, QPending))
			}},
		{Name: "S8b-two-pending-tx-filters", Desc: "two eth_newPendingTransactionFilter filters, the first is uninstalled while the second stays || deliverer pushing one tx event", MaxTime: tenMin,
			Body: func() {
				api, ws := buildAPI()
				vrt.GoDriver("client", func() {
					id1 := api.NewPendingTransactionFilter()
					id2 := api.NewPendingTransactionFilter()
					if isErrID(id1) || isErrID(id2) {
						vrt.Note("client:new-filter-error")
						return
					}
					vrt.Note("client:uninstalled=%v", api.UninstallFilter(id1))
				})
				vrt.GoDriver("deliver", deliverer(ws, QPending))
			}},
		{Name: "S9-log-filter-timeout", Desc: "eth_newFilter by a client that never polls (the timeout loop removes the filter after 5 virtual minutes) and a second client that creates and uninstalls a block filter || deliverer pushing a log event and a header event", MaxTime: tenMin,
			Body: func() {
				api, ws := buildAPI()
				vrt.GoDriver("clientA", func() {
					// criteria with a wildcard before a constrained position; the delivered receipt carries logs of 0..4 topics
					id, err := api.NewFilter(logalpha.PatternCriteria("*1", false))
					if err != nil {
						vrt.Note("A:new-filter-error")
						return
					}
					_ = id
				})
				vrt.GoDriver("clientB", func() {
					id := api.NewBlockFilter()
					if isErrID(id) {
						vrt.Note("B:new-filter-error")
						return
					}
					vrt.Note("B:uninstalled=%v", api.UninstallFilter(id))
				})
				vrt.GoDriver("deliver", func() {
					vrt.Send("deliver", ws.ResponsesCh, logEvent())
					vrt.Send("deliver", ws.ResponsesCh, headerEventJSON())
				})
			}},
	}, criteriaScenarios()...)
}

// criteriaScenarios: one closed system per criteria of the scheduler alphabet (SchedCriteriaPatterns): a client installs a log filter
// with that criteria through the real eth_newFilter (whose goroutine runs FilterLogs on every delivered receipt and has no recover),
// the chain delivers one Ethereum tx whose receipt carries logs of every shape (AllShapeLogs), the client polls and uninstalls.
// The virtual clock orders the default schedule (install at 0 s, delivery at 1 s, poll at 2 s) so that the default schedule already
// takes the receipt through the filter goroutine; deviations move the delivery before / into the installation and the poll.
// MaxTime (one virtual minute) is far above every deadline that can arise (delivery <= 1 s after start, the 1 s lag timer of
// consumeEvents, the client's 2 s from whenever its installation completes) — a tighter bound would leave a delayed client asleep
// forever and be reported as a deadlock of the driver — and below the 5 minute filter timeout, which S9 covers.
var cachedAllShapes *rpctypes.RPCResponse // built once per process (the bytes are never modified)

func allShapesEvent() rpctypes.RPCResponse {
	if cachedAllShapes == nil {
		r := logalpha.TxEventResponse(QLogs, 5, logalpha.AllShapeLogs())
		cachedAllShapes = &r
	}
	return *cachedAllShapes
}

func criteriaScenarios() []Scenario {
	var out []Scenario
	patterns, withAddr := logalpha.SchedCriteriaPatterns()
	for k := range patterns {
		crit := logalpha.PatternCriteria(patterns[k], withAddr[k])
		out = append(out, Scenario{Name: logalpha.CriteriaScenarioName(k) + "log-filter-criteria", MaxTime: int64(time.Minute),
			Desc: "eth_newFilter with criteria {" + logalpha.CritString(crit) + "}, eth_getFilterChanges after 2 virtual seconds, eth_uninstallFilter || deliverer pushing after 1 virtual second one Ethereum tx event whose receipt has 62 logs of every shape (0..4 topics, matching / foreign value per position, two contracts)",
			Body: func() {
				api, ws := buildAPI()
				vrt.GoDriver("client", func() {
					id, err := api.NewFilter(crit)
					if err != nil {
						vrt.Note("client:new-filter-error")
						return
					}
					vrt.Sleep(2 * time.Second)
					res, err := api.GetFilterChanges(id)
					if err != nil {
						vrt.Note("client:changes-error")
					} else {
						logs := res.([]*ethtypes.Log)
						vrt.Note("client:changes=%d", len(logs))
						if len(logs) > 0 {
							vrt.Note("client:matched")
							if !logalpha.SameLogList(logs, logalpha.RefFilter(crit, logalpha.AllShapeLogs())) {
								vrt.Note("client:filter-semantics-differ-from-reference") // information (outcome class), not a failure
							}
						}
					}
					vrt.Note("client:uninstalled=%v", api.UninstallFilter(id))
				})
				vrt.GoDriver("deliver", func() {
					vrt.Sleep(time.Second)
					vrt.Send("deliver", ws.ResponsesCh, allShapesEvent())
				})
			}})
	}
	return out
}
