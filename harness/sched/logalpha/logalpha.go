// Package logalpha holds the alphabet of user-supplied log-filter criteria and of delivered log events shared by the scheduler
// scenarios of package sched (instrumented build: tag verif + schedule overlay) and by checks/c20_filters*.go (plain build). It is a
// package of its own, without build tag, because package checks is also compiled with the tag verif and the *consensus* overlay
// (vcheck-i), where the scenario files of package sched do not compile.
package logalpha

import (
	"fmt"
	"math/big"
	"strings"

	abci "github.com/cometbft/cometbft/abci/types"
	tmjson "github.com/cometbft/cometbft/libs/json"
	coretypes "github.com/cometbft/cometbft/rpc/core/types"
	rpctypes "github.com/cometbft/cometbft/rpc/jsonrpc/types"
	cmttypes "github.com/cometbft/cometbft/types"
	codectypes "github.com/cosmos/cosmos-sdk/codec/types"
	sdk "github.com/cosmos/cosmos-sdk/types"
	"github.com/cosmos/gogoproto/proto"
	"github.com/ethereum/go-ethereum/common"
	ethtypes "github.com/ethereum/go-ethereum/core/types"
	ethfilters "github.com/ethereum/go-ethereum/eth/filters"

	evmtypes "github.com/EscanBE/evermint/v12/x/evm/types"
)

// LogAddr returns the i-th contract address of the alphabet (0 = A, 1 = B, 2 = an address no criteria mentions).
func LogAddr(i int) common.Address {
	return common.BytesToAddress([]byte{0xc0, 0xde, byte(0xa0 + i)})
}

// LogTopic returns the i-th topic value of the alphabet.
func LogTopic(i int) common.Hash {
	var h common.Hash
	for j := range h {
		h[j] = byte(0x10*(i+1) + i + 1)
	}
	return h
}

// MkLog builds a log emitted by contract LogAddr(addr) with the given topic values (indices into LogTopic).
func MkLog(addr int, block uint64, index uint, topics ...int) *ethtypes.Log {
	l := &ethtypes.Log{Address: LogAddr(addr), BlockNumber: block, Index: index, Topics: []common.Hash{}, Data: []byte{}}
	for _, t := range topics {
		l.Topics = append(l.Topics, LogTopic(t))
	}
	return l
}

// TxEvent is the event CometBFT publishes for a delivered Ethereum transaction (query tm.event='Tx' AND message.module='evm'):
// EventDataTx whose result data is the TxMsgData of a MsgEthereumTxResponse carrying the marshalled receipt with these logs.
func TxEvent(query string, height int64, logs []*ethtypes.Log) coretypes.ResultEvent {
	receipt := &ethtypes.Receipt{Type: ethtypes.LegacyTxType, Status: ethtypes.ReceiptStatusSuccessful, CumulativeGasUsed: 50_000, Logs: logs}
	receipt.Bloom = ethtypes.CreateBloom(ethtypes.Receipts{receipt})
	bzReceipt, err := receipt.MarshalBinary()
	if err != nil {
		panic(err)
	}
	anyRes, err := codectypes.NewAnyWithValue(&evmtypes.MsgEthereumTxResponse{Hash: common.BytesToHash([]byte{1}).Hex(), GasUsed: 50_000, MarshalledReceipt: bzReceipt})
	if err != nil {
		panic(err)
	}
	bzTxMsgData, err := proto.Marshal(&sdk.TxMsgData{MsgResponses: []*codectypes.Any{anyRes}})
	if err != nil {
		panic(err)
	}
	return coretypes.ResultEvent{
		Query: query,
		Data: cmttypes.EventDataTx{TxResult: abci.TxResult{Height: height, Index: 0, Tx: []byte{1},
			Result: abci.ExecTxResult{Code: 0, Data: bzTxMsgData}}},
		// composite keys as CometBFT builds them (type.attribute)
		Events: map[string][]string{"tm.event": {"Tx"}, "message.module": {"evm"}, "ethereum_tx.ethereumTxHash": {common.BytesToHash([]byte{1}).Hex()}},
	}
}

// TxEventResponse wraps TxEvent the way the CometBFT websocket feed delivers it.
func TxEventResponse(query string, height int64, logs []*ethtypes.Log) rpctypes.RPCResponse {
	bz, err := tmjson.Marshal(TxEvent(query, height, logs))
	if err != nil {
		panic(err)
	}
	return rpctypes.RPCResponse{JSONRPC: "2.0", ID: rpctypes.JSONRPCIntID(0), Result: bz}
}

// RefMatch is the reference predicate of the Ethereum log-filter semantics (go-ethereum eth/filters includes + filterLogs,
// written independently of rpc/namespaces/ethereum/eth/filters/utils.go): a log matches iff it lies in the block range (a nil or
// negative bound is open), the address set is empty or contains the log's address, the criteria has no more positions than the
// log has topics, and at every position the alternatives set is empty (wildcard) or contains the log's topic at that position.
func RefMatch(from, to *big.Int, addresses []common.Address, topics [][]common.Hash, l *ethtypes.Log) bool {
	bn := new(big.Int).SetUint64(l.BlockNumber)
	if from != nil && from.IsInt64() && from.Sign() >= 0 && from.Cmp(bn) > 0 {
		return false
	}
	if to != nil && to.IsInt64() && to.Sign() >= 0 && to.Cmp(bn) < 0 {
		return false
	}
	if len(addresses) > 0 {
		found := false
		for _, a := range addresses {
			found = found || a == l.Address
		}
		if !found {
			return false
		}
	}
	if len(topics) > len(l.Topics) {
		return false
	}
	for i, alts := range topics {
		if len(alts) == 0 {
			continue
		}
		found := false
		for _, t := range alts {
			found = found || t == l.Topics[i]
		}
		if !found {
			return false
		}
	}
	return true
}

// RefMatchLoose is the reading of the criteria in which a trailing wildcard position does not require the log to carry a topic
// there: only constrained positions need i < len(log.Topics). Reported as information next to RefMatch, never as a verdict.
func RefMatchLoose(from, to *big.Int, addresses []common.Address, topics [][]common.Hash, l *ethtypes.Log) bool {
	last := 0
	for i, alts := range topics {
		if len(alts) > 0 {
			last = i + 1
		}
	}
	if last > len(l.Topics) {
		return false
	}
	return RefMatch(from, to, addresses, topics[:last], l)
}

// TopicsCriteria enumerates every topics criteria of at most maxPos positions in which position i is one of the given per-position
// alternatives (index into pos; pos[k] == nil is the wildcard written as null, an empty non-nil slice the wildcard written as []).
// Order: shorter lists first, then lexicographic in the index of the alternative (simplest first).
func TopicsCriteria(maxPos int, pos [][]int) [][][]common.Hash {
	var out [][][]common.Hash
	var rec func(cur [][]common.Hash, n int)
	rec = func(cur [][]common.Hash, n int) {
		if len(cur) == n {
			out = append(out, append([][]common.Hash(nil), cur...))
			return
		}
		for _, alt := range pos {
			var hs []common.Hash
			if alt != nil {
				hs = []common.Hash{}
				for _, t := range alt {
					hs = append(hs, LogTopic(t))
				}
			}
			rec(append(cur, hs), n)
		}
	}
	for n := 0; n <= maxPos; n++ {
		rec(nil, n)
	}
	return out
}

// TopicLists enumerates every list of at most maxLen topic indices over values 0..nVals-1 (the topics of a delivered log).
func TopicLists(maxLen, nVals int) [][]int {
	var out [][]int
	var rec func(cur []int, n int)
	rec = func(cur []int, n int) {
		if len(cur) == n {
			out = append(out, append([]int(nil), cur...))
			return
		}
		for v := 0; v < nVals; v++ {
			rec(append(cur, v), n)
		}
	}
	for n := 0; n <= maxLen; n++ {
		rec(nil, n)
	}
	return out
}

// CritString renders a criteria compactly: addr=[A,B] topics=[null,[T0|T1],[]] from=.. to=..
func CritString(c ethfilters.FilterCriteria) string {
	var sb strings.Builder
	sb.WriteString("addr=[")
	for i, a := range c.Addresses {
		if i > 0 {
			sb.WriteString(",")
		}
		sb.WriteString(addrName(a))
	}
	sb.WriteString("] topics=[")
	for i, alts := range c.Topics {
		if i > 0 {
			sb.WriteString(",")
		}
		switch {
		case alts == nil:
			sb.WriteString("null")
		default:
			sb.WriteString("[")
			for j, t := range alts {
				if j > 0 {
					sb.WriteString("|")
				}
				sb.WriteString(topicName(t))
			}
			sb.WriteString("]")
		}
	}
	sb.WriteString("]")
	if c.FromBlock != nil {
		fmt.Fprintf(&sb, " from=%s", c.FromBlock)
	}
	if c.ToBlock != nil {
		fmt.Fprintf(&sb, " to=%s", c.ToBlock)
	}
	return sb.String()
}

// LogString renders a log compactly: B@5[T0,T2].
func LogString(l *ethtypes.Log) string {
	var ts []string
	for _, t := range l.Topics {
		ts = append(ts, topicName(t))
	}
	return fmt.Sprintf("%s@%d[%s]", addrName(l.Address), l.BlockNumber, strings.Join(ts, ","))
}

func addrName(a common.Address) string {
	for i := 0; i < 8; i++ {
		if a == LogAddr(i) {
			return string(rune('A' + i))
		}
	}
	return a.Hex()
}

func topicName(t common.Hash) string {
	for i := 0; i < 12; i++ {
		if t == LogTopic(i) {
			return fmt.Sprintf("T%d", i)
		}
	}
	return t.Hex()[:10]
}

// ---------------------------------------------------------------------------
// the small alphabet of the scheduler scenarios
// ---------------------------------------------------------------------------

// otherTopic is a topic value no criteria of the scheduler alphabet mentions.
const otherTopic = 9

// AllShapeLogs is the content of the one delivered receipt of the criteria scenarios (S10.*): every list of 0..4 topics in which
// position i carries either the value P_i = LogTopic(i) the criteria alphabet asks for at that position or a foreign value, emitted
// by contract A and by a contract no criteria mentions (62 logs, block 5). FilterLogs walks all of them in one call, so the log
// alphabet does not multiply the schedule space.
func AllShapeLogs() []*ethtypes.Log {
	var out []*ethtypes.Log
	idx := uint(0)
	for n := 0; n <= 4; n++ {
		for m := 0; m < 1<<n; m++ {
			ts := make([]int, n)
			for i := range ts {
				ts[i] = i
				if m&(1<<i) != 0 {
					ts[i] = otherTopic
				}
			}
			for _, a := range []int{0, 2} {
				out = append(out, MkLog(a, 5, idx, ts...))
				idx++
			}
		}
	}
	return out
}

// FewShapeLogs is the receipt delivered on the logs topic in the scenarios that are about the event plumbing (S1..S9, hundreds of
// thousands of schedules each of which decodes the event): for every length 0..4 the list [P_0..P_n-1], the same with a foreign
// value in the first and in the last position, all from contract A, plus the full list from a foreign contract (13 logs).
func FewShapeLogs() []*ethtypes.Log {
	var out []*ethtypes.Log
	idx := uint(0)
	add := func(a int, ts []int) {
		out = append(out, MkLog(a, 5, idx, ts...))
		idx++
	}
	for n := 0; n <= 4; n++ {
		ts := make([]int, n)
		for i := range ts {
			ts[i] = i
		}
		add(0, ts)
		if n >= 1 {
			first := append([]int(nil), ts...)
			first[0] = otherTopic
			add(0, first)
		}
		if n >= 2 {
			last := append([]int(nil), ts...)
			last[n-1] = otherTopic
			add(0, last)
		}
		if n == 4 {
			add(2, ts)
		}
	}
	return out
}

// PatternCriteria builds a criteria from a pattern: one character per position, '*' = wildcard (null), a digit d = [LogTopic(d)],
// 'e' = the wildcard written as an empty list; withAddr restricts the emitting contract to [A].
func PatternCriteria(pattern string, withAddr bool) ethfilters.FilterCriteria {
	var c ethfilters.FilterCriteria
	if withAddr {
		c.Addresses = []common.Address{LogAddr(0)}
	}
	for _, ch := range pattern {
		switch {
		case ch == '*':
			c.Topics = append(c.Topics, nil)
		case ch == 'e':
			c.Topics = append(c.Topics, []common.Hash{})
		case ch >= '0' && ch <= '9':
			c.Topics = append(c.Topics, []common.Hash{LogTopic(int(ch - '0'))})
		default:
			panic("bad criteria pattern " + pattern)
		}
	}
	return c
}

// SchedCriteriaPatterns: addresses {none, [A]} x every topics list of <= 3 positions in which position i is the wildcard or [P_i]
// (15 lists: wildcards before constrained positions, trailing wildcards, all-wildcard lists included). Simplest first.
func SchedCriteriaPatterns() (patterns []string, withAddr []bool) {
	for _, wa := range []bool{false, true} {
		for n := 0; n <= 3; n++ {
			for m := 0; m < 1<<n; m++ {
				p := make([]byte, n)
				for i := range p {
					p[i] = '*'
					if m&(1<<i) != 0 {
						p[i] = byte('0' + i)
					}
				}
				patterns = append(patterns, string(p))
				withAddr = append(withAddr, wa)
			}
		}
	}
	return
}

// CriteriaScenarioName is the name prefix of the scheduler scenario that installs the k-th criteria of SchedCriteriaPatterns.
func CriteriaScenarioName(k int) string { return fmt.Sprintf("S10.%02d-", k) }

// RefFilter applies RefMatch to a list.
func RefFilter(c ethfilters.FilterCriteria, logs []*ethtypes.Log) []*ethtypes.Log {
	var out []*ethtypes.Log
	for _, l := range logs {
		if RefMatch(c.FromBlock, c.ToBlock, c.Addresses, c.Topics, l) {
			out = append(out, l)
		}
	}
	return out
}

// SameLogList compares two log lists by (address, topics): the consensus encoding of a receipt carries nothing else of a log
// (block number and index are zero after the receipt went through MarshalBinary / UnmarshalBinary).
func SameLogList(a, b []*ethtypes.Log) bool {
	if len(a) != len(b) {
		return false
	}
	for i := range a {
		if a[i].Address != b[i].Address || len(a[i].Topics) != len(b[i].Topics) {
			return false
		}
		for j := range a[i].Topics {
			if a[i].Topics[j] != b[i].Topics[j] {
				return false
			}
		}
	}
	return true
}
