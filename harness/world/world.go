// Package world builds deterministic instances of the real evermint application
// (no testing.T, no CometBFT node, fixed keys, fixed header times) and offers the
// block runner and observers every check uses.
package world

import (
	"crypto/ed25519"
	"crypto/sha256"
	"encoding/json"
	"fmt"
	"math/big"
	"sort"
	"strings"
	"time"

	"cosmossdk.io/log"
	sdkmath "cosmossdk.io/math"
	storetypes "cosmossdk.io/store/types"
	abci "github.com/cometbft/cometbft/abci/types"
	cmtproto "github.com/cometbft/cometbft/proto/tendermint/types"
	cmttypes "github.com/cometbft/cometbft/types"
	sdkdb "github.com/cosmos/cosmos-db"
	"github.com/cosmos/cosmos-sdk/baseapp"
	codectypes "github.com/cosmos/cosmos-sdk/codec/types"
	cryptocodec "github.com/cosmos/cosmos-sdk/crypto/codec"
	cosmosed25519 "github.com/cosmos/cosmos-sdk/crypto/keys/ed25519"
	simtestutil "github.com/cosmos/cosmos-sdk/testutil/sims"
	sdk "github.com/cosmos/cosmos-sdk/types"
	authtypes "github.com/cosmos/cosmos-sdk/x/auth/types"
	banktypes "github.com/cosmos/cosmos-sdk/x/bank/types"
	govtypes "github.com/cosmos/cosmos-sdk/x/gov/types"
	govv1types "github.com/cosmos/cosmos-sdk/x/gov/types/v1"
	minttypes "github.com/cosmos/cosmos-sdk/x/mint/types"
	slashingtypes "github.com/cosmos/cosmos-sdk/x/slashing/types"
	stakingtypes "github.com/cosmos/cosmos-sdk/x/staking/types"
	"github.com/ethereum/go-ethereum/common"
	ethtypes "github.com/ethereum/go-ethereum/core/types"
	"github.com/ethereum/go-ethereum/crypto"

	chainapp "github.com/EscanBE/evermint/v12/app"
	"github.com/EscanBE/evermint/v12/app/params"
	"github.com/EscanBE/evermint/v12/constants"
	"github.com/EscanBE/evermint/v12/crypto/ethsecp256k1"
	cpctypes "github.com/EscanBE/evermint/v12/x/cpc/types"
	evmtypes "github.com/EscanBE/evermint/v12/x/evm/types"
	feemarkettypes "github.com/EscanBE/evermint/v12/x/feemarket/types"
)

const (
	ChainID    = constants.TestnetFullChainId
	EvmChainID = constants.TestnetEIP155ChainId
	Denom      = constants.BaseDenom
)

// GenesisTime is the fixed genesis time of every world; block h has time GenesisTime + h hours.
var GenesisTime = time.Date(2030, 1, 1, 0, 0, 0, 0, time.UTC)

// Acct is a key pair with fixed, name-derived private key.
type Acct struct {
	Name string
	Priv *ethsecp256k1.PrivKey
}

func NewAcct(name string) *Acct {
	h := sha256.Sum256([]byte("verif-world-key:" + name))
	return &Acct{Name: name, Priv: &ethsecp256k1.PrivKey{Key: h[:]}}
}

func (a *Acct) Eth() common.Address { return common.BytesToAddress(a.Priv.PubKey().Address().Bytes()) }
func (a *Acct) Acc() sdk.AccAddress { return sdk.AccAddress(a.Priv.PubKey().Address()) }
func (a *Acct) Bech() string        { return a.Acc().String() }
func (a *Acct) Val() sdk.ValAddress { return sdk.ValAddress(a.Priv.PubKey().Address()) }
func (a *Acct) consPriv() *cosmosed25519.PrivKey {
	return &cosmosed25519.PrivKey{Key: ed25519.NewKeyFromSeed(a.Priv.Key)}
}
func (a *Acct) Cons() sdk.ConsAddress { return sdk.ConsAddress(a.consPriv().PubKey().Address()) }

// ExtraAccount is an additional genesis account.
type ExtraAccount struct {
	// Account is the fully built genesis account (base, vesting of any kind, module); its account number is overwritten.
	Account authtypes.GenesisAccount
	Coins   sdk.Coins
}

// Config parameterises a world. The zero value is completed by Defaults().
type Config struct {
	NumValidators int
	NumWallets    int
	MaxGas        int64 // consensus block max gas
	MaxBytes      int64
	BaseFee       *big.Int // nil => 1 gwei
	MinGasPrice   string   // legacy dec, "" => "0"
	DeployErc20   bool
	DeployStaking bool
	WalletBalance *big.Int // per wallet, per denom; nil => 2e18
	ExtraDenoms   []string // nil => utwo, uthree
	Extra         []ExtraAccount
	Inflation     bool // false => mint inflation forced to 0
	// NodeMinGasPrices is the node-local min-gas-prices config (not consensus).
	NodeMinGasPrices string
	// EvmTracer is the node-local tracer option ("" or "json" ...).
	EvmTracer string
	// ExtraAppOpts / ExtraBaseOpts: further node-local configuration (app.toml keys as the server hands them to the app
	// constructor; baseapp options as server.DefaultBaseappOptions derives them from app.toml).
	ExtraAppOpts  map[string]interface{}
	ExtraBaseOpts []func(*baseapp.BaseApp)
	// EvmGenesisMutator allows tweaking the evm genesis (pre-installed contracts).
	EvmGenesis func(gs *evmtypes.GenesisState)
	// CpcWhitelist sets the cpc deployer whitelist at genesis.
	CpcWhitelist []string
	// GenesisMutator is applied last to the whole genesis map.
	GenesisMutator func(cdc params.EncodingConfig, gs chainapp.GenesisState)
	// UnbondingTime overrides staking unbonding time when non-zero.
	UnbondingTime time.Duration
	// Contracts are pre-installed at genesis (auth base account with sequence 1 + evm code/storage).
	Contracts []Contract
	// GenesisTime overrides the package-level GenesisTime for this world when non-zero (block h is at GenesisTime + h hours);
	// lets a check place block time on either side of the wall clock.
	GenesisTime time.Time
}

// Contract is a genesis contract.
type Contract struct {
	Addr    common.Address
	Code    []byte
	Storage map[common.Hash]common.Hash
	Coins   sdk.Coins
}

func (c Config) Defaults() Config {
	if c.NumValidators == 0 {
		c.NumValidators = 3
	}
	if c.NumWallets == 0 {
		c.NumWallets = 4
	}
	if c.MaxGas == 0 {
		c.MaxGas = 40_000_000
	}
	if c.MaxBytes == 0 {
		c.MaxBytes = 200000
	}
	if c.BaseFee == nil {
		c.BaseFee = big.NewInt(1_000_000_000)
	}
	if c.MinGasPrice == "" {
		c.MinGasPrice = "0"
	}
	if c.WalletBalance == nil {
		c.WalletBalance = new(big.Int).Mul(big.NewInt(2), new(big.Int).Exp(big.NewInt(10), big.NewInt(18), nil))
	}
	if c.ExtraDenoms == nil {
		c.ExtraDenoms = []string{"utwo", "uthree"}
	}
	return c
}

// MaxGasZero is the sentinel for "consensus MaxGas = 0" (Config.MaxGas == 0 means default).
const MaxGasZero = int64(-2)

// World is one running application instance.
type World struct {
	Cfg        Config
	App        *chainapp.Evermint
	Enc        params.EncodingConfig
	Validators []*Acct
	Wallets    []*Acct
	EthSigner  ethtypes.Signer
	Height     int64 // height of the last committed block
	LastHash   []byte
	Genesis    []byte
	ConsParams *cmtproto.ConsensusParams
	Keys       map[string]*storetypes.KVStoreKey
}

type appOpts map[string]interface{}

func (a appOpts) Get(k string) interface{} { return a[k] }

func init() {
	// the integration tests of the repository do the same; tests and genesis files of real chains override it
	_ = feemarkettypes.DefaultMinGasPrice
}

// New builds the app and runs InitChain.
func New(cfg Config) *World {
	w, err := NewE(cfg)
	if err != nil {
		panic(err)
	}
	return w
}

func NewE(cfg Config) (w *World, err error) {
	cfg = cfg.Defaults()
	w = &World{Cfg: cfg}
	w.Enc = chainapp.RegisterEncodingConfig()
	for i := 0; i < cfg.NumValidators; i++ {
		w.Validators = append(w.Validators, NewAcct(fmt.Sprintf("val%d", i+1)))
	}
	for i := 0; i < cfg.NumWallets; i++ {
		w.Wallets = append(w.Wallets, NewAcct(fmt.Sprintf("wal%d", i+1)))
	}
	w.EthSigner = ethtypes.LatestSignerForChainID(big.NewInt(EvmChainID))

	opts := appOpts{}
	for k, v := range simtestutil.NewAppOptionsWithFlagHome(chainapp.DefaultNodeHome).(simtestutil.AppOptionsMap) {
		opts[k] = v
	}
	if cfg.EvmTracer != "" {
		opts["evm.tracer"] = cfg.EvmTracer
	}
	for k, v := range cfg.ExtraAppOpts {
		opts[k] = v
	}
	baseOpts := []func(*baseapp.BaseApp){baseapp.SetChainID(ChainID)}
	if cfg.NodeMinGasPrices != "" {
		baseOpts = append(baseOpts, baseapp.SetMinGasPrices(cfg.NodeMinGasPrices))
	}
	baseOpts = append(baseOpts, cfg.ExtraBaseOpts...)
	w.App = chainapp.NewEvermint(log.NewNopLogger(), sdkdb.NewMemDB(), nil, true, map[int64]bool{}, chainapp.DefaultNodeHome, 0, w.Enc, opts, baseOpts...)
	w.Keys = w.App.GetKVStoreKey()

	gs, err := w.buildGenesis()
	if err != nil {
		return nil, err
	}
	if cfg.GenesisMutator != nil {
		cfg.GenesisMutator(w.Enc, gs)
	}
	w.Genesis, err = json.Marshal(gs)
	if err != nil {
		return nil, err
	}
	w.ConsParams = w.consensusParams()
	return w, w.InitChain(w.Genesis)
}

func (w *World) consensusParams() *cmtproto.ConsensusParams {
	cp := cmttypes.DefaultConsensusParams()
	cp.Block.MaxBytes = w.Cfg.MaxBytes
	cp.Block.MaxGas = w.Cfg.MaxGas
	if w.Cfg.MaxGas == MaxGasZero {
		cp.Block.MaxGas = 0
	}
	cp.Validator.PubKeyTypes = []string{cmttypes.ABCIPubKeyTypeEd25519}
	p := cp.ToProto()
	return &p
}

func (w *World) InitChain(appState []byte) (err error) {
	defer func() {
		if r := recover(); r != nil {
			err = fmt.Errorf("InitChain panic: %v", r)
		}
	}()
	_, err = w.App.InitChain(&abci.RequestInitChain{
		Time:            w.GenesisTime(),
		ChainId:         ChainID,
		ConsensusParams: w.ConsParams,
		Validators:      []abci.ValidatorUpdate{},
		AppStateBytes:   appState,
		InitialHeight:   1,
	})
	return err
}

func (w *World) buildGenesis() (chainapp.GenesisState, error) {
	cfg := w.Cfg
	cdc := w.Enc.Codec
	gs := chainapp.ModuleBasics.DefaultGenesis(cdc)

	var accounts []authtypes.GenesisAccount
	var balances []banktypes.Balance
	var signingInfos []slashingtypes.SigningInfo
	walletCoins := sdk.NewCoins(sdk.NewCoin(Denom, sdkmath.NewIntFromBigInt(cfg.WalletBalance)))
	for _, d := range cfg.ExtraDenoms {
		walletCoins = walletCoins.Add(sdk.NewCoin(d, sdkmath.NewIntFromBigInt(cfg.WalletBalance)))
	}
	n := uint64(0)
	for _, a := range append(append([]*Acct{}, w.Validators...), w.Wallets...) {
		accounts = append(accounts, authtypes.NewBaseAccount(a.Acc(), a.Priv.PubKey(), n, 0))
		balances = append(balances, banktypes.Balance{Address: a.Bech(), Coins: walletCoins})
		n++
	}
	for _, x := range cfg.Extra {
		if err := x.Account.SetAccountNumber(n); err != nil {
			return nil, err
		}
		n++
		accounts = append(accounts, x.Account)
		if !x.Coins.IsZero() {
			balances = append(balances, banktypes.Balance{Address: x.Account.GetAddress().String(), Coins: x.Coins})
		}
	}
	var evmAccounts []evmtypes.GenesisAccount
	for _, c := range cfg.Contracts {
		accounts = append(accounts, authtypes.NewBaseAccount(c.Addr.Bytes(), nil, n, 1))
		n++
		if !c.Coins.IsZero() {
			balances = append(balances, banktypes.Balance{Address: sdk.AccAddress(c.Addr.Bytes()).String(), Coins: c.Coins})
		}
		ga := evmtypes.GenesisAccount{Address: c.Addr.Hex(), Code: common.Bytes2Hex(c.Code)}
		var keys []common.Hash
		for k := range c.Storage {
			keys = append(keys, k)
		}
		sort.Slice(keys, func(i, j int) bool { return strings.Compare(keys[i].Hex(), keys[j].Hex()) < 0 })
		for _, k := range keys {
			ga.Storage = append(ga.Storage, evmtypes.NewState(k, c.Storage[k]))
		}
		evmAccounts = append(evmAccounts, ga)
	}
	gs[authtypes.ModuleName] = cdc.MustMarshalJSON(authtypes.NewGenesisState(authtypes.DefaultParams(), accounts))

	bond := sdk.DefaultPowerReduction
	var vals []stakingtypes.Validator
	var dels []stakingtypes.Delegation
	for _, v := range w.Validators {
		pk := v.consPriv().PubKey()
		pkAny, err := codectypes.NewAnyWithValue(pk)
		if err != nil {
			return nil, err
		}
		_ = cryptocodec.ToCmtPubKeyInterface
		vals = append(vals, stakingtypes.Validator{
			OperatorAddress: v.Val().String(), ConsensusPubkey: pkAny, Status: stakingtypes.Bonded,
			Tokens: bond, DelegatorShares: sdkmath.LegacyNewDecFromInt(bond),
			UnbondingTime: time.Unix(0, 0).UTC(), MinSelfDelegation: sdkmath.OneInt(),
			Commission: stakingtypes.NewCommission(sdkmath.LegacyZeroDec(), sdkmath.LegacyZeroDec(), sdkmath.LegacyZeroDec()),
		})
		dels = append(dels, stakingtypes.NewDelegation(v.Bech(), v.Val().String(), sdkmath.LegacyNewDecFromInt(bond)))
		signingInfos = append(signingInfos, slashingtypes.SigningInfo{
			Address:              v.Cons().String(),
			ValidatorSigningInfo: slashingtypes.ValidatorSigningInfo{Address: v.Cons().String()},
		})
	}
	sp := stakingtypes.DefaultParams()
	sp.BondDenom = Denom
	if cfg.UnbondingTime != 0 {
		sp.UnbondingTime = cfg.UnbondingTime
	}
	gs[stakingtypes.ModuleName] = cdc.MustMarshalJSON(stakingtypes.NewGenesisState(sp, vals, dels))
	balances = append(balances, banktypes.Balance{
		Address: authtypes.NewModuleAddress(stakingtypes.BondedPoolName).String(),
		Coins:   sdk.NewCoins(sdk.NewCoin(Denom, bond.MulRaw(int64(len(vals))))),
	})
	total := sdk.NewCoins()
	for _, b := range balances {
		total = total.Add(b.Coins...)
	}
	var meta []banktypes.Metadata
	for i, d := range append([]string{Denom}, cfg.ExtraDenoms...) {
		disp := strings.ToUpper(d[1:])
		exp := uint32(18)
		if i > 0 {
			exp = uint32(4 + 2*i)
		}
		meta = append(meta, banktypes.Metadata{
			Description: d + " metadata",
			DenomUnits:  []*banktypes.DenomUnit{{Denom: d, Exponent: 0}, {Denom: disp, Exponent: exp}},
			Base:        d, Display: disp, Name: disp, Symbol: disp,
		})
	}
	gs[banktypes.ModuleName] = cdc.MustMarshalJSON(banktypes.NewGenesisState(banktypes.DefaultGenesisState().Params, balances, total, meta, []banktypes.SendEnabled{}))

	mgp, err := sdkmath.LegacyNewDecFromStr(cfg.MinGasPrice)
	if err != nil {
		return nil, err
	}
	gs[feemarkettypes.ModuleName] = cdc.MustMarshalJSON(&feemarkettypes.GenesisState{Params: feemarkettypes.Params{BaseFee: sdkmath.NewIntFromBigInt(cfg.BaseFee), MinGasPrice: mgp}})

	eg := evmtypes.DefaultGenesisState()
	eg.Params.EvmDenom = Denom
	eg.Accounts = append(eg.Accounts, evmAccounts...)
	if cfg.EvmGenesis != nil {
		cfg.EvmGenesis(eg)
	}
	gs[evmtypes.ModuleName] = cdc.MustMarshalJSON(eg)

	gg := govv1types.DefaultGenesisState()
	gg.Params.MinDeposit[0].Denom = Denom
	gg.Params.MinDeposit[0].Amount = sdkmath.NewInt(2)
	vp := 30 * time.Minute
	gg.Params.VotingPeriod = &vp
	gs[govtypes.ModuleName] = cdc.MustMarshalJSON(gg)

	mg := minttypes.DefaultGenesisState()
	mg.Params.MintDenom = Denom
	if !cfg.Inflation {
		mg.Minter.Inflation = sdkmath.LegacyZeroDec()
		mg.Params.InflationMin = sdkmath.LegacyZeroDec()
		mg.Params.InflationMax = sdkmath.LegacyZeroDec()
		mg.Params.InflationRateChange = sdkmath.LegacyZeroDec()
	}
	gs[minttypes.ModuleName] = cdc.MustMarshalJSON(mg)

	sg := slashingtypes.DefaultGenesisState()
	sg.SigningInfos = signingInfos
	gs[slashingtypes.ModuleName] = cdc.MustMarshalJSON(sg)

	cg := cpctypes.DefaultGenesis()
	cg.DeployErc20Native = cfg.DeployErc20
	cg.DeployStakingContract = cfg.DeployStaking
	if cfg.CpcWhitelist != nil {
		cg.Params.WhitelistedDeployers = cfg.CpcWhitelist
	}
	gs[cpctypes.ModuleName] = cdc.MustMarshalJSON(cg)
	return gs, nil
}

// BlockTime returns the fixed header time of height h (for worlds with the default genesis time).
func BlockTime(h int64) time.Time { return GenesisTime.Add(time.Duration(h) * time.Hour) }

// GenesisTime of this world.
func (w *World) GenesisTime() time.Time {
	if !w.Cfg.GenesisTime.IsZero() {
		return w.Cfg.GenesisTime
	}
	return GenesisTime
}

// BlockTime returns the fixed header time of height h in this world.
func (w *World) BlockTime(h int64) time.Time { return w.GenesisTime().Add(time.Duration(h) * time.Hour) }

// BlockResult is what one block produced.
type BlockResult struct {
	Height   int64
	Req      *abci.RequestFinalizeBlock
	Res      *abci.ResponseFinalizeBlock
	AppHash  []byte
	Err      error  // error returned by FinalizeBlock / Commit
	Panic    string // escaping panic (would kill a node)
	CommitID storetypes.CommitID
}

// BlockOpt tweaks the next block.
type BlockOpt struct {
	Time     *time.Time
	Proposer int // index into validators
	// Between is called after FinalizeBlock and before Commit.
	Between func()
	NoVotes bool
}

// Finalize runs FinalizeBlock for the next height without committing.
func (w *World) Finalize(txs [][]byte, opt BlockOpt) (br *BlockResult) {
	h := w.Height + 1
	t := w.BlockTime(h)
	if opt.Time != nil {
		t = *opt.Time
	}
	var votes []abci.VoteInfo
	if !opt.NoVotes {
		for _, v := range w.Validators {
			votes = append(votes, abci.VoteInfo{Validator: abci.Validator{Address: v.Cons(), Power: 1}, BlockIdFlag: cmtproto.BlockIDFlagCommit})
		}
	}
	hh := sha256.Sum256([]byte(fmt.Sprintf("block-hash-%d", h)))
	req := &abci.RequestFinalizeBlock{
		Height: h, Txs: txs, Hash: hh[:], Time: t,
		ProposerAddress:   w.Validators[opt.Proposer].Cons(),
		DecidedLastCommit: abci.CommitInfo{Votes: votes},
	}
	br = &BlockResult{Height: h, Req: req}
	func() {
		defer func() {
			if r := recover(); r != nil {
				br.Panic = fmt.Sprint(r)
			}
		}()
		br.Res, br.Err = w.App.FinalizeBlock(req)
	}()
	if br.Res != nil {
		br.AppHash = br.Res.AppHash
	}
	return br
}

// CommitBlock commits a finalized block.
func (w *World) CommitBlock(br *BlockResult) {
	if br.Panic != "" || br.Err != nil {
		return
	}
	func() {
		defer func() {
			if r := recover(); r != nil {
				br.Panic = "commit: " + fmt.Sprint(r)
			}
		}()
		_, br.Err = w.App.Commit()
	}()
	if br.Panic == "" && br.Err == nil {
		w.Height = br.Height
		br.CommitID = w.App.LastCommitID()
		w.LastHash = br.CommitID.Hash
	}
}

// Block = Finalize + Commit.
func (w *World) Block(txs [][]byte, opts ...BlockOpt) *BlockResult {
	var opt BlockOpt
	if len(opts) > 0 {
		opt = opts[0]
	}
	br := w.Finalize(txs, opt)
	if opt.Between != nil && br.Panic == "" && br.Err == nil {
		opt.Between()
	}
	w.CommitBlock(br)
	return br
}

// Ctx returns a context over the committed state (query-like, cache-wrapped) with the header of the next block,
// suitable as the root of keeper-level branch searches. Nothing written to it reaches the app.
func (w *World) Ctx() sdk.Context {
	h := w.Height + 1
	hh := sha256.Sum256([]byte(fmt.Sprintf("block-hash-%d", h)))
	header := cmtproto.Header{ChainID: ChainID, Height: h, Time: w.BlockTime(h), ProposerAddress: w.Validators[0].Cons()}
	var ms storetypes.MultiStore = w.App.CommitMultiStore().CacheMultiStore()
	if w.Height == 0 {
		// nothing is committed yet: the genesis state lives in the finalize-block state created by InitChain
		ms = w.App.NewContextLegacy(false, header).MultiStore().CacheMultiStore()
	}
	ctx := sdk.NewContext(ms, header, false, log.NewNopLogger()).
		WithChainID(ChainID).WithHeaderHash(hh[:]).
		WithConsensusParams(*w.ConsParams).
		WithBlockGasMeter(storetypes.NewInfiniteGasMeter())
	return ctx
}

// Dump returns the sorted content of every mounted KV store as seen through ctx.
func (w *World) Dump(ctx sdk.Context) map[string][][2][]byte {
	out := map[string][][2][]byte{}
	for name, key := range w.Keys {
		it := ctx.KVStore(key).Iterator(nil, nil)
		var kv [][2][]byte
		for ; it.Valid(); it.Next() {
			kv = append(kv, [2][]byte{append([]byte{}, it.Key()...), append([]byte{}, it.Value()...)})
		}
		it.Close()
		out[name] = kv
	}
	return out
}

// StoreNames returns the sorted names of the mounted KV stores.
func (w *World) StoreNames() []string {
	var names []string
	for n := range w.Keys {
		names = append(names, n)
	}
	sort.Strings(names)
	return names
}

// Hash is the SHA-256 of the full store dump (exact state identity for a fixed header).
func (w *World) Hash(ctx sdk.Context, skip ...string) [32]byte {
	h := sha256.New()
	sk := map[string]bool{}
	for _, s := range skip {
		sk[s] = true
	}
	var l [8]byte
	put := func(b []byte) {
		n := len(b)
		for i := 0; i < 8; i++ {
			l[i] = byte(n >> (8 * i))
		}
		h.Write(l[:])
		h.Write(b)
	}
	for _, name := range w.StoreNames() {
		if sk[name] {
			continue
		}
		put([]byte(name))
		it := ctx.KVStore(w.Keys[name]).Iterator(nil, nil)
		for ; it.Valid(); it.Next() {
			put(it.Key())
			put(it.Value())
		}
		it.Close()
	}
	var r [32]byte
	copy(r[:], h.Sum(nil))
	return r
}

// DiffEntry is one differing key between two dumps.
type DiffEntry struct {
	Store string
	Key   []byte
	A, B  []byte // nil = absent
}

func (d DiffEntry) String() string {
	return fmt.Sprintf("%s/%x: %x -> %x", d.Store, d.Key, d.A, d.B)
}

// Diff compares two dumps key by key.
func Diff(a, b map[string][][2][]byte) []DiffEntry {
	var out []DiffEntry
	names := map[string]bool{}
	for n := range a {
		names[n] = true
	}
	for n := range b {
		names[n] = true
	}
	var sorted []string
	for n := range names {
		sorted = append(sorted, n)
	}
	sort.Strings(sorted)
	for _, n := range sorted {
		ma := map[string][]byte{}
		for _, kv := range a[n] {
			ma[string(kv[0])] = kv[1]
		}
		mb := map[string][]byte{}
		for _, kv := range b[n] {
			mb[string(kv[0])] = kv[1]
		}
		keys := map[string]bool{}
		for k := range ma {
			keys[k] = true
		}
		for k := range mb {
			keys[k] = true
		}
		var ks []string
		for k := range keys {
			ks = append(ks, k)
		}
		sort.Strings(ks)
		for _, k := range ks {
			va, oka := ma[k]
			vb, okb := mb[k]
			if oka && okb && string(va) == string(vb) {
				continue
			}
			e := DiffEntry{Store: n, Key: []byte(k)}
			if oka {
				e.A = append([]byte{}, va...)
				if e.A == nil {
					e.A = []byte{}
				}
			}
			if okb {
				e.B = append([]byte{}, vb...)
				if e.B == nil {
					e.B = []byte{}
				}
			}
			out = append(out, e)
		}
	}
	return out
}

// Supply returns the total supply of a denom as seen through ctx.
func (w *World) Supply(ctx sdk.Context, denom string) *big.Int {
	return w.App.BankKeeper.GetSupply(ctx, denom).Amount.BigInt()
}

// Balance of addr in denom.
func (w *World) Balance(ctx sdk.Context, addr common.Address, denom string) *big.Int {
	return w.App.BankKeeper.GetBalance(ctx, addr.Bytes(), denom).Amount.BigInt()
}

// Nonce returns the sequence of the account (0 if absent).
func (w *World) Nonce(ctx sdk.Context, addr common.Address) uint64 {
	acc := w.App.AccountKeeper.GetAccount(ctx, addr.Bytes())
	if acc == nil {
		return 0
	}
	return acc.GetSequence()
}

// ModuleAddr returns the address of a module account.
func ModuleAddr(name string) common.Address {
	return common.BytesToAddress(authtypes.NewModuleAddress(name))
}

// CreateAddr is the CREATE address.
func CreateAddr(sender common.Address, nonce uint64) common.Address {
	return crypto.CreateAddress(sender, nonce)
}
