package world

import (
	"context"
	"fmt"
	"math/big"
	"strconv"
	"strings"

	sdkmath "cosmossdk.io/math"
	abci "github.com/cometbft/cometbft/abci/types"
	clienttx "github.com/cosmos/cosmos-sdk/client/tx"
	codectypes "github.com/cosmos/cosmos-sdk/codec/types"
	sdk "github.com/cosmos/cosmos-sdk/types"
	"github.com/cosmos/cosmos-sdk/types/tx/signing"
	authsigning "github.com/cosmos/cosmos-sdk/x/auth/signing"
	authtx "github.com/cosmos/cosmos-sdk/x/auth/tx"
	"github.com/cosmos/gogoproto/proto"
	"github.com/ethereum/go-ethereum/common"
	"github.com/ethereum/go-ethereum/common/hexutil"
	ethtypes "github.com/ethereum/go-ethereum/core/types"
	ethcrypto "github.com/ethereum/go-ethereum/crypto"

	evmtypes "github.com/EscanBE/evermint/v12/x/evm/types"
	evmutils "github.com/EscanBE/evermint/v12/x/evm/utils"
)

// SignEth signs txData with the account's key for this chain and returns the eth tx.
func (w *World) SignEth(a *Acct, txData ethtypes.TxData) *ethtypes.Transaction {
	key, err := ethcrypto.ToECDSA(a.Priv.Key)
	if err != nil {
		panic(err)
	}
	tx, err := ethtypes.SignNewTx(key, w.EthSigner, txData)
	if err != nil {
		panic(err)
	}
	return tx
}

// WrapEth wraps a signed eth tx into the Cosmos envelope the EVM lane expects; from is the declared sender.
func (w *World) WrapEth(tx *ethtypes.Transaction, from common.Address) []byte {
	bz, err := w.WrapEthE(tx, from, nil)
	if err != nil {
		panic(err)
	}
	return bz
}

// EnvelopeMod allows adversarial changes to the envelope.
type EnvelopeMod func(msg *evmtypes.MsgEthereumTx, b authtx.ExtensionOptionsTxBuilder, setMsgs func(...sdk.Msg))

func (w *World) WrapEthE(tx *ethtypes.Transaction, from common.Address, mod func(msg *evmtypes.MsgEthereumTx)) ([]byte, error) {
	msg := &evmtypes.MsgEthereumTx{}
	if err := msg.FromEthereumTx(tx, from); err != nil {
		return nil, err
	}
	if mod != nil {
		mod(msg)
	}
	b := w.Enc.TxConfig.NewTxBuilder()
	if err := b.SetMsgs(msg); err != nil {
		return nil, err
	}
	opt, err := codectypes.NewAnyWithValue(&evmtypes.ExtensionOptionsEthereumTx{})
	if err != nil {
		return nil, err
	}
	b.(authtx.ExtensionOptionsTxBuilder).SetExtensionOptions(opt)
	b.SetGasLimit(tx.Gas())
	b.SetFeeAmount(sdk.NewCoins(sdk.NewCoin(Denom, sdkmath.NewIntFromBigInt(evmutils.EthTxFee(tx)))))
	return w.Enc.TxConfig.TxEncoder()(b.GetTx())
}

// EthTx signs and wraps.
func (w *World) EthTx(a *Acct, txData ethtypes.TxData) []byte {
	return w.WrapEth(w.SignEth(a, txData), a.Eth())
}

// CosmosTx builds and signs a Cosmos-lane tx with explicit account number / sequence.
func (w *World) CosmosTx(a *Acct, accNum, seq uint64, gas uint64, fee *big.Int, msgs ...sdk.Msg) []byte {
	b := w.Enc.TxConfig.NewTxBuilder()
	b.SetGasLimit(gas)
	b.SetFeeAmount(sdk.NewCoins(sdk.NewCoin(Denom, sdkmath.NewIntFromBigInt(fee))))
	if err := b.SetMsgs(msgs...); err != nil {
		panic(err)
	}
	txCfg := w.Enc.TxConfig
	signMode, err := authsigning.APISignModeToInternal(txCfg.SignModeHandler().DefaultMode())
	if err != nil {
		panic(err)
	}
	sig := signing.SignatureV2{PubKey: a.Priv.PubKey(), Data: &signing.SingleSignatureData{SignMode: signMode}, Sequence: seq}
	if err := b.SetSignatures(sig); err != nil {
		panic(err)
	}
	sd := authsigning.SignerData{ChainID: ChainID, AccountNumber: accNum, Sequence: seq, PubKey: a.Priv.PubKey(), Address: a.Bech()}
	sig, err = clienttx.SignWithPrivKey(context.Background(), signMode, sd, b, a.Priv, txCfg, seq)
	if err != nil {
		panic(err)
	}
	if err := b.SetSignatures(sig); err != nil {
		panic(err)
	}
	bz, err := txCfg.TxEncoder()(b.GetTx())
	if err != nil {
		panic(err)
	}
	return bz
}

// AccNum returns the account number of an account in ctx.
func (w *World) AccNum(ctx sdk.Context, a sdk.AccAddress) uint64 {
	acc := w.App.AccountKeeper.GetAccount(ctx, a)
	if acc == nil {
		return 0
	}
	return acc.GetAccountNumber()
}

// ---------------------------------------------------------------------------
// event parsing
// ---------------------------------------------------------------------------

// Receipt is what consensus reports about one Ethereum tx (from events only).
type Receipt struct {
	Pos          int // position in block
	HasEthTx     bool
	EthTxHash    string
	EthTxIndex   int64
	HasReceipt   bool
	TxHash       string
	ContractAddr string
	GasUsed      uint64
	EffPrice     *big.Int
	BlockNumber  int64
	TxIdx        int64
	LogIdx       int64 // -1 when the attribute is absent
	VmError      string
	HasVmError   bool
	R            *ethtypes.Receipt
}

func attr(ev abci.Event, k string) (string, bool) {
	for _, a := range ev.Attributes {
		if a.Key == k {
			return a.Value, true
		}
	}
	return "", false
}

// ParseReceipt extracts the ethereum_tx / tx_receipt events of one tx result.
func ParseReceipt(pos int, r *abci.ExecTxResult) (*Receipt, error) {
	out := &Receipt{Pos: pos, LogIdx: -1, EthTxIndex: -1, TxIdx: -1}
	nEth, nRc := 0, 0
	for _, ev := range r.Events {
		switch ev.Type {
		case evmtypes.EventTypeEthereumTx:
			nEth++
			out.HasEthTx = true
			out.EthTxHash, _ = attr(ev, evmtypes.AttributeKeyEthereumTxHash)
			if v, ok := attr(ev, evmtypes.AttributeKeyTxIndex); ok {
				n, err := strconv.ParseInt(v, 10, 64)
				if err != nil {
					return nil, err
				}
				out.EthTxIndex = n
			}
		case evmtypes.EventTypeTxReceipt:
			nRc++
			out.HasReceipt = true
			m, _ := attr(ev, evmtypes.AttributeKeyReceiptMarshalled)
			bz, err := hexutil.Decode(m)
			if err != nil {
				return nil, err
			}
			out.R = &ethtypes.Receipt{}
			if err := out.R.UnmarshalBinary(bz); err != nil {
				return nil, err
			}
			out.TxHash, _ = attr(ev, evmtypes.AttributeKeyReceiptEvmTxHash)
			out.ContractAddr, _ = attr(ev, evmtypes.AttributeKeyReceiptContractAddress)
			if v, ok := attr(ev, evmtypes.AttributeKeyReceiptGasUsed); ok {
				out.GasUsed, err = strconv.ParseUint(v, 10, 64)
				if err != nil {
					return nil, err
				}
			}
			if v, ok := attr(ev, evmtypes.AttributeKeyReceiptEffectiveGasPrice); ok {
				out.EffPrice, _ = new(big.Int).SetString(v, 10)
			}
			if v, ok := attr(ev, evmtypes.AttributeKeyReceiptBlockNumber); ok {
				out.BlockNumber, _ = strconv.ParseInt(v, 10, 64)
			}
			if v, ok := attr(ev, evmtypes.AttributeKeyReceiptTxIndex); ok {
				out.TxIdx, _ = strconv.ParseInt(v, 10, 64)
			}
			if v, ok := attr(ev, evmtypes.AttributeKeyReceiptStartLogIndex); ok {
				out.LogIdx, _ = strconv.ParseInt(v, 10, 64)
			}
			out.VmError, out.HasVmError = attr(ev, evmtypes.AttributeKeyReceiptVmError)
		}
	}
	if nEth > 1 || nRc > 1 {
		return out, fmt.Errorf("tx %d has %d ethereum_tx and %d tx_receipt events", pos, nEth, nRc)
	}
	return out, nil
}

// BlockBloom returns the block_bloom attribute of the finalize events ("" when empty) and whether the event exists.
func BlockBloom(res *abci.ResponseFinalizeBlock) (string, int) {
	n := 0
	v := ""
	for _, ev := range res.Events {
		if ev.Type == evmtypes.EventTypeBlockBloom {
			n++
			v, _ = attr(ev, evmtypes.AttributeKeyEthereumBloom)
		}
	}
	return v, n
}

// EthResponse decodes the MsgEthereumTxResponse from a tx result's data (nil if absent).
func (w *World) EthResponse(r *abci.ExecTxResult) *evmtypes.MsgEthereumTxResponse {
	if len(r.Data) == 0 {
		return nil
	}
	var txData sdk.TxMsgData
	if err := w.Enc.Codec.Unmarshal(r.Data, &txData); err != nil {
		return nil
	}
	for _, any := range txData.MsgResponses {
		if strings.HasSuffix(any.TypeUrl, "MsgEthereumTxResponse") {
			var res evmtypes.MsgEthereumTxResponse
			if err := proto.Unmarshal(any.Value, &res); err == nil {
				return &res
			}
		}
	}
	return nil
}

// EventsString renders events canonically (order preserved).
func EventsString(evs []abci.Event) string {
	var sb strings.Builder
	for _, e := range evs {
		sb.WriteString(e.Type)
		sb.WriteString("{")
		for _, a := range e.Attributes {
			sb.WriteString(a.Key)
			sb.WriteString("=")
			sb.WriteString(a.Value)
			sb.WriteString(";")
		}
		sb.WriteString("}")
	}
	return sb.String()
}

// CosmosTxAdv builds a Cosmos tx declaring `declared` as signer (pubkey + address in signer info) but signed with
// signerKey's private key over the sign doc for chainID — used for adversarial encodings.
func (w *World) CosmosTxAdv(declared, signerKey *Acct, accNum, seq uint64, gas uint64, fee *big.Int, chainID string, msgs ...sdk.Msg) []byte {
	b := w.Enc.TxConfig.NewTxBuilder()
	b.SetGasLimit(gas)
	b.SetFeeAmount(sdk.NewCoins(sdk.NewCoin(Denom, sdkmath.NewIntFromBigInt(fee))))
	if err := b.SetMsgs(msgs...); err != nil {
		panic(err)
	}
	txCfg := w.Enc.TxConfig
	signMode, err := authsigning.APISignModeToInternal(txCfg.SignModeHandler().DefaultMode())
	if err != nil {
		panic(err)
	}
	sig := signing.SignatureV2{PubKey: declared.Priv.PubKey(), Data: &signing.SingleSignatureData{SignMode: signMode}, Sequence: seq}
	if err := b.SetSignatures(sig); err != nil {
		panic(err)
	}
	sd := authsigning.SignerData{ChainID: chainID, AccountNumber: accNum, Sequence: seq, PubKey: declared.Priv.PubKey(), Address: declared.Bech()}
	bytesToSign, err := authsigning.GetSignBytesAdapter(context.Background(), txCfg.SignModeHandler(), signMode, sd, b.GetTx())
	if err != nil {
		panic(err)
	}
	sigBz, err := signerKey.Priv.Sign(bytesToSign)
	if err != nil {
		panic(err)
	}
	sig = signing.SignatureV2{PubKey: declared.Priv.PubKey(), Data: &signing.SingleSignatureData{SignMode: signMode, Signature: sigBz}, Sequence: seq}
	if err := b.SetSignatures(sig); err != nil {
		panic(err)
	}
	bz, err := txCfg.TxEncoder()(b.GetTx())
	if err != nil {
		panic(err)
	}
	return bz
}
