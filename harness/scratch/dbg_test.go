package scratch

import (
	"fmt"
	"testing"

	"verif/harness/checks"
	"verif/harness/world"
)

func TestDbg(t *testing.T) {
	run := func(items [][]checks.C06Item) (*world.World, map[string][][2][]byte) {
		w, res := checks.C06Exec(items)
		for _, r := range res {
			for _, x := range r.Res.TxResults {
				fmt.Println("  code", x.Code, "gasW", x.GasWanted, "gasU", x.GasUsed, x.Log)
			}
		}
		return w, w.Dump(w.Ctx())
	}
	t1 := checks.C06Item{Kind: "transfer", Sender: 0, ReplayOf: -1}
	_, a := run([][]checks.C06Item{{t1, t1, t1}})
	_, b := run([][]checks.C06Item{{t1}})
	for _, d := range world.Diff(a, b) {
		fmt.Println(d.String())
	}
}
