// Package ev holds the reporting side shared by all checks: evidence files, known findings,
// replay artefacts and the VIOLATION / KNOWN-FINDING protocol.
package ev

import (
	"bytes"
	"encoding/json"
	"fmt"
	"os"
	"path/filepath"
	"sort"
	"strconv"
	"strings"
	"sync"
	"time"
)

// Root is /verif (overridable for tests).
var Root = func() string {
	if r := os.Getenv("VERIF_ROOT"); r != "" {
		return r
	}
	return "/verif"
}()

// Finding is one oracle failure.
type Finding struct {
	Clause    string      `json:"clause"`    // oracle clause id, e.g. "supply-not-increasing"
	Signature string      `json:"signature"` // defect-class signature used for known-finding matching ("" = unexplained)
	Detail    string      `json:"detail"`
	Replay    interface{} `json:"replay"` // self-contained description of the failing case
}

// Known is an entry of known_findings.json.
type Known struct {
	Property  string `json:"property"`
	Signature string `json:"signature"`
	What      string `json:"what"`
	Status    string `json:"status"` // "known" or "fixed"
	Commit    string `json:"commit,omitempty"`
}

// Run collects what one check invocation did.
type Run struct {
	Property string
	Tier     string
	Seed     int64
	Level    string
	start    time.Time

	mu            sync.Mutex
	Coverage      map[string]interface{}
	Assumptions   []string
	findings      []Finding
	samples       []interface{}
	distinct      map[string]int
	outcomes      map[string]int
	counters      map[string]int64
	known         []Known
	notes         []string
	findingCounts map[string]int
}

func NewRun(property, level string) *Run {
	tier := os.Getenv("VERIF_TIER")
	if tier != "thorough" {
		tier = "quick"
	}
	seed, _ := strconv.ParseInt(os.Getenv("VERIF_SEED"), 10, 64)
	r := &Run{Property: property, Tier: tier, Seed: seed, Level: level, start: time.Now(),
		Coverage: map[string]interface{}{}, distinct: map[string]int{}, outcomes: map[string]int{}, counters: map[string]int64{}}
	r.known = LoadKnown(property)
	return r
}

func (r *Run) Thorough() bool { return r.Tier == "thorough" }

// LoadKnown reads /verif/known_findings.json (never written at run time).
func LoadKnown(property string) []Known {
	bz, err := os.ReadFile(filepath.Join(Root, "known_findings.json"))
	if err != nil {
		return nil
	}
	var f struct {
		Findings []Known `json:"findings"`
	}
	if err := json.Unmarshal(bz, &f); err != nil {
		fmt.Fprintf(os.Stderr, "known_findings.json unreadable: %v\n", err)
		os.Exit(2)
	}
	var out []Known
	for _, k := range f.Findings {
		if k.Property == property {
			out = append(out, k)
		}
	}
	return out
}

// Count adds to a named counter (reported in coverage).
func (r *Run) Count(name string, n int64) {
	r.mu.Lock()
	r.counters[name] += n
	r.mu.Unlock()
}

func (r *Run) Counter(name string) int64 {
	r.mu.Lock()
	defer r.mu.Unlock()
	return r.counters[name]
}

// Outcome records the outcome class of one explored case.
func (r *Run) Outcome(class string) {
	r.mu.Lock()
	r.outcomes[class]++
	r.mu.Unlock()
}

// Distinct records a distinct non-trivial case key.
func (r *Run) Distinct(key string) {
	r.mu.Lock()
	r.distinct[key]++
	r.mu.Unlock()
}

// Sample keeps up to 5 sample cases.
func (r *Run) Sample(s interface{}) {
	r.mu.Lock()
	if len(r.samples) < 5 {
		r.samples = append(r.samples, s)
	}
	r.mu.Unlock()
}

func (r *Run) Note(format string, a ...interface{}) {
	r.mu.Lock()
	r.notes = append(r.notes, fmt.Sprintf(format, a...))
	r.mu.Unlock()
}

// Fail records a finding.
func (r *Run) Fail(f Finding) {
	r.mu.Lock()
	k := f.Clause + "|" + f.Signature
	if r.findingCounts == nil {
		r.findingCounts = map[string]int{}
	}
	r.findingCounts[k]++
	if r.findingCounts[k] <= maxRetainedPerGroup || os.Getenv("VERIF_DEBUG") != "" {
		r.findings = append(r.findings, f)
	}
	r.mu.Unlock()
}

// maxRetainedPerGroup bounds how many findings of one (clause, signature) group are kept in memory; all are counted.
const maxRetainedPerGroup = 20

func (r *Run) NumFindings() int {
	r.mu.Lock()
	defer r.mu.Unlock()
	n := 0
	for _, v := range r.findingCounts {
		n += v
	}
	return n
}

// Finish writes the evidence file, prints the protocol lines and returns the exit code.
func (r *Run) Finish() int {
	r.mu.Lock()
	defer r.mu.Unlock()

	// classify findings
	knownSig := map[string]Known{}
	for _, k := range r.known {
		if k.Status == "known" {
			knownSig[k.Signature] = k
		}
	}
	type group struct {
		first Finding
		n     int
	}
	knownHits := map[string]*group{}
	violGroups := map[string]*group{}
	var violOrder, knownOrder []string
	for _, f := range r.findings {
		if f.Signature != "" {
			if _, ok := knownSig[f.Signature]; ok {
				g := knownHits[f.Signature]
				if g == nil {
					g = &group{first: f}
					knownHits[f.Signature] = g
					knownOrder = append(knownOrder, f.Signature)
				}
				continue
			}
		}
		key := f.Clause + "|" + f.Signature
		g := violGroups[key]
		if g == nil {
			g = &group{first: f}
			violGroups[key] = g
			violOrder = append(violOrder, key)
		}
	}
	for sig, g := range knownHits {
		g.n = 0
		for k, v := range r.findingCounts {
			if strings.HasSuffix(k, "|"+sig) {
				g.n += v
			}
		}
	}
	for key, g := range violGroups {
		g.n = r.findingCounts[key]
	}

	if os.Getenv("VERIF_DEBUG") != "" {
		bz, _ := json.MarshalIndent(r.findings, "", " ")
		_ = os.MkdirAll(filepath.Join(Root, ".work"), 0o755)
		_ = os.WriteFile(filepath.Join(Root, ".work", r.Property+"-findings.json"), bz, 0o644)
	}
	replayDir := filepath.Join(Root, "replays", r.Property)
	_ = os.MkdirAll(replayDir, 0o755)
	if old, err := filepath.Glob(filepath.Join(replayDir, "*.json")); err == nil {
		for _, f := range old {
			b := filepath.Base(f)
			if strings.HasPrefix(b, "violation-") || strings.HasPrefix(b, "known-") {
				_ = os.Remove(f) // artefacts of an earlier run; "fixed-*" regression cases are kept
			}
		}
	}
	writeReplay := func(name string, f Finding, n int) string {
		p := filepath.Join(replayDir, name+".json")
		bz, _ := json.MarshalIndent(map[string]interface{}{
			"property": r.Property, "clause": f.Clause, "signature": f.Signature, "detail": f.Detail,
			"occurrences_in_run": n, "case": f.Replay,
		}, "", " ")
		_ = os.WriteFile(p, bz, 0o644)
		return p
	}
	sanitize := func(s string) string {
		s = strings.Map(func(c rune) rune {
			if (c >= 'a' && c <= 'z') || (c >= 'A' && c <= 'Z') || (c >= '0' && c <= '9') || c == '-' || c == '_' {
				return c
			}
			return '_'
		}, s)
		if len(s) > 60 {
			s = s[:60]
		}
		return s
	}

	var knownOut []map[string]interface{}
	for _, sig := range knownOrder {
		g := knownHits[sig]
		p := writeReplay("known-"+sanitize(sig), g.first, g.n)
		fmt.Printf("KNOWN-FINDING: property=%s %s [%s] (%d occurrence(s), first: %s; replay=%s)\n", r.Property, knownSig[sig].What, sig, g.n, g.first.Detail, p)
		knownOut = append(knownOut, map[string]interface{}{"signature": sig, "occurrences": g.n, "first": g.first.Detail})
	}
	nViol := 0
	for i, key := range violOrder {
		g := violGroups[key]
		p := writeReplay(fmt.Sprintf("violation-%d-%s", i, sanitize(g.first.Clause)), g.first, g.n)
		fmt.Printf("VIOLATION property=%s replay=%s\n", r.Property, p)
		fmt.Printf("  clause=%s signature=%q occurrences=%d detail=%s\n", g.first.Clause, g.first.Signature, g.n, g.first.Detail)
		nViol += g.n
	}

	cov := r.Coverage
	for k, v := range r.counters {
		if _, ok := cov[k]; !ok {
			cov[k] = v
		}
	}
	if _, ok := cov["distinct_nontrivial"]; !ok {
		cov["distinct_nontrivial"] = len(r.distinct)
	}
	if r.Level == "model_checking" {
		// checks that enumerate a finite space of cases without state deduplication report, in the model-checking keys:
		// states = distinct (case class, outcome class) keys reached, transitions = executions of the real code,
		// traces validated = the same executions (there is no model other than the implementation)
		if ev, ok := cov["evaluations"]; ok {
			if _, has := cov["states"]; !has {
				cov["states"] = cov["distinct_nontrivial"]
				cov["states_definition"] = "distinct (case class, outcome class) keys reached by the enumeration"
			}
			if _, has := cov["transitions"]; !has {
				cov["transitions"] = ev
			}
			if _, has := cov["traces_validated_against_impl"]; !has {
				cov["traces_validated_against_impl"] = ev
			}
		}
	}
	oc := map[string]int{}
	for k, v := range r.outcomes {
		oc[k] = v
	}
	cov["distinct_outcomes"] = len(oc)
	if len(oc) <= 40 {
		cov["outcome_histogram"] = oc
	} else {
		// keep the 40 most frequent
		type kv struct {
			k string
			v int
		}
		var l []kv
		for k, v := range oc {
			l = append(l, kv{k, v})
		}
		sort.Slice(l, func(i, j int) bool { return l[i].v > l[j].v || (l[i].v == l[j].v && l[i].k < l[j].k) })
		top := map[string]int{}
		for _, e := range l[:40] {
			top[e.k] = e.v
		}
		cov["outcome_histogram_top40"] = top
	}
	if len(r.samples) == 0 {
		r.samples = append(r.samples, "no case explored")
	}
	cov["samples"] = r.samples
	cov["known_findings_matched"] = knownOut
	if len(r.notes) > 0 {
		cov["notes"] = r.notes
	}
	evd := map[string]interface{}{
		"property_id": r.Property, "tier": r.Tier, "seed": r.Seed, "level": r.Level,
		"coverage": cov, "assumptions": r.Assumptions,
		"wall_s": time.Since(r.start).Seconds(), "violations": nViol,
	}
	if r.Assumptions == nil {
		evd["assumptions"] = []string{}
	}
	_ = os.MkdirAll(filepath.Join(Root, "evidence"), 0o755)
	bz, err := json.MarshalIndent(evd, "", " ")
	if err != nil {
		fmt.Fprintf(os.Stderr, "evidence marshal: %v\n", err)
		return 2
	}
	if err := os.WriteFile(filepath.Join(Root, "evidence", r.Property+".json"), bz, 0o644); err != nil {
		fmt.Fprintf(os.Stderr, "evidence write: %v\n", err)
		return 2
	}
	fmt.Printf("%s tier=%s wall=%.1fs violations=%d known=%d\n", r.Property, r.Tier, time.Since(r.start).Seconds(), nViol, len(knownOrder))
	if nViol > 0 {
		return 1
	}
	return 0
}

// Deadline helps checks respect an internal time budget without ever turning it into a verdict.
type Deadline struct{ t time.Time }

func NewDeadline(d time.Duration) *Deadline { return &Deadline{t: time.Now().Add(d)} }
func (d *Deadline) Hit() bool               { return time.Now().After(d.t) }

// ---------------------------------------------------------------------------
// process sharding: the parent re-executes itself n times with VERIF_SHARD=i/n; every child explores the
// cases whose index falls into its shard and hands its partial Run back through a file.
// ---------------------------------------------------------------------------

type partial struct {
	Findings      []Finding
	Samples       []interface{}
	Distinct      map[string]int
	Outcomes      map[string]int
	Counters      map[string]int64
	Notes         []string
	Coverage      map[string]interface{}
	FindingCounts map[string]int
}

// Sharded runs body in n child processes (or directly when n <= 1). In a child it returns after body and
// exits the process. body receives (shard, n) and must only process cases with index%n == shard.
func (r *Run) Sharded(n int, body func(shard, n int)) {
	if s := os.Getenv("VERIF_SHARD"); s != "" {
		var i, m int
		if _, err := fmt.Sscanf(s, "%d/%d", &i, &m); err != nil {
			fmt.Fprintf(os.Stderr, "bad VERIF_SHARD %q\n", s)
			os.Exit(2)
		}
		body(i, m)
		r.mu.Lock()
		p := partial{FindingCounts: r.findingCounts, Findings: r.findings, Samples: r.samples, Distinct: r.distinct, Outcomes: r.outcomes, Counters: r.counters, Notes: r.notes, Coverage: r.Coverage}
		bz, err := json.Marshal(p)
		r.mu.Unlock()
		if err != nil {
			fmt.Fprintf(os.Stderr, "shard marshal: %v\n", err)
			os.Exit(2)
		}
		if err := os.WriteFile(os.Getenv("VERIF_SHARD_OUT"), bz, 0o644); err != nil {
			fmt.Fprintf(os.Stderr, "shard write: %v\n", err)
			os.Exit(2)
		}
		os.Exit(0)
	}
	if n <= 1 {
		body(0, 1)
		return
	}
	dir, err := os.MkdirTemp("", "vshard")
	if err != nil {
		fmt.Fprintf(os.Stderr, "mkdtemp: %v\n", err)
		os.Exit(2)
	}
	defer os.RemoveAll(dir)
	var wg sync.WaitGroup
	errs := make([]error, n)
	outs := make([]string, n)
	for i := 0; i < n; i++ {
		wg.Add(1)
		go func(i int) {
			defer wg.Done()
			out := filepath.Join(dir, fmt.Sprintf("shard-%d.json", i))
			outs[i] = out
			cmd := execCommand(os.Args[0], os.Args[1:]...)
			cmd.Env = append(os.Environ(), fmt.Sprintf("VERIF_SHARD=%d/%d", i, n), "VERIF_SHARD_OUT="+out, "GOMAXPROCS=2")
			cmd.Stderr = os.Stderr
			cmd.Stdout = nil
			errs[i] = cmd.Run()
		}(i)
	}
	wg.Wait()
	for i := 0; i < n; i++ {
		if errs[i] != nil {
			fmt.Fprintf(os.Stderr, "HARNESS: shard %d failed: %v\n", i, errs[i])
			os.Exit(2)
		}
		bz, err := os.ReadFile(outs[i])
		if err != nil {
			fmt.Fprintf(os.Stderr, "HARNESS: shard %d produced no output: %v\n", i, err)
			os.Exit(2)
		}
		var p partial
		dec := json.NewDecoder(bytes.NewReader(bz))
		dec.UseNumber() // keep 64-bit integers of replay cases exact
		if err := dec.Decode(&p); err != nil {
			fmt.Fprintf(os.Stderr, "HARNESS: shard %d output unreadable: %v\n", i, err)
			os.Exit(2)
		}
		r.mu.Lock()
		r.findings = append(r.findings, p.Findings...)
		if r.findingCounts == nil {
			r.findingCounts = map[string]int{}
		}
		for k, v := range p.FindingCounts {
			r.findingCounts[k] += v
		}
		for _, s := range p.Samples {
			if len(r.samples) < 5 {
				r.samples = append(r.samples, s)
			}
		}
		for k, v := range p.Distinct {
			r.distinct[k] += v
		}
		for k, v := range p.Outcomes {
			r.outcomes[k] += v
		}
		for k, v := range p.Counters {
			r.counters[k] += v
		}
		r.notes = append(r.notes, p.Notes...)
		for k, v := range p.Coverage {
			if k == "exhaustive" {
				if b, ok := v.(bool); ok && !b {
					r.Coverage[k] = false
				} else if _, seen := r.Coverage[k]; !seen {
					r.Coverage[k] = v
				}
				continue
			}
			if strings.HasSuffix(k, "_completed") {
				// depth / bound completed: the run as a whole completed the minimum over its shards
				if cur, seen := r.Coverage[k]; seen {
					if toF(v) < toF(cur) {
						r.Coverage[k] = v
					}
					continue
				}
			}
			if strings.HasSuffix(k, "_fixpoint") {
				if cur, seen := r.Coverage[k]; seen {
					if b, ok := v.(bool); ok && !b {
						r.Coverage[k] = false
					}
					_ = cur
					continue
				}
			}
			if _, seen := r.Coverage[k]; !seen {
				r.Coverage[k] = v
			}
		}
		r.mu.Unlock()
	}
}

// IsShardChild tells whether this process is a shard worker.
func IsShardChild() bool { return os.Getenv("VERIF_SHARD") != "" }

// NumDistinct is the number of distinct keys recorded so far.
func (r *Run) NumDistinct() int {
	r.mu.Lock()
	defer r.mu.Unlock()
	return len(r.distinct)
}

func toF(v interface{}) float64 {
	switch x := v.(type) {
	case json.Number:
		f, _ := x.Float64()
		return f
	case float64:
		return x
	case int:
		return float64(x)
	case int64:
		return float64(x)
	}
	return 0
}
