package ev

import "os/exec"

func execCommand(name string, args ...string) *exec.Cmd { return exec.Command(name, args...) }
