#!/bin/sh
# usage: run.sh <Cxx> quick|thorough|replay [replay-file]
# Rebuilds the checker from /repo's current working tree (incremental) and runs one property check.
# exit 0 = property held on everything explored (KNOWN-FINDING lines possible), 1 = VIOLATION, 2 = harness problem.
ID="$1"; MODE="$2"; FILE="$3"
case "$FILE" in /*|"") ;; *) FILE="$(pwd)/$FILE" ;; esac
export GOFLAGS=-mod=mod GOPROXY=off GOSUMDB=off GOTOOLCHAIN=local
# the directory this script lives in (normally /verif; a snapshot worktree when started through `vp run`)
VERIF_ROOT="$(cd "$(dirname "$0")" && pwd)"
export VERIF_ROOT
# the repository under verification (the harness go.mod points at it with a replace directive)
REPO="${VERIF_REPO:-/repo}"
cd "$VERIF_ROOT/harness" || exit 2
case "$MODE" in
  quick|thorough) export VERIF_TIER="$MODE" ;;
  replay) ;;
  *) echo "usage: run.sh <Cxx> quick|thorough|replay [file]" >&2; exit 2 ;;
esac
mkdir -p $VERIF_ROOT/bin $VERIF_ROOT/.work
BIN=$VERIF_ROOT/bin/vcheck
(
  flock 9
  cmp -s $REPO/go.sum go.sum || cp $REPO/go.sum go.sum
  case "$ID" in
    C01)
      # environment exploration needs the consensus-profile overlay generated from the current tree
      $VERIF_ROOT/tools/build_vcheck_i.sh ;;
    C20)
      go build -o $VERIF_ROOT/bin/vcheck ./cmd/vcheck && $VERIF_ROOT/tools/build_vsched.sh ;;
    *)
      go build -o $VERIF_ROOT/bin/vcheck ./cmd/vcheck ;;
  esac
) 9>"$VERIF_ROOT/.work/build.lock" || { echo "HARNESS: build of the checker against /repo failed" >&2; exit 2; }
[ "$ID" = C01 ] && BIN=$VERIF_ROOT/bin/vcheck-i
if [ "$MODE" = replay ]; then
  exec $BIN "$ID" --replay "$FILE"
fi
exec $BIN "$ID"
