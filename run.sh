#!/bin/sh
# usage: run.sh <Cxx> quick|thorough|replay [replay-file]
# Rebuilds the checker from /repo's current working tree (incremental) and runs one property check.
# exit 0 = property held on everything explored (KNOWN-FINDING lines possible), 1 = VIOLATION, 2 = harness problem.
ID="$1"; MODE="$2"; FILE="$3"
case "$FILE" in /*|"") ;; *) FILE="$(pwd)/$FILE" ;; esac
export GOFLAGS=-mod=mod GOPROXY=off GOSUMDB=off GOTOOLCHAIN=local
export VERIF_ROOT=/verif
cd /verif/harness || exit 2
case "$MODE" in
  quick|thorough) export VERIF_TIER="$MODE" ;;
  replay) ;;
  *) echo "usage: run.sh <Cxx> quick|thorough|replay [file]" >&2; exit 2 ;;
esac
mkdir -p /verif/bin /verif/.work
BIN=/verif/bin/vcheck
(
  flock 9
  cmp -s /repo/go.sum go.sum || cp /repo/go.sum go.sum
  case "$ID" in
    C01)
      # environment exploration needs the consensus-profile overlay generated from the current tree
      /verif/tools/build_vcheck_i.sh ;;
    C20)
      go build -o /verif/bin/vcheck ./cmd/vcheck && /verif/tools/build_vsched.sh ;;
    *)
      go build -o /verif/bin/vcheck ./cmd/vcheck ;;
  esac
) 9>/verif/.work/build.lock || { echo "HARNESS: build of the checker against /repo failed" >&2; exit 2; }
[ "$ID" = C01 ] && BIN=/verif/bin/vcheck-i
if [ "$MODE" = replay ]; then
  exec $BIN "$ID" --replay "$FILE"
fi
exec $BIN "$ID"
